# Evidence program for P (ordering comparisons of LinCombBool by Boolean algebra).
#
# Run as   PYTHONPATH=<tree> /venv/bin/python P.check.py   from an empty directory.
#
# Uses the snarkjs backend as a recorder (variables, witness, constraints as
# {wire: coefficient} maps) and checks, for programs that exercise <, <=, >, >=
# of LinCombBool with every kind of other operand (constant int / bool,
# LinCombBool private / public / derived, LinComb holding a bit), plain, under
# guards (lazy if_then_else branches, nested; @guarded functions, nested), with error
# checks disabled on invalid inputs, and for several bitlengths:
#
#   1. C06 itself: all completing runs of a program (all input vectors, both
#      values of every secret condition, valid and ignored-invalid inputs) emit
#      the SAME system: same number and order of public / private variables,
#      same constraints with same coefficients, same wire expressions for results.
#   2. every emitted constraint holds on the recorded witness (mod p) in valid runs,
#   3. the results agree with plain Python semantics of the comparison on bools,
#   4. by brute force over the auxiliary witness wires: with the inputs fixed to
#      bits, every witness that satisfies the emitted constraints gives the
#      comparison result demanded by Python (so the cheaper circuit is still binding),
#   5. (informational, printed only) whether the system of these operators depends on
#      runtime.bitlength; with the change it does not.
#
# Exit status 0 iff everything held.

import os, sys, itertools, operator

os.environ["PYSNARK_BACKEND"] = "snarkjs"

import pysnark.runtime as rt
import pysnark.snarkjsbackend as be
from pysnark.runtime import PrivVal, PubVal, LinComb, ignore_errors
from pysnark.boolean import LinCombBool, PrivValBool, PubValBool
from pysnark.branching import if_then_else

rt.autoprove = False
assert rt.backend is be, "recorder backend not active"
P = be.get_modulus()

failures = []
def fail(msg):
    failures.append(msg)
    print("FAIL:", msg)

OPS = [("<", operator.lt), ("<=", operator.le), (">", operator.gt), (">=", operator.ge)]

# ---------------------------------------------------------------- recording

def lcrepr(lc):
    """ a backend linear combination exactly as emitted (order and zero terms included) """
    return tuple(lc.lc.items())

def lcnorm(lc):
    return tuple(sorted((k, v % P) for (k, v) in lc.lc.items() if v % P != 0))

def lceval(lc, wit):
    return sum(c * wit[k] for (k, c) in lc.lc.items()) % P

def wire(x):
    if isinstance(x, LinCombBool): return x.lc
    return x

def value(x):
    if isinstance(x, (LinCombBool,)): return x.lc.value
    if isinstance(x, LinComb): return x.value
    return x

class Run:
    pass

def record(prog, inputs, ignore=False, bitlength=16):
    """ run prog(*inputs) on a fresh recorder; returns None if the run does not complete """
    del be.privvals[:]; del be.pubvals[:]; del be.constraints[:]
    rt.guard = None
    LinComb.ONE = LinComb.ONE_SAFE
    ignore_errors(ignore)
    rt.bitlength = bitlength
    r = Run()
    try:
        res = prog(*inputs)
    except (AssertionError, ValueError, RuntimeError, IndexError) as e:
        ignore_errors(False)
        r.error = e
        return r
    r.error = None
    ignore_errors(False)
    if rt.guard is not None or LinComb.ONE is not LinComb.ONE_SAFE:
        fail("guard state leaked out of " + prog.__name__)
    if not isinstance(res, (list, tuple)): res = [res]
    r.results = [value(x) for x in res]
    r.shape = (len(be.pubvals), len(be.privvals),
               tuple((lcrepr(a), lcrepr(b), lcrepr(c)) for (a, b, c) in be.constraints),
               tuple(lcrepr(wire(x).lc) if not isinstance(x, int) else ("const", x) for x in res))
    r.nshape = (len(be.pubvals), len(be.privvals),
               tuple((lcnorm(a), lcnorm(b), lcnorm(c)) for (a, b, c) in be.constraints),
               tuple(lcnorm(wire(x).lc) if not isinstance(x, int) else ("const", x) for x in res))
    r.constraints = list(be.constraints)
    r.reslcs = [wire(x).lc if not isinstance(x, int) else None for x in res]
    wit = {0: 1}
    for (i, v) in enumerate(be.pubvals): wit[i + 1] = v % P
    for (i, v) in enumerate(be.privvals): wit[-(i + 1)] = v % P
    r.wit = wit
    r.unsat = [ix for (ix, (a, b, c)) in enumerate(be.constraints)
               if (lceval(a, wit) * lceval(b, wit) - lceval(c, wit)) % P != 0]
    # the value the library reports must be the value its wire carries
    for (x, v) in zip(res, r.results):
        if not isinstance(x, int) and lceval(wire(x).lc, wit) != v % P:
            fail("%s%s: reported value %d is not the value of the result wire" % (prog.__name__, inputs, v))
    return r

nsystems = 0
def same_system(name, runs):
    """ property C06 over all completed runs in the list [(label, Run)] """
    global nsystems
    done = [(l, r) for (l, r) in runs if r.error is None]
    if len(done) < 2:
        fail(name + ": fewer than two completing runs, nothing compared")
        return
    (l0, r0) = done[0]
    for (l, r) in done[1:]:
        nsystems += 1
        if r.shape != r0.shape:
            what = "normalised systems differ too" if r.nshape != r0.nshape else "only zero terms / order of terms differ"
            fail("%s: constraint system of run %s differs from run %s (%s): %d/%d pub, %d/%d priv, %d/%d constraints"
                 % (name, l, l0, what, r.shape[0], r0.shape[0], r.shape[1], r0.shape[1], len(r.shape[2]), len(r0.shape[2])))

# ---------------------------------------------------------------- operand kinds

# each maker turns a Python bit into an operand; "const" operands are public
# program text, so they are fixed per program instead of being an input
def mk_priv(b): return PrivValBool(b)
def mk_pub(b): return PubValBool(b)
def mk_lc(b): return PrivVal(b)                      # LinComb holding a bit: gets constrained by the comparison
def mk_publc(b): return PubVal(b)
def mk_not(b): return ~PrivValBool(1 - b)            # derived Boolean: 1 - wire
def mk_and(b): return PrivValBool(b) & PrivValBool(1)  # derived Boolean: product wire
def mk_cmp(b): return PrivVal(b) != 0                 # Boolean out of check_zero

LEFT = [mk_priv, mk_pub, mk_not, mk_and, mk_cmp]
RIGHT = [mk_priv, mk_pub, mk_lc, mk_publc, mk_not, mk_and, mk_cmp]
CONSTS = [0, 1, False, True]

BITS = [0, 1]
bitlength_dependent = []

# ---------------------------------------------------------------- 1-3: plain comparisons, every operand kind

for (opname, op) in OPS:
    for ml in LEFT:
        for mr in RIGHT:
            def prog(a, b, ml=ml, mr=mr, op=op):
                return op(ml(a), mr(b))
            prog.__name__ = "%s %s %s" % (ml.__name__, opname, mr.__name__)
            runs = []
            for (a, b) in itertools.product(BITS, BITS):
                for bl in (16, 5):
                    r = record(prog, (a, b), bitlength=bl)
                    runs.append(((a, b, bl), r))
                    if r.error is not None:
                        fail("%s on (%d,%d) did not complete: %r" % (prog.__name__, a, b, r.error)); continue
                    if r.unsat: fail("%s on (%d,%d): constraints %s do not hold on the witness" % (prog.__name__, a, b, r.unsat))
                    if r.results[0] != int(op(a, b)):
                        fail("%s on (%d,%d) = %d, Python says %d" % (prog.__name__, a, b, r.results[0], op(a, b)))
            for bl in (16, 5):                         # C06 proper: per bitlength
                same_system(prog.__name__ + " @%d" % bl, [(l, r) for (l, r) in runs if l[2] == bl])
            byl = dict(runs)
            if byl[(0, 0, 16)].error is None and byl[(0, 0, 5)].error is None and byl[(0, 0, 16)].shape != byl[(0, 0, 5)].shape:
                bitlength_dependent.append(prog.__name__)   # 5.: informational, the property does not demand it

        for c in CONSTS:
            # Boolean on the left, constant on the right, and the reflected form constant <op> Boolean
            def prog(a, ml=ml, op=op, c=c): return op(ml(a), c)
            def rprog(a, ml=ml, op=op, c=c): return op(c, ml(a))
            prog.__name__ = "%s %s %r" % (ml.__name__, opname, c)
            rprog.__name__ = "%r %s %s" % (c, opname, ml.__name__)
            for (pg, py) in ((prog, lambda a: op(a, c)), (rprog, lambda a: op(c, a))):
                runs = []
                for a in BITS:
                    r = record(pg, (a,))
                    runs.append(((a,), r))
                    if r.error is not None:
                        fail("%s on %d did not complete: %r" % (pg.__name__, a, r.error)); continue
                    if r.unsat: fail("%s on %d: constraints %s do not hold" % (pg.__name__, a, r.unsat))
                    if r.results[0] != int(py(a)): fail("%s on %d = %d, Python says %d" % (pg.__name__, a, r.results[0], py(a)))
                same_system(pg.__name__, runs)

# a constant that is not a bit is a (public) type error for every input, never a different circuit
for (opname, op) in OPS:
    for c in (2, -1):
        outcomes = set()
        for a in BITS:
            r = record(lambda a: op(PrivValBool(a), c), (a,))
            outcomes.add(type(r.error).__name__)
        if outcomes != {"ValueError"}: fail("Boolean %s %d: expected ValueError for every input, got %s" % (opname, c, outcomes))

# ---------------------------------------------------------------- 4: brute force over the auxiliary wires

def brute(prog, nin, pyfn, name):
    """ inputs fixed to bits, all other private wires range over a small set that
        contains every value an honest or a cheating prover could hope to use """
    cand = [0, 1, 2, P - 1, P - 2, (P + 1) // 2]
    for ins in itertools.product(BITS, repeat=nin):
        r = record(prog, ins)
        if r.error is not None: fail(name + ": did not complete"); return
        npriv = r.shape[1]
        aux = [-(i + 1) for i in range(nin, npriv)]          # the first nin private wires are the inputs
        if len(aux) > 4:
            print("SKIP: %s: %d auxiliary wires, too many for brute force" % (name, len(aux))); return
        sat = 0
        for vals in itertools.product(cand, repeat=len(aux)):
            wit = dict(r.wit)
            for (k, v) in zip(aux, vals): wit[k] = v
            if all((lceval(a, wit) * lceval(b, wit) - lceval(c, wit)) % P == 0 for (a, b, c) in r.constraints):
                sat += 1
                out = lceval(r.reslcs[0], wit)
                if out != int(pyfn(*ins)):
                    fail("%s on %s: witness %s satisfies all constraints but yields %d instead of %d" % (name, ins, vals, out, pyfn(*ins)))
        if sat == 0: fail("%s on %s: no satisfying witness found" % (name, ins))

for (opname, op) in OPS:
    brute(lambda a, b: op(PrivValBool(a), PrivValBool(b)), 2, op, "bool %s bool" % opname)
    brute(lambda a, b: op(PrivValBool(a), PrivVal(b)), 2, op, "bool %s lincomb" % opname)
    def derived(a, b, op=op):
        a = PrivValBool(a); b = PrivValBool(b)
        return op(a & b, b)
    brute(derived, 2, lambda a, b: op(a & b, b), "(a&b) %s b" % opname)
    for c in (0, 1):
        brute(lambda a: op(PrivValBool(a), c), 1, lambda a: op(a, c), "bool %s %d" % (opname, c))

# ---------------------------------------------------------------- 1-3 again: guards, nesting, contexts, ignore_errors

def guarded_prog(op):
    def prog(c, d, a, b, x):
        c = PrivValBool(c); d = PrivValBool(d); a = PrivValBool(a); b = PrivValBool(b); x = PrivVal(x)
        def inner_true():
            return if_then_else(d, lambda: op(a, b) & op(b, 1), lambda: op(a, x >= 3) | op(True, b))
        def inner_false():
            t = op(a, PrivVal(b.lc.value))            # LinComb operand: Booleanity constraint under the guard
            return op(t, a) ^ op(0, b)
        r = if_then_else(c, inner_true, inner_false)
        return [r, op(a, b), op(b, c)]
    return prog

def guarded_py(op, c, d, a, b, x):
    if c:
        r = (op(a, b) & op(b, 1)) if d else (op(a, int(x >= 3)) | op(True, b))
    else:
        r = op(int(op(a, b)), a) ^ op(0, b)
    return [int(r), int(op(a, b)), int(op(b, c))]

for (opname, op) in OPS:
    prog = guarded_prog(op)
    prog.__name__ = "guarded " + opname
    runs = []
    for ins in itertools.product(BITS, BITS, BITS, BITS, (0, 3, 200, -7)):
        r = record(prog, ins)
        runs.append((ins, r))
        if r.error is not None: fail("%s on %s did not complete: %r" % (prog.__name__, ins, r.error)); continue
        if r.unsat: fail("%s on %s: constraints %s do not hold" % (prog.__name__, ins, r.unsat))
        if r.results != guarded_py(op, *ins): fail("%s on %s = %s, Python says %s" % (prog.__name__, ins, r.results, guarded_py(op, *ins)))
    # invalid inputs with error checks disabled: x outside the bitlength
    for ins in itertools.product(BITS, BITS, BITS, BITS, (1 << 40, -(1 << 33))):
        r = record(prog, ins, ignore=True)
        runs.append((("ignore",) + ins, r))
        if r.error is not None: fail("%s on %s (ignoring errors) did not complete: %r" % (prog.__name__, ins, r.error))
    same_system(prog.__name__, runs)

def decorated_prog(op):
    def prog(c, a, b):
        c = PrivValBool(c); a = PrivValBool(a); b = PubValBool(b)
        @rt.guarded(op(c, a).lc)
        def outer():
            t = op(a, b)
            @rt.guarded((~t).lc)
            def inner():
                return op(t, c) & op(c, 1)
            u = inner()
            op(u, t).assert_eq(op(u, t))      # an assertion on the result (assert_* keep their generic circuit)
            return [t, u, op(u, PrivVal(t.lc.value))]
        return outer() + [op(b, c)]
    return prog

def decorated_py(op, c, a, b):
    t = int(op(a, b)); u = int(op(t, c)) & int(op(c, 1))
    return [t, u, int(op(u, t)), int(op(b, c))]

for (opname, op) in OPS:
    prog = decorated_prog(op)
    prog.__name__ = "decorated " + opname
    runs = []
    for ins in itertools.product(BITS, BITS, BITS):
        for ign in (False, True):
            r = record(prog, ins, ignore=ign)
            runs.append(((ign,) + ins, r))
            if r.error is not None: fail("%s on %s did not complete: %r" % (prog.__name__, ins, r.error)); continue
            if r.unsat: fail("%s on %s: constraints %s do not hold" % (prog.__name__, ins, r.unsat))
            # values computed under a guard are only meaningful where all enclosing guards are on
            (c, a, b) = ins
            py = decorated_py(op, *ins)
            on = [bool(op(c, a)), bool(op(c, a)) and not op(a, b), bool(op(c, a)) and not op(a, b), True]
            for (k, (got, want, live)) in enumerate(zip(r.results, py, on)):
                if live and got != want: fail("%s on %s: result %d = %d, Python says %d" % (prog.__name__, ins, k, got, want))
    same_system(prog.__name__, runs)

# valid / invalid pairs: a failing assertion on a comparison result, error checks disabled
for (opname, op) in OPS:
    def prog(a, b, op=op):
        a = PrivValBool(a); b = PrivValBool(b)
        t = op(a, b)
        t.assert_eq(1)                    # invalid for some of the inputs
        (t & op(b, a)).assert_zero()
        return [t, op(t, a)]
    prog.__name__ = "asserted " + opname
    runs = []
    for (a, b) in itertools.product(BITS, BITS):
        valid = bool(op(a, b)) and not op(b, a)
        strict = record(prog, (a, b))
        if (strict.error is None) != valid:
            fail("%s on (%d,%d): error check disagrees with Python" % (prog.__name__, a, b))
        if strict.error is None:
            if strict.unsat: fail("%s on (%d,%d): valid run with violated constraints" % (prog.__name__, a, b))
            runs.append((("strict", a, b), strict))
        r = record(prog, (a, b), ignore=True)
        runs.append((("ignore", a, b), r))
        if r.error is not None: fail("%s on (%d,%d) ignoring errors did not complete: %r" % (prog.__name__, a, b, r.error)); continue
        if bool(r.unsat) == valid:
            fail("%s on (%d,%d) ignoring errors: witness %s the constraints, Python says the assertions %s"
                 % (prog.__name__, a, b, "violates" if r.unsat else "satisfies", "hold" if valid else "fail"))
    same_system(prog.__name__, runs)

print("compared %d pairs of runs" % nsystems)
print("ordering comparisons of Booleans whose system depends on runtime.bitlength: %d%s"
      % (len(bitlength_dependent), " (expected 0 with this change)" if bitlength_dependent else ""))
if failures:
    print("%d check(s) failed" % len(failures))
    sys.exit(1)
print("property C06 held in all cases; all constraints hold on the witnesses; results agree with Python")
sys.exit(0)
