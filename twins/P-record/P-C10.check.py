# Evidence program for change P (snarkjs backend: cancelled terms are dropped from linear combinations,
# constraint section encoded up front).  Run from an empty directory:
#     PYTHONPATH=<tree> /venv/bin/python P.check.py
# It checks property C10 itself (not equality with the previous behaviour):
#   * circuit.r1cs / witness.wtns are well-formed (strict decoder below),
#   * they decode to exactly the traced constraint system / assignment under the numbering
#     one, public values in creation order, private values in creation order,
#   * every field element is canonical,
#   * the decoded witness satisfies the decoded constraints (whenever the traced program is honest),
# and, because P changes the arithmetic on linear combinations, that this arithmetic is still the arithmetic of
# linear forms over the field (against an independent dense reference, and through the runtime: the value of every
# LinComb equals its linear combination evaluated on the decoded witness), and that small systems with cancelling
# terms accept exactly the assignments they should (brute force).
import os, sys, random, struct, tempfile, shutil, itertools, io, contextlib

os.environ["PYSNARK_BACKEND"] = "snarkjs"
_start = os.getcwd()
_work = tempfile.mkdtemp(prefix="c10check")
os.chdir(_work)

import pysnark.runtime as rt
rt.autoprove = False
import pysnark.snarkjsbackend as be
from pysnark.runtime import PubVal, PrivVal, ConstVal, LinComb
from pysnark.boolean import LinCombBool, PrivValBool, PubValBool
from pysnark.branching import if_then_else

assert rt.backend is be, "snarkjs backend not selected"
P = 21888242871839275222246405745257275088548364400416034343698204186575808495617
assert be.get_modulus() == P

failures = []
stats = dict(lcops=0, systems=0, programs=0, constraints=0, terms=0, zero_terms_written=0, empty_lcs=0,
             brute=0, brute_assignments=0)


def fail(msg):
    failures.append(msg)
    print("FAIL:", msg)
    if len(failures) > 20:
        finish()


def finish():
    os.chdir(_start)
    shutil.rmtree(_work, ignore_errors=True)
    print(stats)
    if failures:
        print("%d FAILURES" % len(failures))
        sys.exit(1)
    print("OK: property C10 held in all cases")
    sys.exit(0)


# ---------------------------------------------------------------------------------------------------------------
# strict decoders
# ---------------------------------------------------------------------------------------------------------------
class Malformed(Exception):
    pass


def need(cond, msg):
    if not cond: raise Malformed(msg)


def sections(data, magic, version, nsections):
    need(len(data) >= 12, "short file")
    need(data[:4] == magic, "bad magic")
    need(struct.unpack("<I", data[4:8])[0] == version, "bad version")
    need(struct.unpack("<I", data[8:12])[0] == nsections, "bad number of sections")
    pos = 12
    secs = []
    for _ in range(nsections):
        need(pos + 12 <= len(data), "section table runs past the end of the file")
        typ, size = struct.unpack("<IQ", data[pos:pos + 12])
        pos += 12
        need(pos + size <= len(data), "section %d longer than the file" % typ)
        secs.append((typ, data[pos:pos + size]))
        pos += size
    need(pos == len(data), "trailing bytes after the last section")
    need(sorted(t for t, _ in secs) == list(range(1, nsections + 1)), "section types")
    need([t for t, _ in secs][0] == 1, "header section must come first")
    return dict(secs)


def le(b):
    return int.from_bytes(b, "little")


def decode_r1cs(data):
    s = sections(data, b"r1cs", 1, 3)
    h = s[1]
    need(len(h) == 64, "header size")
    need(le(h[0:4]) == 32, "field size")
    need(le(h[4:36]) == P, "prime")
    nwires, npubout, npubin, nprvin = struct.unpack("<IIII", h[36:52])
    nlabels = le(h[52:60])
    ncons = le(h[60:64])
    body = s[2]
    pos = 0
    cons = []
    for _ in range(ncons):
        c = []
        for _ in range(3):
            need(pos + 4 <= len(body), "constraint section too short")
            n = le(body[pos:pos + 4]); pos += 4
            need(pos + 36 * n <= len(body), "constraint section too short")
            terms = []
            for _ in range(n):
                w = le(body[pos:pos + 4]); v = le(body[pos + 4:pos + 36]); pos += 36
                need(w < nwires, "wire number out of range")
                need(v < P, "non-canonical coefficient")
                terms.append((w, v))
            need(len(set(w for w, _ in terms)) == len(terms), "wire repeated within a linear combination")
            c.append(terms)
        cons.append(c)
    need(pos == len(body), "declared size of the constraint section differs from its content")
    need(len(s[3]) == 8 * nwires, "wire to label section size")
    return dict(nwires=nwires, npubout=npubout, npubin=npubin, nprvin=nprvin, nlabels=nlabels, constraints=cons)


def decode_wtns(data):
    s = sections(data, b"wtns", 2, 2)
    h = s[1]
    need(len(h) == 40, "header size")
    need(le(h[0:4]) == 32, "field size")
    need(le(h[4:36]) == P, "prime")
    n = le(h[36:40])
    need(len(s[2]) == 32 * n, "declared number of witness values differs from content")
    w = [le(s[2][32 * i:32 * i + 32]) for i in range(n)]
    need(all(x < P for x in w), "non-canonical witness value")
    return w


# ---------------------------------------------------------------------------------------------------------------
# the traced system, as the backend holds it, and the complete check of the written files against it
# ---------------------------------------------------------------------------------------------------------------
def reset():
    be.pubvals.clear(); be.privvals.clear(); be.constraints.clear()
    rt.guard = None
    rt.ignore_errors(False)
    LinComb.ONE = LinComb.ONE_SAFE
    for f in ("circuit.r1cs", "witness.wtns"):
        if os.path.exists(f): os.remove(f)


def wire(k):
    return k if k >= 0 else len(be.pubvals) - k


def evalraw(lc, assignment):
    # over the integers, on the unreduced recorded values; reduced at the end only
    return sum(v * assignment[wire(k)] for k, v in lc.lc.items()) % P


def check_files(tag, honest):
    """ prove(), decode both files strictly and compare with the backend's trace.  honest: all constraints are
        expected to hold; otherwise only agreement between decoded and in-memory satisfaction is required. """
    snapshot = [[dict(l.lc) for l in c] for c in be.constraints]
    with contextlib.redirect_stderr(io.StringIO()):
        be.prove()
    if snapshot != [[dict(l.lc) for l in c] for c in be.constraints]:
        fail(tag + ": prove() changed the traced constraints")
    try:
        r = decode_r1cs(open("circuit.r1cs", "rb").read())
        w = decode_wtns(open("witness.wtns", "rb").read())
    except Malformed as e:
        fail(tag + ": malformed file: " + str(e)); return
    npub, npriv = len(be.pubvals), len(be.privvals)
    if r["nwires"] != 1 + npub + npriv: fail(tag + ": nWires")
    if r["npubout"] + r["npubin"] != npub: fail(tag + ": number of public wires")
    if r["nprvin"] not in (0, npriv): fail(tag + ": nPrvIn")
    # witness: one, public values in creation order, private values in creation order
    raw = [1] + list(be.pubvals) + list(be.privvals)
    if w != [x % P for x in raw]: fail(tag + ": witness differs from the recorded assignment")
    if w[0] != 1: fail(tag + ": wire 0 is not one")
    # constraints: exactly the traced ones, term by term
    expected = [[[(wire(k), v % P) for k, v in l.lc.items()] for l in c] for c in be.constraints]
    if r["constraints"] != expected:
        fail(tag + ": decoded constraints differ from the traced constraints")
        return
    for (c, tc) in zip(r["constraints"], be.constraints):
        a, b, cc = [sum(v * w[k] for k, v in l) % P for l in c]
        sat = (a * b - cc) % P == 0
        satraw = (evalraw(tc[0], raw) * evalraw(tc[1], raw) - evalraw(tc[2], raw)) % P == 0
        if sat != satraw: fail(tag + ": decoded and traced constraint disagree on the witness")
        if honest and not sat: fail(tag + ": decoded witness violates a decoded constraint")
        stats["constraints"] += 1
        for l in c:
            stats["terms"] += len(l)
            stats["zero_terms_written"] += sum(1 for _, v in l if v == 0)
            stats["empty_lcs"] += (len(l) == 0)
    stats["systems"] += 1
    return r, w


# ---------------------------------------------------------------------------------------------------------------
# A. arithmetic of linear combinations against an independent dense reference
# ---------------------------------------------------------------------------------------------------------------
rnd = random.Random(1010)
INTERESTING = [0, 1, -1, 2, -2, 3, P, -P, P - 1, 1 - P, P + 1, 2 * P, 2 * P + 3, (P + 1) // 2, 1 << 255, 1 << 256,
               (1 << 300) + 7, -(1 << 300), be.fieldinverse(3), 3 * be.fieldinverse(3), -be.fieldinverse(2)]


def rcoef():
    return rnd.choice(INTERESTING) if rnd.random() < 0.6 else rnd.randint(-5, 5)


def part_A():
    reset()
    for _ in range(3): be.pubval(0)
    for _ in range(3): be.privval(0)
    keys = [0, 1, 2, 3, -1, -2, -3]
    atoms = [be.zero(), be.one()] + [be.LinearCombination({k: 1}) for k in keys]
    for trial in range(3000):
        pool = [(a, {k: a.lc.get(k, 0) for k in keys}) for a in atoms]
        for step in range(rnd.randint(1, 12)):
            op = rnd.choice("++--**n")
            (x, rx) = rnd.choice(pool)
            (y, ry) = rnd.choice(pool)
            bx, by = dict(x.lc), dict(y.lc)
            if op == "+":
                z, rz = x + y, {k: rx[k] + ry[k] for k in keys}
            elif op == "-":
                # make exact and modular cancellations frequent
                if rnd.random() < 0.3: y, ry, by = x, rx, bx
                z, rz = x - y, {k: rx[k] - ry[k] for k in keys}
            elif op == "*":
                c = rcoef()
                z, rz = x * c, {k: rx[k] * c for k in keys}
            else:
                z, rz = -x, {k: -rx[k] for k in keys}
            stats["lcops"] += 1
            if not isinstance(z, be.LinearCombination): fail("A: result type")
            if dict(x.lc) != bx or dict(y.lc) != by: fail("A: operand mutated by " + op)
            if z.lc is x.lc and z is not x: fail("A: result shares its dict with an operand")
            if not set(z.lc) <= set(keys): fail("A: foreign wire in result")
            if any((z.lc.get(k, 0) - rz[k]) % P for k in keys):
                fail("A: %s gives a different linear form than the reference" % op)
            pool.append((z, rz))
        # the results are usable as constraints: encode and decode them
        if trial % 10 == 0:
            be.constraints.clear()
            for i in range(0, len(pool) - 2, 3):
                be.add_constraint(pool[i][0], pool[i + 1][0], pool[i + 2][0])
            be.pubvals[:] = [rnd.choice(INTERESTING) for _ in range(3)]
            be.privvals[:] = [rnd.choice(INTERESTING) for _ in range(3)]
            res = check_files("A%d" % trial, honest=False)
            if res:
                # the decoded forms are the reference forms
                r, _ = res
                for ci, i in enumerate(range(0, len(pool) - 2, 3)):
                    for j in range(3):
                        dec = dict(r["constraints"][ci][j])
                        ref = pool[i + j][1]
                        if any((dec.get(wire(k), 0) - ref[k]) % P for k in keys):
                            fail("A: decoded linear form differs from the reference")


# ---------------------------------------------------------------------------------------------------------------
# B. hand-made systems straight on the backend: zero coefficients, empty combinations, huge / negative values
# ---------------------------------------------------------------------------------------------------------------
def part_B():
    L = be.LinearCombination
    # empty system, no wires but one
    reset(); check_files("B-empty", True)
    # only public / only private
    reset(); x = be.pubval(5); be.add_constraint(x, x, x * 5); check_files("B-pubonly", True)
    reset(); x = be.privval(-5); be.add_constraint(x, x, x * -5); check_files("B-privonly", True)
    # interleaved creation, values negative, >= p, wider than 256 bits
    reset()
    a = be.privval(-3); b = be.pubval(P + 4); c = be.privval((1 << 300) + 1); d = be.pubval(-(1 << 270)); e = be.privval(0)
    va, vb, vc, vd = -3, P + 4, (1 << 300) + 1, -(1 << 270)
    prod = be.privval(va * vb)
    be.add_constraint(a, b, prod)
    be.add_constraint(a + c - a, d * 2, be.privval(vc * vd * 2))          # a cancels
    be.add_constraint(a * P + b, c, be.privval(vb * vc))                  # a vanishes modulo the prime only
    be.add_constraint(a * (P - 1) + a, b, e)                              # 0 * b = 0
    be.add_constraint(be.zero(), be.zero(), a - a)                        # all empty
    be.add_constraint(be.one() * 0, be.one() * P, (b - b) * 7)
    be.add_constraint(be.one(), a + b, a + b)
    be.add_constraint(be.one() * -1, a, a * -1 + e * 5)
    # directly constructed combinations with explicit zero / unreduced coefficients are written as given
    be.add_constraint(L({0: 0}), L({-1: 0, 1: P, 2: -P}), L({}))
    be.add_constraint(L({-3: 0, 0: 1}), L({-1: 1, -5: 0}), L({-1: 1 + P, 2: 0}))
    check_files("B-mixed", True)
    # dishonest witness: decoded satisfaction has to agree with the trace (violated here)
    reset()
    a = be.privval(2); b = be.privval(3); be.add_constraint(a, b, be.privval(7))
    res = check_files("B-dishonest", False)
    # many random raw systems
    for t in range(300):
        reset()
        n = rnd.randint(0, 6)
        wires, vals = [be.one()], [1]
        for i in range(n):
            v = rnd.choice(INTERESTING + [rnd.randint(-9, 9)])
            wires.append(be.pubval(v) if rnd.random() < 0.5 else be.privval(v)); vals.append(v)

        def rlc():
            acc, val = be.zero(), 0
            for _ in range(rnd.randint(0, 5)):
                i = rnd.randrange(len(wires)); c = rcoef()
                if rnd.random() < 0.5: acc, val = acc + wires[i] * c, val + vals[i] * c
                else: acc, val = acc - wires[i] * c, val - vals[i] * c
            return acc, val
        for _ in range(rnd.randint(0, 6)):
            (A, va), (B, vb) = rlc(), rlc()
            (C, vc) = rlc()
            o = be.privval(va * vb - vc)       # makes the constraint hold
            be.add_constraint(A, B, C + o)
        check_files("B-rand%d" % t, True)


# ---------------------------------------------------------------------------------------------------------------
# C. programs traced through the runtime
# ---------------------------------------------------------------------------------------------------------------
def check_values(tag, lincombs, w):
    """ the value of every LinComb is its linear combination evaluated on the decoded witness """
    for x in lincombs:
        lc = x.lc if isinstance(x, LinComb) else x.lc.lc
        val = x.value if isinstance(x, LinComb) else x.lc.value
        got = sum(v * w[wire(k)] for k, v in lc.lc.items()) % P
        if got != val % P:
            fail(tag + ": value %d of a LinComb differs from its linear combination on the witness" % val)


def run_program(tag, body, honest=True):
    reset()
    outs = body()
    res = check_files(tag, honest)
    if res: check_values(tag, outs, res[1])
    stats["programs"] += 1


def prog_cancel():
    x = PrivVal(7); y = PubVal(-4); z = PrivVal(P + 2)
    a = x - x
    b = (x + y) - x
    c = x * 0 + y * P + z
    d = ConstVal(0) + x * 3 - x - x * 2
    e = a * b            # constraint with empty A
    f = b * c
    g = d * d            # empty * empty
    (x - x).assert_zero()
    (x * 5 - x * 2 - x * 3).assert_zero()
    h = (x + 1 - x) * z  # constant one * z
    k = LinComb.ZERO + 0
    o = f.val(); g.val(); k.val()
    return [x, y, z, a, b, c, d, e, f, g, h, k]


def prog_big():
    x = PrivVal(-(1 << 280) - 5); y = PubVal(P * 3 + 1); z = PrivVal(1 << 256); u = PubVal(-1)
    a = x * y
    b = a * z + u * (1 << 300) - a * z
    c = (b + u) * (b - u)
    d = x * P * z          # coefficient zero modulo the prime: empty times z
    e = (y - 1) * 1        # value 3p = 0 in the field, linear combination not empty
    f = e * x
    c.val()
    return [x, y, z, u, a, b, c, d, e, f]


def prog_compare():
    x = PrivVal(12); y = PrivVal(-7); z = PubVal(12)
    r = [x < y, x <= z, x == z, x != y, x > y, x >= y, (x - x) == 0, (x - z) != 0]
    s = (x & 5) + (y ^ 3) + (x | 8) + (x >> 1) + (x << 2) + (x // 5) + (x % 5)
    t = (x - z).check_zero()
    (x - y).assert_nonzero()
    x.assert_range(0, 100)
    bits = x.to_bits()
    q = LinComb.from_bits(bits) - x
    return r + [s, t, q] + bits


def prog_branch():
    x = PrivVal(5); y = PrivVal(0); z = PubVal(9)
    c = (x == 5); n = (x == 6)
    a = if_then_else(c, lambda: x * z, lambda: (x - 5) * z + y)          # second branch under a false guard
    b = if_then_else(n, lambda: (y.assert_nonzero(), x * x)[1], lambda: x - x)
    d = if_then_else(c, lambda: if_then_else(n, lambda: (x - 5) * (1 // 1) * z, lambda: z * z), 0)
    e = if_then_else(c & ~n, x, y) + if_then_else(c | n, 1, 2)
    def under_false():
        (x - 4).assert_zero()           # fails, absorbed by the guard
        (x - x).assert_nonzero()
        return (x - x) * (z - z)
    f = if_then_else(n, under_false, lambda: z * 0)
    a.val(); d.val()
    return [x, y, z, c, n, a, b, d, e, f]


def prog_ignore_errors():
    x = PrivVal(3); y = PrivVal(4)
    rt.ignore_errors(True)
    (x - y).assert_zero()               # violated on purpose
    (x - x).assert_nonzero()
    z = x * y
    rt.ignore_errors(False)
    return [x, y, z]


def prog_noconstraints():
    x = PubVal(1 << 260); y = PrivVal(-1)
    return [x, y, x + y, x - x, y * 0]


def random_program(seed):
    r = random.Random(seed)

    def body():
        small, anyv = [], []

        def new(v, small_ok):
            lc = PubVal(v) if r.random() < 0.4 else PrivVal(v)
            anyv.append(lc)
            if small_ok: small.append(lc)
            return lc
        for _ in range(r.randint(1, 4)): new(r.randint(-20, 20), True)
        for _ in range(r.randint(0, 2)): new(r.choice(INTERESTING), False)
        outs = list(anyv)
        for _ in range(r.randint(3, 14)):
            k = r.random()
            if k < 0.25:
                a, b = r.choice(anyv), r.choice(anyv)
                z = r.choice([a + b, a - b, a - a, b + a - b, a * r.choice([0, 1, -1, P, 2, -3]) + b])
                anyv.append(z)
                if all(any(t is s for s in small) for t in (a, b)) and abs(z.value) < 1000: small.append(z)
            elif k < 0.45:
                a, b = r.choice(anyv), r.choice(anyv)
                z = a * b
                anyv.append(z)
                if abs(z.value) < 1000 and all(any(t is s for s in small) for t in (a, b)): small.append(z)
            elif k < 0.6:
                a, b = r.choice(small), r.choice(small)
                z = r.choice([lambda: a < b, lambda: a == b, lambda: a >= b, lambda: a != a, lambda: (a - a) == 0])()
                outs.append(z)
                anyv.append(z.lc); small.append(z.lc)
            elif k < 0.8:
                a, b, c = r.choice(small), r.choice(small), r.choice(small)
                cond = (a <= b) if r.random() < 0.5 else (a == b)
                z = if_then_else(cond, lambda: a * c - a * c + b, lambda: (c - c) * a + c * b)
                anyv.append(z)
                if abs(z.value) < 1000: small.append(z)
            elif k < 0.9:
                a = r.choice(small)
                z = a.check_zero(); outs.append(z)
            else:
                r.choice(anyv).val()
        return outs + anyv
    return body


def part_C():
    run_program("C-cancel", prog_cancel)
    run_program("C-big", prog_big)
    run_program("C-compare", prog_compare)
    run_program("C-branch", prog_branch)
    run_program("C-ignore", prog_ignore_errors, honest=False)
    run_program("C-nocons", prog_noconstraints)
    for s in range(250):
        run_program("C-rand%d" % s, random_program(s))


# ---------------------------------------------------------------------------------------------------------------
# D. brute force: small systems with cancelling terms accept exactly the right assignments
# ---------------------------------------------------------------------------------------------------------------
def brute(tag, body, relation, extra=()):
    """ body() traces a program and returns nothing; relation(w) says whether the assignment w (list indexed by
        wire) should be accepted.  All assignments over a small set of field elements are tried on the DECODED
        constraints. """
    reset()
    body()
    res = check_files(tag, True)
    if not res: return
    r, w = res
    domain = sorted(set([0, 1, 2, P - 1, 5]) | set(extra))
    n = r["nwires"] - 1
    for assignment in itertools.product(domain, repeat=n):
        full = [1] + list(assignment)
        ok = all((sum(v * full[k] for k, v in c[0]) * sum(v * full[k] for k, v in c[1]) - sum(v * full[k] for k, v in c[2])) % P == 0
                 for c in r["constraints"])
        if ok != bool(relation(full)):
            fail(tag + ": decoded system %s assignment %s" % ("accepts" if ok else "rejects", full))
            break
        stats["brute_assignments"] += 1
    if not relation(w): fail(tag + ": relation does not hold on the real witness")
    stats["brute"] += 1


def part_D():
    # wires: 1=pub o, then priv a,b,c,(product)
    def p1():
        o = PubVal(2 * (3 + P)); a = PrivVal(1); b = PrivVal(2); c = PrivVal(3)   # 6 in the field; the runtime checks over the integers
        m = (a + b - a) * (c + a * P)      # must be exactly b*c
        (m - o).assert_zero()
    brute("D-p1", p1, lambda w: (w[3] * w[4] - w[5]) % P == 0 and (w[5] - w[1]) % P == 0)

    def p2():
        a = PrivVal(5); b = PrivVal(2)
        d = a * 0 + b                      # b
        e = d * d                          # b*b
        ((a - a) * e).assert_zero()        # empty * e = new wire, which must be zero
    brute("D-p2", p2, lambda w: (w[2] * w[2] - w[3]) % P == 0 and w[4] % P == 0)

    def p3():
        o = PubVal(1); a = PrivVal(2)
        z = (a - 2).check_zero()           # wires: ret, wit
        (z.lc - o).assert_zero()
    brute("D-p3", p3, lambda w: ((w[2] - 2) * w[4] - (1 - w[3])) % P == 0 and ((w[2] - 2) * w[3]) % P == 0 and (w[3] - w[1]) % P == 0,
          extra=[be.fieldinverse(3), be.fieldinverse(P - 3) % P])

    def p4():
        a = PrivVal(2); b = PrivVal(5)
        c = (a * 3 - a - a * 2 + b) * (b + a * (P - 1) + a)   # b*b
        (c - b * 5 - 10 * P).assert_zero()                     # c == 5b in the field
    brute("D-p4", p4, lambda w: (w[2] * w[2] - w[3]) % P == 0 and (w[3] - 5 * w[2]) % P == 0, extra=[25])


# ---------------------------------------------------------------------------------------------------------------
# E. invalid wire numbers are not silently written (informational unless an exception is raised)
# ---------------------------------------------------------------------------------------------------------------
def part_E():
    reset()
    x = be.privval(1)
    be.add_constraint(be.LinearCombination({1 << 32: 1}), x, x)
    try:
        with contextlib.redirect_stderr(io.StringIO()):
            be.prove()
    except OverflowError:
        if os.path.exists("circuit.r1cs") or os.path.exists("witness.wtns"):
            fail("E: files left behind although prove() refused the system")
        print("note: wire number that does not fit in 32 bits is refused with OverflowError, nothing written")
    else:
        print("note: wire number that does not fit in 32 bits was written truncated (not a traced program; not counted)")
    reset()


try:
    part_A()
    part_B()
    part_C()
    part_D()
    part_E()
except SystemExit:
    raise
except BaseException as e:
    import traceback
    traceback.print_exc()
    fail("exception: %r" % (e,))
finish()
