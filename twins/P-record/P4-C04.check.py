# Evidence program for P (division where the guard is false / errors are ignored).
#
# Run as   PYTHONPATH=<tree> /venv/bin/python P.check.py   from an empty directory.
#
# Property C04: for every secret-typed object the library produces, the value it
# reports is congruent mod p to its linear combination evaluated on the recorded
# witness.  The program
#   * records EVERY LinComb object that is constructed (final and intermediate),
#     by wrapping LinComb.__init__, and at the end of each scenario evaluates the
#     object's linear combination on the witness recorded by the snarkjs backend and
#     compares it with the value the object reports at that moment (so in-place
#     reductions of .value are covered as well);
#   * does the same for the objects the operations return (LinComb, LinCombBool,
#     LinCombFxp), and compares them with plain Python semantics where the guard
#     holds;
#   * evaluates every emitted constraint on the recorded witness whenever error
#     checking was not switched off by the program itself (so also for the
#     constraints emitted inside branches that are not taken).
# Exit status 0 iff no violation was found.
import os, sys, itertools
os.environ["PYSNARK_BACKEND"] = "snarkjs"

import pysnark.runtime as rt
from pysnark.runtime import LinComb, PrivVal, PubVal, ConstVal, guarded, ignore_errors
from pysnark.boolean import LinCombBool, PrivValBool
from pysnark.fixedpoint import LinCombFxp, PrivValFxp, PubValFxp
from pysnark.branching import if_then_else
import pysnark.snarkjsbackend as be

rt.autoprove = False
P = be.get_modulus()

# ---------------------------------------------------------------- instrumentation
created = []
_orig_init = LinComb.__init__
def _init(self, value, lc):
    _orig_init(self, value, lc)
    created.append(self)
LinComb.__init__ = _init

def wire(ix):
    if ix == 0: return 1
    return be.pubvals[ix - 1] if ix > 0 else be.privvals[-ix - 1]

def ev(lc):
    return sum(c * wire(ix) for (ix, c) in lc.lc.items()) % P

failures = []
stats = {"scenarios": 0, "objects": 0, "constraints": 0, "raised": 0, "returned": 0}

def fail(msg):
    failures.append(msg)
    if len(failures) <= 25: print("VIOLATION:", msg)

def unwrap(obj):
    """ all LinCombs inside a returned structure """
    if isinstance(obj, LinComb): return [obj]
    if isinstance(obj, (LinCombBool, LinCombFxp)): return [obj.lc]
    if isinstance(obj, (list, tuple)): return [l for o in obj for l in unwrap(o)]
    return []

def check_obj(o, what):
    if not isinstance(o.value, int):
        fail("%s: reported value %r is not an integer" % (what, o.value)); return
    if (o.value - ev(o.lc)) % P != 0:
        fail("%s: reports %d but its wires evaluate to %d" % (what, o.value, ev(o.lc)))

def scenario(name, fn, errors_off=False, expect=None):
    """ run fn; afterwards check all objects and (if errors were on) all constraints """
    stats["scenarios"] += 1
    del created[:]
    c0 = len(be.constraints)
    assert rt.guard is None and not ignore_errors(), "scenario leaked state: " + name
    ret = None; raised = None
    try:
        if errors_off: ignore_errors(True)
        try:
            ret = fn()
        finally:
            if errors_off: ignore_errors(False)
    except (ValueError, AssertionError, ZeroDivisionError) as e:
        raised = e
        stats["raised"] += 1
        # state must have been restored by the library's own try/except
        if rt.guard is not None or ignore_errors() or LinComb.ONE is not LinComb.ONE_SAFE:
            fail(name + ": guard state not restored after " + repr(e))
            rt.guard = None; ignore_errors(False); LinComb.ONE = LinComb.ONE_SAFE
    for o in created:
        stats["objects"] += 1
        check_obj(o, name + " (some object created during the run)")
    for o in unwrap(ret):
        stats["returned"] += 1
        check_obj(o, name + " (returned object)")
    if not errors_off and raised is None:
        for (v, w, y) in be.constraints[c0:]:
            stats["constraints"] += 1
            if (ev(v) * ev(w) - ev(y)) % P != 0:
                fail(name + ": an emitted constraint does not hold on the recorded witness")
                break
    if expect is not None and raised is None:
        expect(ret)
    return ret, raised

# does this tree have P?  (zero secret divisor in a branch that is not taken)
def _probe():
    try:
        guarded(PrivVal(0))(lambda: PrivVal(3) / PrivVal(0))()
        return True
    except ValueError:
        rt.guard = None; ignore_errors(False); LinComb.ONE = LinComb.ONE_SAFE
        return False
HAVE_P = _probe()
print("tree has P:", HAVE_P)

def expect_value(v, what):
    def chk(ret):
        got = [l.value for l in unwrap(ret)]
        want = list(v) if isinstance(v, tuple) else [v]
        if [(g - w) % P for (g, w) in zip(got, want)] != [0] * len(want) or len(got) != len(want):
            fail("%s: reported %r, plain Python gives %r" % (what, got, want))
    return chk

XS = [-40, -13, -12, -7, -6, -1, 0, 1, 2, 5, 6, 7, 12, 36, 255, 1000, 65535, 65536, 2**40 + 12, P - 6, P + 12, 3 * P]
DS = [-12, -6, -3, -2, -1, 1, 2, 3, 4, 6, 7, 12, 256, P - 3, P + 2, 2 * P + 3]

# ---------------------------------------------------------------- 1. x / public int
for x, d in itertools.product(XS, DS):
    nm = "PrivVal(%d) / %d" % (x, d)
    exp = expect_value(x // d, nm) if x % d == 0 else None
    ret, raised = scenario(nm, lambda: PrivVal(x) / d, expect=exp)
    if x % d == 0 and raised is not None: fail(nm + " raised " + repr(raised))
    if x % d != 0 and raised is None: fail(nm + " did not raise although not divisible")
    scenario(nm + " [errors off]", lambda: PrivVal(x) / d, errors_off=True, expect=exp)
    for g in (0, 1):
        gnm = nm + " [guard %d]" % g
        ret, raised = scenario(gnm, lambda: guarded(PrivVal(g))(lambda: PrivVal(x) / d)(),
                               expect=exp if (g == 1 or HAVE_P) else None)
        if HAVE_P and g == 0 and raised is not None: fail(gnm + " raised " + repr(raised))
    # linear combinations rather than single wires, public values, constants
    scenario(nm + " [lincomb]", lambda: (3 * PrivVal(x) - 2 * PubVal(x) + 5 - 5) / d, errors_off=True,
             expect=exp)
# public zero divisor is always an error
for g in (None, 0, 1):
    def f():
        if g is None: return PrivVal(6) / 0
        return guarded(PrivVal(g))(lambda: PrivVal(6) / 0)()
    ret, raised = scenario("PrivVal(6) / 0 [guard %r]" % g, f)
    if raised is None: fail("division by the public constant 0 did not raise (guard %r)" % g)
    ret, raised = scenario("PrivVal(6) // 0 [guard %r]" % g,
                           (lambda: PrivVal(6) // 0) if g is None else (lambda: guarded(PrivVal(g))(lambda: PrivVal(6) // 0)()))
    if raised is None: fail("floor division by the public constant 0 did not raise (guard %r)" % g)

# ---------------------------------------------------------------- 2. x / secret, c / secret
XS2 = [-36, -12, -7, -1, 0, 1, 5, 6, 12, 36, 1000, 2**40 + 12, P + 12]
DS2 = [-6, -3, -1, 0, 1, 2, 3, 5, 6, 12, P + 2]
for x, d in itertools.product(XS2, DS2):
    for kind in ("secret/secret", "const/secret", "public/secret"):
        def mk():
            dd = PrivVal(d)
            if kind == "secret/secret": return PrivVal(x) / dd
            if kind == "const/secret": return x / dd
            return PubVal(x) / dd
        nm = "%d / %d (%s)" % (x, d, kind)
        ok = d != 0 and x % d == 0
        exp = expect_value(x // d, nm) if ok else None
        ret, raised = scenario(nm, mk, expect=exp)
        if ok and raised is not None: fail(nm + " raised " + repr(raised))
        if not ok and raised is None: fail(nm + " did not raise")
        ret, raised = scenario(nm + " [errors off]", mk, errors_off=True, expect=exp)
        if HAVE_P and raised is not None: fail(nm + " [errors off] raised " + repr(raised))
        for g in (0, 1):
            gnm = nm + " [guard %d]" % g
            ret, raised = scenario(gnm, lambda: guarded(PrivVal(g))(mk)(), expect=exp if (g == 1 or HAVE_P) else None)
            if g == 1 and (raised is None) != ok: fail(gnm + ": wrong error behaviour where the guard holds")
            if g == 0 and HAVE_P and raised is not None: fail(gnm + " raised " + repr(raised))

# ---------------------------------------------------------------- 3. divmod / // / %
XS3 = [-300, -13, -1, 0, 1, 5, 12, 13, 255, 1000, 65535, 65536, 70000, P - 1]
DS3 = [-5, -1, 0, 1, 2, 5, 7, 256, 65535, 65536, 70000]
def in16(v): return 0 <= v < 65536
for x, d in itertools.product(XS3, DS3):
    for kind in ("secret", "int", "rsecret"):
        if kind == "int" and d == 0: continue
        def mk():
            if kind == "secret": return divmod(PrivVal(x), PrivVal(d))
            if kind == "int": return divmod(PrivVal(x), d)
            return divmod(x, PrivVal(d))
        nm = "divmod(%d, %d) (%s)" % (x, d, kind)
        # the gadget supports a positive divisor with d, remainder and d-r-1 of bitlength bits
        ok = d > 0 and in16(d)
        exp = expect_value(divmod(x, d), nm) if d != 0 else None
        ret, raised = scenario(nm, mk, expect=exp)
        if ok and raised is not None: fail(nm + " raised " + repr(raised))
        if d <= 0 and raised is None: fail(nm + " did not raise")
        ret, raised = scenario(nm + " [errors off]", mk, errors_off=True, expect=exp)
        if HAVE_P and raised is not None: fail(nm + " [errors off] raised " + repr(raised))
        for g in (0, 1):
            gnm = nm + " [guard %d]" % g
            ret, raised = scenario(gnm, lambda: guarded(PrivVal(g))(mk)(), expect=exp)
            if g == 0 and HAVE_P and raised is not None: fail(gnm + " raised " + repr(raised))
            if g == 0 and HAVE_P and d == 0 and raised is None:
                if [l.value for l in unwrap(ret)] != [0, x]: fail(gnm + ": expected quotient 0 and remainder " + str(x))
        scenario(nm + " [// and %]", lambda: [PrivVal(x) // PrivVal(d), PrivVal(x) % PrivVal(d)] if kind == "secret" else
                 ([PrivVal(x) // d, PrivVal(x) % d] if kind == "int" else [x // PrivVal(d), x % PrivVal(d)]),
                 errors_off=(d <= 0 or not in16(d)))

# ---------------------------------------------------------------- 4. lazy branches, nesting, contexts
for x, d, c in itertools.product([-12, 0, 7, 12, 1000], [-3, 0, 1, 5, 6], [0, 1]):
    def lazy():
        xx = PrivVal(x); dd = PrivVal(d)
        nz = dd != 0
        a = if_then_else(nz, lambda: xx // dd if d > 0 else xx * 2, lambda: xx + 1)
        b = if_then_else(nz & PrivValBool(c), lambda: (xx * dd) / dd, lambda: xx / 1)
        e = if_then_else(PrivValBool(c), lambda: if_then_else(nz, lambda: (xx * dd) / dd, lambda: xx), 77)
        return [a, b, e]
    nm = "lazy branches x=%d d=%d c=%d" % (x, d, c)
    want = ((x // d if d > 0 else 2 * x) if d != 0 else x + 1, x, x if c else 77)
    ret, raised = scenario(nm, lazy, expect=expect_value(want, nm))
    # (without P a zero secret divisor raises even where the guard is false)
    if raised is not None and (HAVE_P or d != 0): fail(nm + " raised " + repr(raised))

    def nested():
        g1 = PrivVal(c); g2 = PrivVal(1 if d != 0 else 0)
        return guarded(g1)(lambda: guarded(g2)(lambda: [PrivVal(x) / PrivVal(d), divmod(PrivVal(x) * PrivVal(x), PrivVal(d)), PrivVal(x) / 3])())()
    ret, raised = scenario("nested guards x=%d d=%d c=%d" % (x, d, c), nested)


# ---------------------------------------------------------------- 5. fixed point (delegates to the above)
FX = [-3.5, -1.0, 0.0, 0.25, 1.0, 2.5, 10.0]
FD = [-2.0, 0.0, 0.5, 1.0, 3.0]
for x, d in itertools.product(FX, FD):
    for op in ("/", "//", "%"):
        for kind in ("fxp", "lincomb", "float", "int"):
            if kind in ("float", "int") and d == 0: continue
            if kind in ("lincomb", "int") and d != int(d): continue
            def mk():
                a = PrivValFxp(x)
                b = {"fxp": lambda: PrivValFxp(d), "lincomb": lambda: PrivVal(int(d)), "float": lambda: d, "int": lambda: int(d)}[kind]()
                return a / b if op == "/" else (a // b if op == "//" else a % b)
            nm = "Fxp %r %s %r (%s)" % (x, op, d, kind)
            scenario(nm, mk)
            ret, raised = scenario(nm + " [errors off]", mk, errors_off=True)
            if HAVE_P and raised is not None: fail(nm + " [errors off] raised " + repr(raised))
            ret, raised = scenario(nm + " [guard 0]", lambda: guarded(PrivVal(0))(mk)())
            if HAVE_P and raised is not None: fail(nm + " [guard 0] raised " + repr(raised))
            scenario(nm + " [guard 1]", lambda: guarded(PrivVal(1))(mk)())
    scenario("1/Fxp", lambda: [1 / PrivValFxp(d), 2.5 // PrivValFxp(d), 7 % PrivValFxp(d)], errors_off=True)

print("scenarios: %(scenarios)d (of which %(raised)d ended in an error the library raised), objects checked: %(objects)d, "
      "returned objects checked: %(returned)d, constraints evaluated: %(constraints)d" % stats)
if failures:
    print("FAILED: %d violations" % len(failures))
    sys.exit(1)
print("OK: every reported value was congruent to its wire expression on the recorded witness")
