# P.check.py - soundness check of the secret array index gadget (pysnark/array.py)
#
# The constraints that the library hands to the backend are recorded (snarkjs
# backend keeps them in plain Python lists) and then, with the operands (index,
# secret array elements, stored value, branch condition) fixed to their values,
# ALL assignments to the remaining witness variables that satisfy ALL recorded
# constraints are enumerated:
#   * over small prime fields (p = 5, 7, 11) every auxiliary variable ranges
#     over the whole field (no assumption about what the gadget looks like);
#   * over the real BN254 scalar field variables are only branched on when a
#     recorded constraint is a quadratic in that single variable with roots
#     {0,1} (which is an exact domain restriction), everything else has to
#     follow by solving constraints that are linear in one unknown; if that is
#     not enough to enumerate, the check fails.
# For every satisfying assignment the results (selected element / every element
# of the updated array) must be equal to the honestly computed ones.  The honest
# witness must be among the solutions, and out-of-range indices (errors ignored)
# must have no satisfying assignment at all.
#
# exit 0: property observed everywhere;  exit 1: a counterexample was printed.

import itertools
import os
import sys

os.environ["PYSNARK_BACKEND"] = "snarkjs"

import pysnark.snarkjsbackend as be
import pysnark.runtime as rt
from pysnark.runtime import PrivVal, PubVal, ConstVal, LinComb
from pysnark.boolean import LinCombBool, PrivValBool
from pysnark.array import Array, ArrayRow
from pysnark.branching import if_then_else

rt.autoprove = False
assert rt.backend is be, "snarkjs backend not in effect"

BN254 = be.snarkjsp
P = BN254

def set_field(p):
    global P
    P = p
    be.snarkjsp = p
    be.fieldinverse = lambda val: pow(val % p, -1, p)
    be.get_modulus = lambda: p

def reset():
    be.privvals.clear()
    be.pubvals.clear()
    be.constraints.clear()
    rt.ignore_errors(False)

failures = 0
ncases = 0
nsolutions = 0

def fail(*args):
    global failures
    failures += 1
    print("FAIL:", *args)
    if failures > 20:
        print("too many failures")
        sys.exit(1)

# ----------------------------------------------------------------- solver

def lcdict(x):
    """ variable -> coefficient of a LinComb / LinCombBool / backend lc """
    if isinstance(x, LinCombBool): x = x.lc
    if isinstance(x, LinComb): x = x.lc
    return x.lc

def split(lc, asg):
    """ (constant part, {unknown var: coefficient}) of lc under the partial assignment """
    c = 0
    unk = {}
    for (k, v) in lc.items():
        v %= P
        if v == 0: continue
        if k == 0: c += v
        elif k in asg: c += v * asg[k]
        else: unk[k] = (unk.get(k, 0) + v) % P
    return (c % P, unk)

class Stuck(Exception): pass

def propagate(cons, asg):
    """ Solve constraints that are linear in a single unknown until nothing changes.
        Returns False on contradiction.  Also returns finite exact domains found for
        variables that occur as the single unknown of a quadratic constraint. """
    domains = {}
    changed = True
    while changed:
        changed = False
        for (A, B, C) in cons:
            (a0, au) = split(A, asg)
            (b0, bu) = split(B, asg)
            (c0, cu) = split(C, asg)
            us = set(au) | set(bu) | set(cu)
            if len(us) == 0:
                if (a0 * b0 - c0) % P != 0: return False
                continue
            if len(us) > 1:
                # (known zero factor) * (anything) = known: can still be decided
                continue
            u = next(iter(us))
            (ka, kb, kc) = (au.get(u, 0), bu.get(u, 0), cu.get(u, 0))
            k2 = (ka * kb) % P
            k1 = (ka * b0 + a0 * kb - kc) % P
            k0 = (a0 * b0 - c0) % P
            if k2 == 0:
                if k1 == 0:
                    if k0 != 0: return False
                    continue
                asg[u] = (-k0 * pow(k1, -1, P)) % P
                changed = True
            else:
                roots = [r for r in (0, 1) if (k2 * r * r + k1 * r + k0) % P == 0]
                if len(roots) == 2: domains[u] = roots          # a quadratic has at most two roots: exact
    return domains

def solutions(cons, asg, unknowns, fulldomain):
    """ generator of all total assignments extending asg that satisfy cons """
    asg = dict(asg)
    domains = propagate(cons, asg)
    if domains is False: return
    rest = [u for u in unknowns if u not in asg]
    if not rest:
        yield asg
        return
    if fulldomain:
        u = rest[0]
        dom = range(P)
    else:
        cand = [u for u in rest if u in domains]
        if not cand: raise Stuck("cannot enumerate: no finite domain known for " + str(rest))
        u = cand[0]
        dom = domains[u]
    for val in dom:
        nxt = dict(asg)
        nxt[u] = val
        yield from solutions(cons, nxt, rest, fulldomain)

def evaluate(x, asg):
    (c, unk) = split(lcdict(x), asg)
    assert not unk
    return c

def flatten(x):
    if isinstance(x, Array): x = x.arr
    if isinstance(x, (list, tuple)):
        return [z for y in x for z in flatten(y)]
    return [x]

def check_case(descr, build, fulldomain, expect_unsat=False):
    """ build() -> (operands, results, expected): operands are the LinCombs/LinCombBools
        created with PrivVal/PubVal whose values the prover is not allowed to change """
    global ncases, nsolutions
    ncases += 1
    reset()
    if expect_unsat: rt.ignore_errors(True)
    try:
        (operands, results, expected) = build()
    finally:
        rt.ignore_errors(False)
    results = flatten(results)
    expected = flatten(expected)
    cons = [(a.lc, b.lc, c.lc) for (a, b, c) in be.constraints]
    asg = {}
    for op in flatten(operands):
        if is_const(op): continue
        for (k, v) in lcdict(op).items():
            if k == 0: continue
            asg[k] = (be.privvals[-k-1] if k < 0 else be.pubvals[k-1]) % P
    for k in range(1, len(be.pubvals) + 1):                # public values are the verifier's
        asg[k] = be.pubvals[k-1] % P
    unknowns = [-(i+1) for i in range(len(be.privvals)) if -(i+1) not in asg]
    honest = dict(asg)
    for u in unknowns: honest[u] = be.privvals[-u-1] % P

    if not expect_unsat:
        if len(results) != len(expected):
            fail(descr, "result shape", results, expected)
            return
        for (A, B, C) in cons:
            if (evaluate_raw(A, honest) * evaluate_raw(B, honest) - evaluate_raw(C, honest)) % P != 0:
                fail(descr, "honest witness does not satisfy the constraints")
                return
        for (r, e) in zip(results, expected):
            hv = r if isinstance(r, int) else evaluate(r, honest)
            if (hv - e) % P != 0:
                fail(descr, "honest result", hv, "expected", e)
                return

    seen_honest = False
    n = 0
    try:
        for sol in solutions(cons, asg, unknowns, fulldomain):
            n += 1
            nsolutions += 1
            if expect_unsat:
                fail(descr, "out-of-range index has a satisfying assignment", sol)
                return
            if all(sol[u] == honest[u] for u in unknowns): seen_honest = True
            for (r, e) in zip(results, expected):
                v = r if isinstance(r, int) else evaluate(r, sol)
                if (v - e) % P != 0:
                    fail(descr, "satisfying assignment with result", v, "instead of", e % P, "witness", sol)
                    return
                if isinstance(r, LinCombBool) and v not in (0, 1):
                    fail(descr, "boolean result with value", v)
                    return
    except Stuck as e:
        fail(descr, str(e))
        return
    if not expect_unsat and not seen_honest:
        fail(descr, "honest witness not among the", n, "solutions")

def evaluate_raw(lc, asg):
    (c, unk) = split(lc, asg)
    assert not unk
    return c

def is_const(x):
    return isinstance(x, int) or all(k == 0 for k in lcdict(x))

# ----------------------------------------------------------------- cases

def mk(kind, val):
    if kind == "int": return val
    if kind == "priv": return PrivVal(val)
    if kind == "pub": return PubVal(val)
    if kind == "const": return ConstVal(val)
    raise ValueError(kind)

def case_get(vals, elkind, ix, ixkind):
    def build():
        els = [mk(elkind, v) for v in vals]
        item = mk(ixkind, ix)
        ncons = len(be.constraints)
        ret = Array(els)[item]
        if elkind == "int" and 0 <= ix < len(vals) and len(be.constraints) - ncons != len(vals) + 2:
            fail("constraint count", len(be.constraints) - ncons, "for length", len(vals))
        return (els + [item], [ret], [vals[ix] if 0 <= ix < len(vals) else 0])
    return build

def case_set(vals, elkind, ix, newval, newkind):
    def build():
        els = [mk(elkind, v) for v in vals]
        item = PrivVal(ix)
        nv = mk(newkind, newval)
        arr = Array(els)
        arr[item] = nv
        exp = list(vals)
        if 0 <= ix < len(vals): exp[ix] = newval
        return (els + [item, nv], arr, exp)
    return build

def case_get2d(rows, elkind, i, j, how):
    def build():
        els = [[mk(elkind, v) for v in row] for row in rows]
        arr = Array([Array(r) for r in els])
        (pi, pj) = (PrivVal(i), PrivVal(j))
        if how == "tuple": ret = arr[pi, pj]
        elif how == "chain": ret = arr[pi][pj]
        elif how == "row": ret = arr[pi]; return (els + [pi, pj], ret, rows[i])
        elif how == "pubrow": ret = arr[i, pj]
        elif how == "pubcol": ret = arr[pi, j]
        return (els + [pi, pj], [ret], [rows[i][j]])
    return build

def case_set2d(rows, i, j, newval):
    def build():
        arr = Array([Array(list(r)) for r in rows])
        (pi, pj, nv) = (PrivVal(i), PrivVal(j), PrivVal(newval))
        arr[pi, pj] = nv
        exp = [list(r) for r in rows]
        exp[i][j] = newval
        return ([pi, pj, nv], arr, exp)
    return build

def case_branch(vals, ix, c):
    """ lookup in a conditionally executed branch: guarded constraints """
    def build():
        cond = PrivValBool(c)
        item = PrivVal(ix)
        arr = Array(list(vals))
        ret = if_then_else(cond, lambda: arr[item], lambda: LinComb.ZERO + 0)
        return ([cond, item], [ret], [vals[ix] if c else 0])
    return build

def case_eq_after(vals, ix):
    """ a boolean-typed result computed from the selected element """
    def build():
        item = PrivVal(ix)
        ret = Array(list(vals))[item] == vals[0]
        return ([item], [ret], [1 if vals[ix] == vals[0] else 0])
    return build

def run_small(p):
    set_field(p)
    maxn = min(4, p - 2)
    for n in range(1, maxn + 1):
        contents = set(itertools.product(range(3), repeat=n))
        contents.add(tuple(range(1, n + 1)))
        contents.add(tuple((p - 1 - i) % p for i in range(n)))
        for vals in sorted(contents):
            vals = list(vals)
            for ix in range(n):
                for ixkind in ("priv", "pub", "const"):
                    check_case("get int%s[%s %d] mod %d" % (vals, ixkind, ix, p), case_get(vals, "int", ix, ixkind), True)
                check_case("get priv%s[%d] mod %d" % (vals, ix, p), case_get(vals, "priv", ix, "priv"), True)
                check_case("branch %s[%d] mod %d" % (vals, ix, p), case_branch(vals, ix, 1), True)
                if p <= 7 and n <= 3 and vals == list(range(1, n + 1)):
                    # branch not taken: its constraints are vacuous (many assignments), the result must still be 0
                    check_case("branch0 %s[%d] mod %d" % (vals, ix, p), case_branch(vals, ix, 0), True)
                check_case("eq %s[%d] mod %d" % (vals, ix, p), case_eq_after(vals, ix), True)
        for vals in [list(range(1, n + 1)), [2] * n]:
            for ix in range(n):
                for nv in (0, 1, p - 2):
                    check_case("set int%s[%d]=priv %d mod %d" % (vals, ix, nv, p), case_set(vals, "int", ix, nv, "priv"), True)
                    check_case("set priv%s[%d]=int %d mod %d" % (vals, ix, nv, p), case_set(vals, "priv", ix, nv, "int"), True)
            # out of range: n, n+1, -1 (all different from 0..n-1 modulo p since n <= p-2)
            for ix in (n, -1):
                check_case("get int%s[%d] (errors ignored) mod %d" % (vals, ix, p), case_get(vals, "int", ix, "priv"), True, expect_unsat=True)
                check_case("set int%s[%d] (errors ignored) mod %d" % (vals, ix, p), case_set(vals, "int", ix, 1, "priv"), True, expect_unsat=True)
    rows = [[1, 2, 3], [4, 0, 1]]
    for i in range(2):
        for j in range(3):
            for how in ("tuple", "chain", "row", "pubrow", "pubcol"):
                for elkind in ("int", "priv"):
                    check_case("get2d %s %s [%d,%d] mod %d" % (how, elkind, i, j, p), case_get2d(rows, elkind, i, j, how), True)
    rows = [[1, 2], [3, 4]]
    for i in range(2):
        for j in range(2):
            check_case("set2d [%d,%d] mod %d" % (i, j, p), case_set2d(rows, i, j, 0), True)

def run_big():
    set_field(BN254)
    for n in (1, 2, 3, 5, 8):
        vals = [(7 * i + 3) % 11 - 4 for i in range(n)]
        for ix in range(n):
            for ixkind in ("priv", "pub"):
                check_case("get int%s[%s %d] BN254" % (vals, ixkind, ix), case_get(vals, "int", ix, ixkind), False)
            check_case("get priv%s[%d] BN254" % (vals, ix), case_get(vals, "priv", ix, "priv"), False)
            check_case("set priv%s[%d] BN254" % (vals, ix), case_set(vals, "priv", ix, -12345, "priv"), False)
            if vals[ix] != vals[0]:
                # (for equal values the zero test has a witness that no constraint restricts: not
                # enumerable over a large field; that situation is covered over the small fields)
                check_case("eq %s[%d] BN254" % (vals, ix), case_eq_after(vals, ix), False)
        for ix in (n, n + 1, -1, -n, 2 ** 200):
            check_case("get int%s[%d] (errors ignored) BN254" % (vals, ix), case_get(vals, "int", ix, "priv"), False, expect_unsat=True)
    rows = [[1, 2, 3], [4, 5, 6], [7, 8, 9]]
    for i in range(3):
        for j in range(3):
            for how in ("tuple", "chain", "row"):
                check_case("get2d %s [%d,%d] BN254" % (how, i, j), case_get2d(rows, "priv", i, j, how), False)
            check_case("set2d [%d,%d] BN254" % (i, j), case_set2d(rows, i, j, 77), False)

def selftest():
    """ the harness must notice an unsound lookup: selection vector without the sum constraint """
    global failures
    set_field(7)
    def build():
        item = PrivVal(3)
        bits = [PrivValBool(1 if i == 3 else 0) for i in range(4)]
        sum([b * i for (i, b) in enumerate(bits)]).assert_eq(item)
        return ([item], [sum([b * v for (b, v) in zip(bits, [1, 2, 3, 4])])], [4])
    before = failures
    stdout = sys.stdout
    sys.stdout = open(os.devnull, "w")
    try:
        check_case("selftest", build, True)
    finally:
        sys.stdout = stdout
    if failures == before:
        print("FAIL: harness did not notice an unsound gadget")
        sys.exit(1)
    failures = before

if __name__ == "__main__":
    selftest()
    for p in (5, 7, 11):
        run_small(p)
    run_big()
    print("cases:", ncases, "satisfying assignments examined:", nsolutions, "failures:", failures)
    sys.exit(1 if failures else 0)
