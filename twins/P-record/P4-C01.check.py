# Evidence program for P (division by a zero-valued LinComb divisor in a branch that is
# not taken no longer aborts the trace).
#
#   PYTHONPATH=<tree> /venv/bin/python P.check.py        (from an empty directory)
#
# What is checked is property C01 itself: for every traced program that finishes
# without raising (error checking is never switched off by this program), every R1CS
# constraint recorded by the snarkjs backend is evaluated on the recorded witness
# modulo the backend prime, results are compared with plain Python semantics, the
# value of every result is compared with what its wire evaluates to, and at the end
# the written circuit.r1cs / witness.wtns are decoded and re-checked.
# Exit status 0 iff the property held in all cases.
import os, sys, itertools, struct
os.environ["PYSNARK_BACKEND"] = "snarkjs"

import pysnark.runtime as rt
rt.autoprove = False
from pysnark.runtime import PrivVal, PubVal, ConstVal, LinComb, guarded, ignore_errors
from pysnark.boolean import LinCombBool, PrivValBool
from pysnark.fixedpoint import PrivValFxp, LinCombFxp
import pysnark.fixedpoint as fxp
from pysnark.branching import if_then_else, BranchingValues, _if, _else, _endif
from pysnark.array import Array

be = rt.backend
P = be.get_modulus()
assert rt.backend_name == "snarkjs", rt.backend_name

failures = []      # violations of the property (decide the exit status)
notes = []         # behaviour this program expects from the tree with P, but that is not part of the property
stats = {"cases": 0, "finished": 0, "raised": 0, "constraints": 0, "untaken_zero": 0, "untaken_zero_ok": 0}


def wire(k):
    if k == 0: return 1
    return be.pubvals[k - 1] if k > 0 else be.privvals[-k - 1]

def ev(lc):
    return sum(c * wire(k) for (k, c) in lc.lc.items()) % P

mark = 0
finished_idx = set()     # constraints that belong to runs that finished
def check_new(tag):
    """evaluate every constraint emitted since the last call"""
    global mark
    bad = 0
    for i in range(mark, len(be.constraints)):
        a, b, c = be.constraints[i]
        stats["constraints"] += 1
        finished_idx.add(i)
        if (ev(a) * ev(b) - ev(c)) % P != 0:
            bad += 1
            if len(failures) < 20:
                failures.append("%s: constraint #%d violated: %d * %d != %d" % (tag, i, ev(a), ev(b), ev(c)))
    mark = len(be.constraints)
    return bad == 0

def skip_new():
    global mark
    mark = len(be.constraints)

def reset():
    rt.guard = None
    rt._ignore_errors = False
    LinComb.ONE = LinComb.ONE_SAFE

def lc_of(v):
    if isinstance(v, (LinCombFxp, LinCombBool)): return v.lc
    return v

def run(tag, fn, expect=None, must_finish=False, must_raise=False):
    """run fn; if it finishes check all new constraints, value/wire consistency of the
    result(s) and (if given) the expected plain-Python value(s)"""
    reset()
    stats["cases"] += 1
    assert not ignore_errors()
    try:
        res = fn()
    except (ValueError, AssertionError, IndexError, ZeroDivisionError) as e:
        stats["raised"] += 1
        skip_new()
        if must_finish: notes.append("%s: raised %r (the tree with P traces this)" % (tag, e))
        reset()
        return None
    stats["finished"] += 1
    if must_raise: notes.append("%s: finished, expected an error" % tag)
    if ignore_errors() or rt.guard is not None:
        failures.append("%s: guard / ignore_errors state leaked" % tag)
    check_new(tag)
    rs = res if isinstance(res, tuple) else (res,)
    for r in rs:
        r = lc_of(r)
        if isinstance(r, LinComb) and ev(r.lc) != r.value % P:
            failures.append("%s: result value %d differs from its wire %d" % (tag, r.value, ev(r.lc)))
    if expect is not None:
        es = expect if isinstance(expect, tuple) else (expect,)
        got = tuple(lc_of(r).value if not isinstance(r, int) else r for r in rs)
        if got != tuple(es):
            failures.append("%s: got %r, plain Python gives %r" % (tag, got, es))
    return res


OPS = {
    "truediv":  (lambda x, d: x / d,        lambda x, d: x // d if x % d == 0 else None),
    "floordiv": (lambda x, d: x // d,       lambda x, d: x // d),
    "mod":      (lambda x, d: x % d,        lambda x, d: x % d),
    "divmod":   (lambda x, d: divmod(x, d), lambda x, d: divmod(x, d)),
}
FALLBACK = -77

def lazy(op, xv, dv, rdiv=False):
    """the motivating idiom: divide only where the divisor is non-zero"""
    def prog():
        x = PrivVal(xv) if not rdiv else xv
        d = PrivVal(dv)
        f = OPS[op][0]
        if op == "divmod":
            q, r = if_then_else(d != 0, lambda: list(f(x, d)), lambda: [PrivVal(FALLBACK), PrivVal(FALLBACK)])
            return (q, r)
        return if_then_else(d != 0, lambda: f(x, d), lambda: PrivVal(FALLBACK))
    return prog

def expected(op, xv, dv):
    if dv == 0: return (FALLBACK, FALLBACK) if op == "divmod" else FALLBACK
    return OPS[op][1](xv, dv)

# ---------------------------------------------------------------- 1. lazy branches, all operators
for bl in (4, 8, 16, 32):
    rt.bitlength = bl
    top = (1 << bl) - 1
    xs = [0, 1, 2, 3, 7, 12, -1, -5, -12, top, top + 1, -top - 1, 1 << (bl - 1)]
    ds = [0, 1, 2, 3, 5, -1, -3, top, top + 1]
    for op in OPS:
        for xv, dv in itertools.product(xs, ds):
            for rdiv in (False, True):
                tag = "lazy %s x=%d d=%d bl=%d%s" % (op, xv, dv, bl, " (int dividend)" if rdiv else "")
                exp = expected(op, xv, dv)
                if dv == 0:
                    stats["untaken_zero"] += 1
                    before = stats["finished"]
                    run(tag, lazy(op, xv, dv, rdiv), exp)
                    stats["untaken_zero_ok"] += stats["finished"] - before
                else:
                    # may legitimately raise (not divisible, negative divisor, out of range)
                    run(tag, lazy(op, xv, dv, rdiv), exp)
rt.bitlength = 16

# ---------------------------------------------------------------- 2. explicit guards, nesting, taken / not taken
def nested(g1, g2, body):
    def prog():
        a, b = PrivVal(g1), PrivVal(g2)
        return guarded(a)(lambda: guarded(b)(body)())()
    return prog

for op in OPS:
    for xv, dv in itertools.product([0, 9, -9, 65535, 70000], [0, 3, -3]):
        body = lambda: OPS[op][0](PrivVal(xv), PrivVal(dv))
        for g1, g2 in itertools.product((0, 1), repeat=2):
            tag = "nested %s x=%d d=%d guards=%d%d" % (op, xv, dv, g1, g2)
            taken = g1 == 1 and g2 == 1
            if dv == 0:
                if taken:
                    run(tag, nested(g1, g2, body), must_raise=True)    # a taken division by zero is still an error
                else:
                    stats["untaken_zero"] += 1
                    before = stats["finished"]
                    run(tag, nested(g1, g2, body))
                    stats["untaken_zero_ok"] += stats["finished"] - before
            else:
                exp = OPS[op][1](xv, dv) if taken else None
                run(tag, nested(g1, g2, body), exp if exp is not None and taken else None)

# ---------------------------------------------------------------- 3. no guard: still an error, for every kind of divisor
for op in OPS:
    run("top-level %s by PrivVal(0)" % op, lambda: OPS[op][0](PrivVal(5), PrivVal(0)), must_raise=True)
    run("top-level %s by int 0" % op, lambda: OPS[op][0](PrivVal(5), 0), must_raise=True)
    run("top-level int %s by PrivVal(0)" % op, lambda: OPS[op][0](5, PrivVal(0)), must_raise=True)
    # a public zero divisor is a programming error also in dead code
    run("untaken %s by int 0" % op, lambda: guarded(PrivVal(0))(lambda: OPS[op][0](PrivVal(5), 0))(), must_raise=True)

# ---------------------------------------------------------------- 4. fixed point
for res in (2, 8):
    fxp.resolution = res
    for av, bv in itertools.product([0.0, 1.5, -2.25, 3.0, 100.0], [0.0, 0.5, 2.0, -1.0]):
        for nm, f in (("/", lambda a, b: a / b), ("//", lambda a, b: a // b), ("%", lambda a, b: a % b)):
            def prog():
                a, b = PrivValFxp(av), PrivValFxp(bv)
                return if_then_else(b != 0, lambda: f(a, b), lambda: PrivValFxp(-1.0))
            tag = "fxp %r %s %r res=%d" % (av, nm, bv, res)
            if bv == 0.0:
                stats["untaken_zero"] += 1
                before = stats["finished"]
                run(tag, prog, -1 << res)
                stats["untaken_zero_ok"] += stats["finished"] - before
            else:
                r = run(tag, prog)
                if r is not None:
                    A, B = int(av * (1 << res)), int(bv * (1 << res))
                    want = {"/": (A << res) // B, "//": (A // B) << res, "%": A % B}[nm]
                    if r.lc.value != want:
                        failures.append("%s: got %d, integer semantics give %d" % (tag, r.lc.value, want))
            # LinCombFxp divided by an integer LinComb
            def prog2():
                a, d = PrivValFxp(av), PrivVal(int(bv))
                return if_then_else(d != 0, lambda: f(a, d), lambda: PrivValFxp(-1.0))
            run(tag + " (LinComb divisor)", prog2, must_finish=(int(bv) == 0))
fxp.resolution = 8

# ---------------------------------------------------------------- 5. _if / _else blocks, arrays, composition
def blocks(xv, dv):
    # (in this tree _if needs a LinComb condition and cannot multiplex context values
    # with it, so the results are collected in a plain list)
    def prog():
        _ = BranchingValues()
        x, d = PrivVal(xv), PrivVal(dv)
        out = []
        if _if((d != 0).lc, ctx=_):
            out.append(x // d)
            out.append((x % d) * 2 + (x / PrivVal(1)))
        if _else(ctx=_):
            e = (d - 4) * (d - 4)           # not taken and zero when d == 4
            out.append(x // e)
            out.append(x % e)
        _endif(ctx=_)
        return tuple(out)
    return prog

for xv, dv in itertools.product([0, 5, 17, 4, 100], [0, 1, 4]):
    if dv > 0: exp = (xv // dv, (xv % dv) * 2 + xv, None, None)
    else: exp = (None, None, xv // 16, xv % 16)
    r = run("blocks x=%d d=%d" % (xv, dv), blocks(xv, dv), must_finish=True)
    if r is not None and exp is not None:
        for got, want in zip(r, exp):
            if want is not None and got.value != want:
                failures.append("blocks x=%d d=%d: got %d, plain Python gives %d" % (xv, dv, got.value, want))

def arrays(ix, dens):
    def prog():
        a = Array([PrivVal(v) for v in dens])
        d = a[PrivVal(ix)]
        return if_then_else(d != 0, lambda: PrivVal(100) // d + 100 % d, lambda: PrivVal(FALLBACK))
    return prog
for ix in range(4):
    dens = [3, 0, 7, 0]
    exp = 100 // dens[ix] + 100 % dens[ix] if dens[ix] else FALLBACK
    run("array ix=%d" % ix, arrays(ix, dens), exp, must_finish=True)

# the shape of the circuit must not depend on whether the divisor is zero
def shape(prog):
    reset(); c0, w0 = len(be.constraints), len(be.privvals)
    try: prog()
    except ValueError: skip_new(); reset(); return None
    return (len(be.constraints) - c0, len(be.privvals) - w0)
for op in OPS:
    body0 = lambda: OPS[op][0](PrivVal(12), PrivVal(0))
    body3 = lambda: OPS[op][0](PrivVal(12), PrivVal(3))
    s0 = shape(nested(0, 1, body0)); check_new("shape %s d=0" % op)
    s3 = shape(nested(0, 1, body3)); check_new("shape %s d=3" % op)
    s1 = shape(nested(1, 1, body3)); check_new("shape %s d=3 taken" % op)
    if not (s0 == s3 == s1):
        notes.append("shape %s: (constraints, wires) differ: d=0 not taken %r, d=3 not taken %r, d=3 taken %r" % (op, s0, s3, s1))

# ---------------------------------------------------------------- 6. decode what is handed to snarkjs
reset()
be.prove()
def rd(f, n): return int.from_bytes(f.read(n), "little")
with open("witness.wtns", "rb") as f:
    assert f.read(4) == b"wtns"; rd(f, 4); rd(f, 4); rd(f, 4); rd(f, 8)
    n8 = rd(f, 4); prime = rd(f, n8); nw = rd(f, 4); rd(f, 4); rd(f, 8)
    W = [rd(f, n8) for _ in range(nw)]
with open("circuit.r1cs", "rb") as f:
    assert f.read(4) == b"r1cs"; rd(f, 4); rd(f, 4); rd(f, 4); rd(f, 8)
    n8 = rd(f, 4); prime2 = rd(f, n8); nvars = rd(f, 4); rd(f, 4); rd(f, 4); rd(f, 4); rd(f, 8)
    ncons = rd(f, 4); rd(f, 4); rd(f, 8)
    def rlc():
        return sum(W[k] * v for (k, v) in [(rd(f, 4), rd(f, n8)) for _ in range(rd(f, 4))]) % prime
    filebad = 0
    for i in range(ncons):
        a, b, c = rlc(), rlc(), rlc()
        if (a * b - c) % prime:
            filebad += 1
            if i in finished_idx: failures.append("circuit.r1cs constraint #%d is not satisfied by witness.wtns" % i)
if prime != P or prime2 != P or nvars != nw or ncons != len(be.constraints):
    failures.append("written files inconsistent with the recorded system")
# constraints of runs that raised part-way are in the files too; they are the only ones allowed to fail
recheck = sum(1 for (a, b, c) in be.constraints if (ev(a) * ev(b) - ev(c)) % P)
if filebad != recheck:
    failures.append("file check: %d violated constraints in the files, %d in memory" % (filebad, recheck))

print("cases %(cases)d, finished %(finished)d, raised %(raised)d, constraints checked on finished runs %(constraints)d" % stats)
print("divisions by zero in branches not taken: %(untaken_zero_ok)d of %(untaken_zero)d traced without raising" % stats)
for m in notes[:10]: print("note: " + m)
if len(notes) > 10: print("note: ... %d more" % (len(notes) - 10))
if failures:
    print("PROPERTY C01 VIOLATED:")
    for m in failures: print("  " + m)
    sys.exit(1)
print("OK: every finished run's witness satisfies every constraint it emitted")
