#!/usr/bin/env python
"""
Evidence program for change P (one exit-hook registration per process, settings kept when
pysnark.runtime is executed again).

Run as   PYTHONPATH=<tree> /venv/bin/python P.check.py   from an empty directory.

It generates several thousand small scripts and runs each of them in its own interpreter and
its own directory. A script is the product of
  * a backend                       snarkjs (writes witness.wtns / circuit.r1cs), nobackend
  * a prefix of traced statements   0 .. 6 self-contained groups (private / public inputs, products,
                                    comparisons, lazy if_then_else branches, range assertions, abs, divmod)
  * a way of terminating            fall off the end, sys.exit(0/None/nothing), raise SystemExit(0), builtin exit(0),
                                    sys.exit(non-zero / str / True), uncaught exceptions (with and without message,
                                    from a function, through finally, from a lazy branch, from a library assertion),
                                    KeyboardInterrupt
  * re-execution of the module      none / importlib.reload(pysnark.runtime) before anything is traced / reload of
                                    pysnark.runtime + boolean + fixedpoint + branching (+ atexitmaybe) between two
                                    groups / reload just before terminating / several of these
  * the autoprove switch            on / turned off at the start / turned off just before terminating

and checks property C18 itself on what the process left behind:
  * backend.prove() (instrumented from inside the script) ran exactly once when the script ended normally or with
    status 0 and runtime.autoprove was true at the end, and not at all otherwise;
  * when it ran, it ran over the complete trace: numbers of public / private wires and of constraints at the time
    of the call are those after the last traced statement;
  * for snarkjs the files exist exactly when prove() was due, witness.wtns holds 1, the public and the private
    values that were traced (as canonical field elements), circuit.r1cs holds every constraint, and every
    constraint  <A,w> * <B,w> = <C,w>  holds on the written witness modulo the field order;
  * with autoprove off no file exists and the exit hook does not fail (no atexit error on stderr);
  * the process's exit status is what the way of terminating asks for.

`raise SystemExit(n)` / builtin `exit(n)` with non-zero n are NOT part of the product: the unchanged library
does not see them (sys.exit is not called) and change P does not touch that.

Exit status 0 when the property held in every run.
"""
import json
import os
import shutil
import subprocess
import sys
import tempfile
from concurrent.futures import ThreadPoolExecutor

P = 21888242871839275222246405745257275088548364400416034343698204186575808495617

GROUPS = [
    "a = PrivVal(3); b = a*a + 1",
    "p = PubVal(5); q = p*p; q.assert_eq(25)",
    "c = PrivVal(7); d = (c*c == 49); e = if_then_else(d, lambda: c*c, lambda: c+1)",
    "f = PrivVal(9); f.assert_lt(100)",
    "g = PrivVal(-4); h = abs(g); h.assert_eq(4)",
    "k = PubVal(6); m = k // 4; n = k % 4; (m+n).assert_eq(3)",
]

# (name, code, exit status the interpreter gives)
SUCCESS = [
    ("falloff", "pass", 0),
    ("sys.exit(0)", "sys.exit(0)", 0),
    ("sys.exit()", "sys.exit()", 0),
    ("sys.exit(None)", "sys.exit(None)", 0),
    ("raise SystemExit(0)", "raise SystemExit(0)", 0),
    ("raise SystemExit", "raise SystemExit", 0),
    ("exit(0)", "exit(0)", 0),
    ("exit()", "exit()", 0),
    ("sys.exit(0) in function", "def _f():\n    sys.exit(0)\n_f()", 0),
    ("handled exception", "try:\n    1/0\nexcept ZeroDivisionError:\n    pass", 0),
]
FAIL = [
    ("sys.exit(1)", "sys.exit(1)", 1),
    ("sys.exit(2)", "sys.exit(2)", 2),
    ("sys.exit(-1)", "sys.exit(-1)", 255),
    ("sys.exit('fatal')", "sys.exit('fatal')", 1),
    ("sys.exit('')", "sys.exit('')", 1),
    ("sys.exit(True)", "sys.exit(True)", 1),
    ("sys.exit(3) in function", "def _f():\n    sys.exit(3)\n_f()", 3),
    ("ZeroDivisionError", "1/0", 1),
    ("ValueError('bad')", "raise ValueError('bad')", 1),
    ("ValueError no args", "raise ValueError", 1),
    ("assert False", "assert False", 1),
    ("KeyboardInterrupt", "raise KeyboardInterrupt", None),
    ("through finally", "try:\n    raise RuntimeError('x')\nfinally:\n    pass", 1),
    ("library assertion", "PrivVal(1).assert_eq(2)", 1),
    ("in lazy branch", "if_then_else(PrivVal(1)==1, lambda: 1/0, lambda: 0)", 1),
]

IMPORTS = "from pysnark.runtime import PrivVal, PubVal, ignore_errors\nfrom pysnark.branching import if_then_else\n"
RELOAD_RT = "importlib.reload(rt)\n"
RELOAD_ALL = ("import pysnark.boolean, pysnark.fixedpoint, pysnark.branching\n"
              "for _m in (rt, pysnark.boolean, pysnark.fixedpoint, pysnark.branching): importlib.reload(_m)\n" + IMPORTS)
RELOAD_ALL_AEM = ("import pysnark.atexitmaybe, pysnark.boolean, pysnark.fixedpoint, pysnark.branching\n"
                  "for _m in (pysnark.atexitmaybe, rt, pysnark.boolean, pysnark.fixedpoint, pysnark.branching): importlib.reload(_m)\n" + IMPORTS)

# name -> (early reload?, {group boundary: code}, code just before terminating)
def reload_variants(k):
    mid = k // 2
    v = [("none", "", {}, "")]
    v.append(("early", RELOAD_RT, {}, ""))
    v.append(("end", "", {}, RELOAD_RT))
    v.append(("early+end+end", RELOAD_RT, {}, RELOAD_RT + RELOAD_RT))
    v.append(("all@%d" % mid, "", {mid: RELOAD_ALL}, ""))
    v.append(("all+atexitmaybe@%d,end" % mid, "", {mid: RELOAD_ALL_AEM}, RELOAD_RT))
    return v

PREAMBLE = r'''
import sys, os, json, importlib
import pysnark.runtime as rt
%(early)s
%(off_start)s
_b = rt.backend
_n = {"pub": 0, "priv": 0, "con": 0}
_pubs = []; _privs = []
def _wrap():
    opub, opriv, ocon, oprove = _b.pubval, _b.privval, _b.add_constraint, _b.prove
    def pubval(v):
        _n["pub"] += 1; _pubs.append(int(v)); return opub(v)
    def privval(v):
        _n["priv"] += 1; _privs.append(int(v)); return opriv(v)
    def add_constraint(v, w, y):
        _n["con"] += 1; return ocon(v, w, y)
    def prove():
        with open("prove.log", "a") as f: f.write(json.dumps(_n) + "\n")
        return oprove()
    _b.pubval, _b.privval, _b.add_constraint, _b.prove = pubval, privval, add_constraint, prove
_wrap()
def _mark():
    with open("trace.log", "w") as f:
        json.dump({"n": _n, "pub": [str(x) for x in _pubs], "priv": [str(x) for x in _privs], "autoprove": bool(rt.autoprove)}, f)
''' + IMPORTS + "_mark()\n"


def make_script(k, term, rv, ap):
    (_, early, at, end) = rv
    s = PREAMBLE % {"early": early, "off_start": "rt.autoprove = False" if ap == "off@start" else ""}
    for i in range(k):
        if i in at: s += at[i]
        s += GROUPS[i] + "\n_mark()\n"
    if k in at: s += at[k]
    s += end
    if ap == "off@end": s += "rt.autoprove = False\n"
    s += "_mark()\n"
    s += term + "\n"
    return s


def rd(b, o, n): return int.from_bytes(b[o:o + n], "little"), o + n


def decode_wtns(b):
    assert b[:4] == b"wtns", "witness magic"
    o = 4
    ver, o = rd(b, o, 4); nsec, o = rd(b, o, 4)
    assert (ver, nsec) == (2, 2)
    sid, o = rd(b, o, 4); ln, o = rd(b, o, 8); assert (sid, ln) == (1, 40)
    fs, o = rd(b, o, 4); assert fs == 32
    mod, o = rd(b, o, 32); assert mod == P
    n, o = rd(b, o, 4)
    sid, o = rd(b, o, 4); ln, o = rd(b, o, 8); assert sid == 2 and ln == 32 * n
    w = []
    for _ in range(n):
        v, o = rd(b, o, 32); w.append(v)
    assert o == len(b), "trailing bytes in witness"
    return w


def decode_r1cs(b):
    assert b[:4] == b"r1cs", "r1cs magic"
    o = 4
    ver, o = rd(b, o, 4); nsec, o = rd(b, o, 4); assert (ver, nsec) == (1, 3)
    sid, o = rd(b, o, 4); ln, o = rd(b, o, 8); assert (sid, ln) == (1, 64)
    fs, o = rd(b, o, 4); mod, o = rd(b, o, 32); assert fs == 32 and mod == P
    nvars, o = rd(b, o, 4); nout, o = rd(b, o, 4); npub, o = rd(b, o, 4); npriv, o = rd(b, o, 4)
    nlab, o = rd(b, o, 8); ncon, o = rd(b, o, 4)
    sid, o = rd(b, o, 4); ln, o = rd(b, o, 8); assert sid == 2
    start = o
    cons = []
    for _ in range(ncon):
        c = []
        for _ in range(3):
            m, o = rd(b, o, 4)
            lc = []
            for _ in range(m):
                ix, o = rd(b, o, 4); cf, o = rd(b, o, 32); lc.append((ix, cf))
            c.append(lc)
        cons.append(c)
    assert o - start == ln, "constraint section length"
    sid, o = rd(b, o, 4); ln, o = rd(b, o, 8); assert sid == 3 and ln == 8 * nvars
    o += ln
    assert o == len(b), "trailing bytes in r1cs"
    return nvars, nout, cons


def run_case(case):
    (backend, k, (tname, term, status), success, rv, ap, root) = case
    label = "%s k=%d term=%s reload=%s autoprove=%s" % (backend, k, tname, rv[0], ap)
    d = tempfile.mkdtemp(dir=root)
    errs = []
    try:
        with open(os.path.join(d, "s.py"), "w") as f: f.write(make_script(k, term, rv, ap))
        env = dict(os.environ); env["PYSNARK_BACKEND"] = backend
        r = subprocess.run([sys.executable, "s.py"], cwd=d, env=env, capture_output=True, text=True, timeout=300)
        if status is None:
            if r.returncode not in (130, -2): errs.append("exit status %r for KeyboardInterrupt" % r.returncode)
        elif r.returncode != status:
            errs.append("exit status %r, expected %r\n%s" % (r.returncode, status, r.stderr[-600:]))
        if not os.path.exists(os.path.join(d, "trace.log")):
            return label, ["script did not start: " + r.stderr[-600:]]
        tr = json.load(open(os.path.join(d, "trace.log")))
        proves = []
        if os.path.exists(os.path.join(d, "prove.log")):
            proves = [json.loads(l) for l in open(os.path.join(d, "prove.log"))]
        due = success and tr["autoprove"]
        if ap != "on" and rv[0] == "none" and tr["autoprove"]: errs.append("autoprove switch not honoured")
        if len(proves) != (1 if due else 0):
            errs.append("backend.prove() ran %d time(s), expected %d" % (len(proves), 1 if due else 0))
        for p in proves:
            if p != tr["n"]: errs.append("prove() ran over %r, complete trace is %r" % (p, tr["n"]))
        if "Error in atexit" in r.stderr or "Exception ignored in atexit" in r.stderr:
            errs.append("exit hook failed:\n" + r.stderr[-600:])
        if success and "Traceback" in r.stderr:
            errs.append("traceback on a successful run:\n" + r.stderr[-600:])
        files = sorted(x for x in os.listdir(d) if x not in ("s.py", "trace.log", "prove.log"))
        if backend == "snarkjs" and due:
            if files != ["circuit.r1cs", "witness.wtns"]:
                errs.append("artefacts %r, expected both snarkjs files" % files)
            else:
                try:
                    w = decode_wtns(open(os.path.join(d, "witness.wtns"), "rb").read())
                    nvars, nout, cons = decode_r1cs(open(os.path.join(d, "circuit.r1cs"), "rb").read())
                    exp = [1] + [int(x) % P for x in tr["pub"]] + [int(x) % P for x in tr["priv"]]
                    if w != exp: errs.append("witness file does not hold the traced values (%d values, %d traced)" % (len(w), len(exp)))
                    if nvars != len(exp) or nout != len(tr["pub"]): errs.append("r1cs header: nvars %d nout %d" % (nvars, nout))
                    if len(cons) != tr["n"]["con"]: errs.append("%d constraints written, %d traced" % (len(cons), tr["n"]["con"]))
                    for (i, c) in enumerate(cons):
                        (av, bv, cv) = [sum(cf * w[ix] for (ix, cf) in lc) % P for lc in c]
                        if (av * bv - cv) % P != 0: errs.append("constraint %d does not hold on the written witness" % i)
                except (AssertionError, IndexError) as e:
                    errs.append("undecodable artefact: %r" % (e,))
        else:
            if files: errs.append("artefacts %r although no proof is due" % files)
        return label, errs
    except subprocess.TimeoutExpired:
        return label, ["timeout"]
    finally:
        shutil.rmtree(d, ignore_errors=True)


def main():
    root = tempfile.mkdtemp(prefix="pcheck-", dir=os.getcwd())
    cases = []
    for backend in ("snarkjs", "nobackend"):
        ks = (0, 1, 2, 3, 4, 5, 6) if backend == "snarkjs" else (0, 3, 6)
        for k in ks:
            for (terms, success) in ((SUCCESS, True), (FAIL, False)):
                for t in terms:
                    for rv in reload_variants(k):
                        for ap in ("on", "off@start", "off@end"):
                            # thin out the less interesting corners to keep the run time reasonable
                            if backend == "nobackend" and ap == "off@end" and rv[0] != "none": continue
                            if k in (1, 5) and rv[0] not in ("none", "end") : continue
                            cases.append((backend, k, t, success, rv, ap, root))
    bad = 0
    try:
        with ThreadPoolExecutor(max_workers=min(16, (os.cpu_count() or 2))) as ex:
            for (label, errs) in ex.map(run_case, cases):
                if errs:
                    bad += 1
                    if bad <= 25:
                        print("VIOLATION  " + label)
                        for e in errs: print("    " + e.replace("\n", "\n    "))
    finally:
        shutil.rmtree(root, ignore_errors=True)
    print("%d scripts run, %d with a violation of C18" % (len(cases), bad))
    if bad:
        print("FAILED: proof artefacts must be emitted exactly once, completely, and only for successful runs")
        sys.exit(1)
    print("OK: prove() ran exactly once over the complete trace for every successful run with autoprove on, never otherwise")


if __name__ == "__main__":
    main()
