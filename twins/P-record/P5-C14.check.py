# Check for property C14 ("fixed-point operations equal exact scaled-integer arithmetic")
# on a tree with P applied (also passes on the unchanged tree).
#
# Part 1: every binary operator, both operand orders, every operand kind (fixed-point secret, integer secret,
#         Boolean secret, int, Python bool, float with and without fractional part), all representable values of
#         a small domain incl. negatives and fractions, several resolutions and bitlengths.  The result must be
#         the exact value computed with fractions.Fraction, or the operation must raise.  For each result
#         the wire (the linear combination handed to the backend) is evaluated on the recorded witness and must
#         equal the Python-side value, and every constraint recorded during the operation must hold mod p.
# Part 2: for the mechanisms that P changes (division by an integer secret / int / whole float without scaling
#         both sides, multiplication by a whole float without truncation gadget) and for the truncation gadget
#         itself, the constraints that the backend received are solved by brute force over small witnesses
#         (quotients in a window, all bit vectors): every solution must give the wire of the result the
#         exact expected representation.
#
# exit status 0 iff everything observed agrees with the property.
import os, sys, warnings, itertools, operator
os.environ["PYSNARK_BACKEND"] = "snarkjs"
from fractions import Fraction
from math import floor

import pysnark.runtime as rt
rt.autoprove = False                      # do not write witness/circuit files at exit
import pysnark.snarkjsbackend as be
import pysnark.fixedpoint as fp
from pysnark.runtime import LinComb, PrivVal
from pysnark.fixedpoint import LinCombFxp, PrivValFxp
from pysnark.boolean import LinCombBool, PrivValBool

assert rt.backend is be, "snarkjs backend must be the active backend"
P = be.snarkjsp
warnings.simplefilter("ignore")

failures = []
def fail(*msg):
    failures.append(" ".join(str(m) for m in msg))
    if len(failures) <= 40: print("FAIL:", *msg)

def reset():
    be.privvals.clear(); be.pubvals.clear(); be.constraints.clear()

def ev(lin, priv=None, pub=None):
    """ value mod p of a backend linear combination on the (given or recorded) witness """
    priv = be.privvals if priv is None else priv
    pub = be.pubvals if pub is None else pub
    tot = 0
    for (k, c) in lin.lc.items():
        v = 1 if k == 0 else (pub[k-1] if k > 0 else priv[-k-1])
        tot += c*v
    return tot % P

def constraints_hold(priv=None):
    return all(ev(v, priv)*ev(w, priv) % P == ev(y, priv) for (v, w, y) in be.constraints)

# ---------------------------------------------------------------------------------------------------------------
# Part 1
# ---------------------------------------------------------------------------------------------------------------
KINDS = ["fxp", "lincomb", "boolsecret", "int", "pybool", "float"]

def make(kind, rep, r):
    """ operand of the given kind for the represented number rep/2^r, or None if this kind cannot hold it """
    whole = rep % (1 << r) == 0
    n = rep >> r
    if kind == "fxp":        return PrivValFxp(rep, False)
    if kind == "float":      return rep / (1 << r)          # exact: power-of-two denominator
    if not whole:            return None
    if kind == "lincomb":    return PrivVal(n)
    if kind == "int":        return n
    if n not in (0, 1):      return None
    if kind == "boolsecret": return PrivValBool(n)
    if kind == "pybool":     return bool(n)

def fl(q): return floor(q)     # Fraction.__floor__ is exact

ARITH = {
    "+":  (operator.add,      lambda a, b, r: a + b),
    "-":  (operator.sub,      lambda a, b, r: a - b),
    "*":  (operator.mul,      lambda a, b, r: Fraction(fl(a*b*2**r), 2**r)),
    "/":  (operator.truediv,  lambda a, b, r: Fraction(fl(a/b*2**r), 2**r)),
    "//": (operator.floordiv, lambda a, b, r: Fraction(fl(a/b))),
    "%":  (operator.mod,      lambda a, b, r: a - b*fl(a/b)),
}
CMP = {
    "<": operator.lt, "<=": operator.le, "==": operator.eq, "!=": operator.ne, ">": operator.gt, ">=": operator.ge,
}

stats = {}
def one_case(r, opname, order, kind, arep, brep):
    """ arep: representation of the fixed-point operand; brep: that of the other operand.  order 'fo': fxp op other """
    reset()
    x = PrivValFxp(arep, False)
    o = make(kind, brep, r)
    if o is None: return
    a, b = Fraction(arep, 2**r), Fraction(brep, 2**r)
    (lhs, rhs, lv, rv) = (x, o, a, b) if order == "fo" else (o, x, b, a)
    key = (opname, order, kind)
    st = stats.setdefault(key, [0, 0])
    where = "r=%d bl=%d: %r(%s) %s %r(%s) [%s]" % (r, rt.bitlength, lhs, lv, opname, rhs, rv, kind)
    try:
        if opname in ARITH:
            if opname in ("/", "//", "%") and rv == 0: expected = None
            else: expected = ARITH[opname][1](lv, rv, r)
            res = ARITH[opname][0](lhs, rhs)
        else:
            expected = CMP[opname](lv, rv)
            res = CMP[opname](lhs, rhs)
    except Exception as e:
        st[1] += 1
        # with plenty of bits, an ordinary operand on the right and a positive divisor, nothing may raise
        if rt.bitlength >= 24 and order == "fo" and kind in ("fxp", "lincomb", "int", "float", "pybool") and \
           (opname in ("+", "-", "*") or opname in CMP or rv > 0):
            fail("unexpected exception", where, repr(e))
        return
    st[0] += 1
    if expected is None:
        fail("division by zero did not raise", where); return
    if opname in ARITH:
        if not isinstance(res, LinCombFxp):
            fail("result is not fixed-point", where, type(res)); return
        want = expected * 2**r
        if want.denominator != 1 or res.lc.value != want.numerator:
            fail("wrong value", where, "representation", res.lc.value, "expected", want); return
        wire, value = res.lc.lc, res.lc.value
    else:
        if isinstance(res, LinCombBool): res = res.lc
        if not isinstance(res, LinComb):
            fail("comparison result has unexpected type", where, type(res)); return
        if res.value != int(expected):
            fail("wrong comparison", where, "got", res.value, "expected", expected); return
        wire, value = res.lc, res.value
    if ev(wire) != value % P:
        fail("wire of the result does not carry its value", where, ev(wire), value)
    if not constraints_hold():
        fail("recorded constraints violated by the recorded witness", where)
    if opname in ARITH:
        back = res.val()
        if back != float(expected) or Fraction(back) != expected:
            fail("val() read back", back, "expected", expected, where)
        if not constraints_hold():
            fail("output constraint violated", where)

def domain(r):
    one = 1 << r
    if r <= 3:
        return list(range(-one-2, one+3)) + [-3*one, 3*one, 2*one, -2*one, 5*one//2]
    return [-3*one, -one-1, -one, -one+1, -one//2, -1, 0, 1, 3, one//2, one-1, one, one+1, 3*one//2, 2*one, 5*one//2, 3*one]

def part1():
    for (r, bls) in [(1, (6, 24)), (2, (5, 24)), (3, (24,)), (8, (16, 32)), (11, (40,))]:
        fp.resolution = r
        dom = sorted(set(domain(r)))
        for bl in bls:
            rt.bitlength = bl
            for opname in list(ARITH) + list(CMP):
                for order in ("fo", "of"):
                    for kind in KINDS:
                        for arep in dom:
                            for brep in dom:
                                one_case(r, opname, order, kind, arep, brep)
    # unary minus and reading back
    for r in (1, 4, 8):
        fp.resolution = r; rt.bitlength = 24
        for rep in range(-40, 41):
            reset()
            x = PrivValFxp(rep, False)
            if (-x).lc.value != -rep or ev((-x).lc.lc) != -rep % P: fail("negation", r, rep)
            if x.val() != rep / 2**r or (+x).val() != rep / 2**r: fail("val", r, rep)
            if PrivValFxp(rep / 2**r).lc.value != rep: fail("conversion of float", r, rep)
            if rep % 2**r == 0 and PrivValFxp(rep >> r).lc.value != rep: fail("conversion of int", r, rep)

# ---------------------------------------------------------------------------------------------------------------
# Part 2: brute force over small witnesses of the recorded constraint systems
# ---------------------------------------------------------------------------------------------------------------
def lin_unknowns(lin, known):
    return [k for k in lin.lc if k < 0 and (-k-1) not in known and lin.lc[k] % P != 0]

def lin_eval(lin, known):
    tot = 0
    for (k, c) in lin.lc.items():
        if k == 0: tot += c
        elif k > 0: tot += c*be.pubvals[k-1]
        elif (-k-1) in known: tot += c*known[-k-1]
    return tot % P

def solutions(nfixed, window):
    """
    All assignments to the witnesses with index >= nfixed satisfying the recorded constraints, where witnesses that
    the system forces to be bits range over {0,1} and the others over [-window, window]; witnesses that are
    determined by a constraint with otherwise known terms are solved for rather than enumerated.
    """
    n = len(be.privvals)
    cons = list(be.constraints)
    bits = set()
    for (v, w, y) in cons:       # b * (1 - b) = 0
        if len(y.lc) == 0 or all(c % P == 0 for c in y.lc.values()):
            ks = [k for k in v.lc if k < 0]
            if len(ks) == 1 and set(w.lc) <= {0, ks[0]} and v.lc[ks[0]] == 1 and w.lc.get(0, 0) == 1 and w.lc.get(ks[0], 0) == -1:
                bits.add(-ks[0]-1)
    out = []
    def propagate(known):
        known = dict(known)
        changed = True
        while changed:
            changed = False
            for (v, w, y) in cons:
                uv, uw, uy = lin_unknowns(v, known), lin_unknowns(w, known), lin_unknowns(y, known)
                if not uv and not uw and not uy:
                    if lin_eval(v, known)*lin_eval(w, known) % P != lin_eval(y, known): return None
                elif not uv and not uw and len(uy) == 1:
                    k = uy[0]
                    rest = lin_eval(y, known)
                    val = (lin_eval(v, known)*lin_eval(w, known) - rest) * pow(y.lc[k], -1, P) % P
                    if val > P//2: val -= P
                    known[-k-1] = val
                    changed = True
        return known
    def rec(known):
        known = propagate(known)
        if known is None: return
        todo = [i for i in range(nfixed, n) if i not in known]
        if not todo:
            out.append([known[i] for i in range(n)]); return
        i = todo[0]
        for cand in ((0, 1) if i in bits else range(-window, window+1)):
            k2 = dict(known); k2[i] = cand
            rec(k2)
    rec({i: be.privvals[i] for i in range(nfixed)})
    return out

def brute(r, bl, name, build, inputs, expected_rep, window=40):
    """ build(*operands) -> LinCombFxp; inputs: list of callables creating the secret operands """
    fp.resolution = r; rt.bitlength = bl
    reset()
    ops = [mk() for mk in inputs]
    nfixed = len(be.privvals)
    try:
        res = build(*ops)
    except Exception as e:
        return False                 # raising is allowed; the caller counts successes
    if res.lc.value != expected_rep:
        fail("brute: honest value wrong", name, res.lc.value, expected_rep); return True
    sols = solutions(nfixed, window)
    if not any(s == list(be.privvals) for s in sols):
        fail("brute: honest witness not among the solutions", name)
    for s in sols:
        got = ev(res.lc.lc, priv=s)
        if got != expected_rep % P:
            fail("brute: alternative witness", s[nfixed:], "gives", got, "instead of", expected_rep, name)
    return True

def part2():
    done = 0
    r, bl = 2, 4
    one = 1 << r
    for arep in range(-9, 10):
        # division by an integer secret, an int, a whole float, a Boolean secret (new accepted input in P)
        for n in range(1, 6):
            want = fl(Fraction(arep * one, n * one))
            done += brute(r, bl, "x/secret %d %d" % (arep, n), lambda x, s: x / s,
                          [lambda: PrivValFxp(arep, False), lambda: PrivVal(n)], want)
            done += brute(r, bl, "x/int %d %d" % (arep, n), lambda x: x / n, [lambda: PrivValFxp(arep, False)], want)
            done += brute(r, bl, "x/wholefloat %d %d" % (arep, n), lambda x: x / float(n), [lambda: PrivValFxp(arep, False)], want)
            done += brute(r, bl, "secret/x %d %d" % (n, arep), lambda s, x: s / x,
                          [lambda: PrivVal(n), lambda: PrivValFxp(arep, False)],
                          fl(Fraction(n * one * one, arep)) if arep else None, window=90)
        # multiplication by whole floats: no constraints, linear wire
        for n in range(-3, 4):
            reset()
            fp.resolution = r; rt.bitlength = bl
            x = PrivValFxp(arep, False)
            nc, nw = len(be.constraints), len(be.privvals)
            for y in (x * float(n), float(n) * x):
                if y.lc.value != arep*n or ev(y.lc.lc) != arep*n % P: fail("x*wholefloat", arep, n, y.lc.value)
            if "_operand" in dir(LinCombFxp) and (len(be.constraints), len(be.privvals)) != (nc, nw):
                fail("x*wholefloat is expected to be free with P applied", arep, n)
            done += 1
        # truncation gadget: fractional floats, fixed-point secrets; division by fractional floats and fixed-point secrets
        for brep in (1, 2, 3, 5, 6, 7):
            f = brep / one
            done += brute(r, bl, "x*float %d %d" % (arep, brep), lambda x: x * f, [lambda: PrivValFxp(arep, False)],
                          fl(Fraction(arep * brep, one)), window=70)
            done += brute(r, bl, "x*y %d %d" % (arep, brep), lambda x, y: x * y,
                          [lambda: PrivValFxp(arep, False), lambda: PrivValFxp(brep, False)], fl(Fraction(arep * brep, one)), window=70)
            done += brute(r, bl, "x/float %d %d" % (arep, brep), lambda x: x / f, [lambda: PrivValFxp(arep, False)],
                          fl(Fraction(arep * one, brep)))
            done += brute(r, bl, "x/y %d %d" % (arep, brep), lambda x, y: x / y,
                          [lambda: PrivValFxp(arep, False), lambda: PrivValFxp(brep, False)], fl(Fraction(arep * one, brep)))
    for b in (0, 1):
        for arep in range(-9, 10):
            done += brute(r, bl, "x/boolsecret", lambda x, s: x / s, [lambda: PrivValFxp(arep, False), lambda: PrivValBool(b)], arep if b else None)
    return done

part1()
total_ok = sum(v[0] for v in stats.values()); total_raise = sum(v[1] for v in stats.values())
print("part 1: %d results verified, %d operations raised" % (total_ok, total_raise))
for kind in KINDS:
    for order in ("fo", "of"):
        print("  %-10s %s " % (kind, order) + " ".join("%s:%d/%d" % (op, stats.get((op, order, kind), [0, 0])[0], sum(stats.get((op, order, kind), [0, 0]))) for op in list(ARITH)+list(CMP)))
if total_ok < 20000: fail("too few results verified", total_ok)
done = part2()
print("part 2: %d constraint systems solved by brute force" % done)
if done < 500: fail("too few systems solved", done)

if failures:
    print("%d FAILURES" % len(failures))
    sys.exit(1)
print("OK: property C14 observed to hold everywhere")
sys.exit(0)
