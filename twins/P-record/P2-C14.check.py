#!/usr/bin/env python
"""
Evidence program for change P (negative public divisors in LinCombFxp.__divmod__ / // / %, plus __rdivmod__).

Run as:  PYTHONPATH=<tree> /venv/bin/python P.check.py      (from an empty directory; writes no files)

What is checked (property C14: fixed-point operations equal exact scaled-integer arithmetic, or raise):

  1. SWEEP   every operator (+ - * / // % divmod < <= == != > >=) on every combination of operand kinds
             (secret / public fixed-point, integer secret, secret boolean, int, float, bool) in both orders,
             on negative, fractional and zero values, for several resolutions and bitlengths, is either
             rejected with an exception or returns exactly the representation prescribed by the property
             (computed here with plain Python integers), reads back as representation / 2^r, and every
             R1CS constraint emitted for it holds on the recorded witness (modulo the field order).
  2. MODES   the same for the division operators with public divisors of either sign (the changed code)
             under ignore_errors(True), inside a lazily evaluated if_then_else branch that is taken
             (guard = 1), and inside one that is not taken (guard = 0: the branch value must not leak and all
             constraints must still hold).
  3. BRUTE   for a tiny configuration (resolution 1, bitlength 2) all small witnesses are enumerated for
             divmod by a negative public constant: every assignment of the gadget's private wires (quotient,
             product and remainder wires in a window of small integers, all bit wires in {0,1}) that satisfies
             all emitted constraints yields exactly Python's divmod on the represented numbers.

Exit status 0 iff the property held in all cases.
"""
import os, sys, random, warnings, operator, itertools
from fractions import Fraction

os.environ["PYSNARK_BACKEND"] = "snarkjs"
warnings.simplefilter("ignore")

import pysnark.runtime as rt
rt.autoprove = False                          # never write witness / circuit files
import pysnark.snarkjsbackend as be
import pysnark.fixedpoint as fx
from pysnark.runtime import PrivVal, PubVal, LinComb, ignore_errors
from pysnark.fixedpoint import LinCombFxp, PrivValFxp, PubValFxp
from pysnark.boolean import LinCombBool, PrivValBool
from pysnark.branching import if_then_else

P_MOD = be.snarkjsp
HAS_P = hasattr(LinCombFxp, "__rdivmod__")   # only used for reporting / coverage requirements

failures = []
stats = {}

def fail(msg):
    failures.append(msg)
    if len(failures) <= 25:
        print("VIOLATION:", msg)

# ---------------------------------------------------------------------------------------------
# recording backend helpers
# ---------------------------------------------------------------------------------------------
def reset():
    be.privvals.clear(); be.pubvals.clear(); be.constraints.clear()

def wire_value(w, override=None):
    if override is not None and w in override: return override[w]
    if w == 0: return 1
    return be.pubvals[w - 1] if w > 0 else be.privvals[-w - 1]

def ev(lc, override=None):
    return sum(c * wire_value(w, override) for (w, c) in lc.lc.items()) % P_MOD

def constraints_hold(override=None):
    for (i, (v, w, y)) in enumerate(be.constraints):
        if (ev(v, override) * ev(w, override) - ev(y, override)) % P_MOD != 0:
            return i
    return None

# ---------------------------------------------------------------------------------------------
# operands.  An operand is (kind, n) where n is the *representation* for fixed-point kinds / floats
# and the plain integer for integer kinds.
# ---------------------------------------------------------------------------------------------
FXP_KINDS = ("fxp", "fxppub")
INT_KINDS = ("lc", "bool", "int", "pybool")

def rep_of(kind, n, r):
    """ representation (scaled integer) of the number an operand stands for """
    return n if kind in FXP_KINDS or kind == "float" else int(n) << r

def build(kind, n, r):
    if kind == "fxp":    return PrivValFxp(n, False)
    if kind == "fxppub": return PubValFxp(n, False)
    if kind == "lc":     return PrivVal(n)
    if kind == "bool":   return PrivValBool(n)
    if kind == "int":    return n
    if kind == "pybool": return bool(n)
    if kind == "float":
        f = n / (1 << r)
        assert Fraction(f) == Fraction(n, 1 << r)       # exactly representable
        return f
    raise AssertionError(kind)

def floordiv(a, b):   # exact floor(a/b) on integers, any signs (Python semantics)
    return a // b

CMP = {"<": operator.lt, "<=": operator.le, "==": operator.eq, "!=": operator.ne, ">": operator.gt, ">=": operator.ge}
ARITH = {"+": operator.add, "-": operator.sub, "*": operator.mul, "/": operator.truediv,
         "//": operator.floordiv, "%": operator.mod, "divmod": divmod}
OPS = dict(CMP); OPS.update(ARITH)

def model(op, lk, ln, rk, rn, r):
    """ expected representation(s) according to the property; None if the operation has to raise """
    A, B = rep_of(lk, ln, r), rep_of(rk, rn, r)
    one = 1 << r
    if op == "+": return A + B
    if op == "-": return A - B
    if op == "*":
        if lk in INT_KINDS: return int(ln) * B      # multiplication by integers is exact
        if rk in INT_KINDS: return A * int(rn)
        return floordiv(A * B, one)                 # products are floor(a*b/2^r)
    if op in ("/", "//", "%", "divmod"):
        if B == 0: return None
        if op == "/": return floordiv(A * one, B)   # quotients are floor(a*2^r/b)
        q = floordiv(A, B)                          # Python's // and % on the represented numbers A/2^r, B/2^r
        if op == "//": return q * one
        if op == "%": return A - q * B
        return (q * one, A - q * B)
    return 1 if CMP[op](A, B) else 0                # order of the represented numbers

def result_reps(op, res):
    """ extract representation(s) from a result object; raises AssertionError on a wrongly typed result """
    if op == "divmod":
        assert isinstance(res, (tuple, list)) and len(res) == 2, "divmod result " + repr(res)
        return tuple(result_reps("/", x) for x in res)
    if op in CMP:
        if isinstance(res, LinCombBool): return res.lc.value
        if isinstance(res, LinComb): return res.value
        raise AssertionError("comparison returned " + repr(type(res)))
    assert isinstance(res, LinCombFxp), "arithmetic with a fixed-point operand returned " + repr(type(res))
    return res.lc.value

def readback_ok(res, rep, r):
    """ reading a value back returns representation / 2^r (and the output constraint holds) """
    if isinstance(res, LinCombFxp):
        return Fraction(res.val()) == Fraction(rep, 1 << r)
    return True

def bump(key, what):
    d = stats.setdefault(key, {"ok": 0, "raised": 0})
    d[what] += 1

def describe(op, lk, ln, rk, rn, r, bl, mode):
    return "%s %s %s  [left=%s:%d right=%s:%d resolution=%d bitlength=%d mode=%s]" % (
        Fraction(rep_of(lk, ln, r), 1 << r), op, Fraction(rep_of(rk, rn, r), 1 << r), lk, ln, rk, rn, r, bl, mode)

def run_case(op, lk, ln, rk, rn, r, bl, mode="plain"):
    """ returns True if the operation produced a value, False if it raised """
    fx.resolution = r; rt.bitlength = bl
    reset()
    exp = model(op, lk, ln, rk, rn, r)
    desc = describe(op, lk, ln, rk, rn, r, bl, mode)
    key = (op, lk, rk, (rep_of(rk, rn, r) < 0), mode)
    fn = OPS[op]
    alt_rep = 5 * (1 << r) + 1
    try:
        x = build(lk, ln, r); y = build(rk, rn, r)
        if mode == "plain":
            res = fn(x, y)
        elif mode == "ignore":
            ignore_errors(True)
            try: res = fn(x, y)
            finally: ignore_errors(False)
        else:
            cond = PrivValBool(1 if mode == "guard1" else 0)
            if op == "divmod":
                alt = [PrivValFxp(alt_rep, False), PrivValFxp(alt_rep + 2, False)]
                res = if_then_else(cond, lambda: list(fn(x, y)), alt)
            elif op in CMP:
                res = if_then_else(cond, lambda: fn(x, y), PrivValBool(1))
            else:
                res = if_then_else(cond, lambda: fn(x, y), PrivValFxp(alt_rep, False))
    except Exception as e:
        if rt.guard is not None or rt.ignore_errors() or rt.LinComb.ONE is not rt.LinComb.ONE_SAFE:
            fail("global guard / ignore_errors state not restored after exception: " + desc)
            rt.guard = None; ignore_errors(False); rt.LinComb.ONE = rt.LinComb.ONE_SAFE
        bump(key, "raised")
        return False
    if mode == "guard0":
        exp = ((alt_rep, alt_rep + 2) if op == "divmod" else 1 if op in CMP else alt_rep)
    elif exp is None:
        if mode == "ignore":           # errors were explicitly suppressed: nothing is promised
            bump(key, "raised"); return False
        fail("division by zero did not raise: " + desc); return True
    try:
        got = result_reps(op, res)
    except AssertionError as e:
        fail(str(e) + ": " + desc); return True
    if mode == "ignore" and not plain_succeeds(op, lk, ln, rk, rn, r, bl):
        bump(key, "raised"); return False   # only promised for inputs that are accepted without suppression
    if got != exp:
        fail("wrong value: got representation %s, property demands %s: %s" % (got, exp, desc)); return True
    bad = constraints_hold()
    if bad is not None:
        fail("emitted constraint #%d does not hold on the recorded witness: %s" % (bad, desc)); return True
    if mode in ("plain", "guard1"):
        pairs = zip(res, exp) if op == "divmod" else [(res, exp)]
        for (o, e) in pairs:
            if not readback_ok(o, e, r):
                fail("val() does not read back representation/2^r: " + desc)
        bad = constraints_hold()
        if bad is not None:
            fail("output constraint #%d does not hold: %s" % (bad, desc))
    bump(key, "ok")
    return True

_plain_cache = {}
def plain_succeeds(op, lk, ln, rk, rn, r, bl):
    k = (op, lk, ln, rk, rn, r, bl)
    if k not in _plain_cache:
        saved = (list(be.privvals), list(be.pubvals), list(be.constraints))
        reset()
        try:
            OPS[op](build(lk, ln, r), build(rk, rn, r)); _plain_cache[k] = True
        except Exception:
            _plain_cache[k] = False
        be.privvals[:], be.pubvals[:], be.constraints[:] = saved
    return _plain_cache[k]

# ---------------------------------------------------------------------------------------------
# value sets
# ---------------------------------------------------------------------------------------------
def fxp_reps(r):
    one = 1 << r
    s = {0, 1, -1, 3, -3, one, -one, one + 1, -one - 1, 5 * one // 2, -(5 * one // 2), 7 * one + 3, -7 * one - 3,
         3 * one // 4, -(3 * one // 4), 3 * one, -3 * one}
    return sorted(s)

def values(kind, r):
    if kind in FXP_KINDS or kind == "float": return fxp_reps(r)
    if kind in ("bool", "pybool"): return [0, 1]
    return [0, 1, -1, 2, -2, 3, -3, 7, -7]

CONFIGS = [(8, 16), (0, 16), (2, 20), (12, 32), (5, 12)]
DIV_OPS = ("//", "%", "divmod", "/")
RIGHT_KINDS = ("fxp", "fxppub", "lc", "bool", "int", "float", "pybool")
LEFT_FOR_FXP_RIGHT = ("lc", "bool", "int", "float", "pybool")

def kind_pairs():
    for lk in FXP_KINDS:
        for rk in RIGHT_KINDS:
            yield (lk, rk)
    for lk in LEFT_FOR_FXP_RIGHT:
        for rk in FXP_KINDS:
            yield (lk, rk)

def sweep():
    rnd = random.Random(14)
    n = 0
    for (r, bl) in CONFIGS:
        # (a) the changed code: division operators with public divisors, full sweep, all modes
        for op in DIV_OPS:
            for lk in FXP_KINDS:
                for rk in ("int", "float", "pybool"):
                    for ln in values(lk, r):
                        for rn in values(rk, r):
                            for mode in ("plain", "ignore", "guard1", "guard0"):
                                if mode != "plain" and lk == "fxppub": continue
                                run_case(op, lk, ln, rk, rn, r, bl, mode); n += 1
        # (b) reflected division (int / float / secret dividend, fixed-point divisor incl. new __rdivmod__)
        for op in DIV_OPS:
            for lk in LEFT_FOR_FXP_RIGHT:
                for ln in values(lk, r):
                    for rn in values("fxp", r):
                        run_case(op, lk, ln, "fxp", rn, r, bl, "plain"); n += 1
        # (c) everything else: random sample of the full grid, every mode
        grid = [(op, lk, rk) for op in OPS for (lk, rk) in kind_pairs()]
        for mode in ("plain", "ignore", "guard1", "guard0"):
            for _ in range(1200):
                (op, lk, rk) = rnd.choice(grid)
                run_case(op, lk, rnd.choice(values(lk, r)), rk, rnd.choice(values(rk, r)), r, bl, mode); n += 1
    return n

# ---------------------------------------------------------------------------------------------
# brute force over small witnesses
# ---------------------------------------------------------------------------------------------
def brute():
    r, bl, W = 1, 2, 7
    fx.resolution = r; rt.bitlength = bl
    total = sat = 0
    for a in range(-3, 4):
        for (dk, dn) in (("float", -1), ("float", -2), ("float", -3), ("int", -1), ("float", 2), ("float", 3)):
            reset()
            x = PrivValFxp(a, False)
            first_free = len(be.privvals)
            try:
                q, m = divmod(x, build(dk, dn, r))
            except Exception:
                continue
            d = rep_of(dk, dn, r)
            free = [-(i + 1) for i in range(first_free, len(be.privvals))]
            honest = {w: wire_value(w) for w in free}
            # wires that the circuit itself forces to be bits: w * (1 - w) = 0
            bitwires = set()
            for (v, w, y) in be.constraints:
                if len(v.lc) == 1 and not y.lc:
                    (wv, cv), = v.lc.items()
                    if wv in free and cv == 1 and {k: c for k, c in w.lc.items() if c} == {0: 1, wv: -1}:
                        bitwires.add(wv)
            for w in free:
                if w in bitwires and honest[w] not in (0, 1):
                    fail("brute: honest bit wire is not a bit")
            others = [w for w in free if w not in bitwires]
            if len(others) > 3:
                fail("brute: unexpected number of non-bit wires %d (a=%d d=%d)" % (len(others), a, d)); continue
            bits = sorted(bitwires)
            # compile constraints
            cons = [tuple(tuple(l.lc.items()) for l in c) for c in be.constraints]
            qlc, mlc = tuple(q.lc.lc.lc.items()), tuple(m.lc.lc.lc.items())
            expq, expm = (a // d) << r, a - (a // d) * d
            fixed = {0: 1}
            for i in range(first_free): fixed[-(i + 1)] = be.privvals[i]
            for i, v in enumerate(be.pubvals): fixed[i + 1] = v
            def evl(items, asg): return sum(c * asg[w] for (w, c) in items) % P_MOD
            nsat = 0
            for ov in itertools.product(range(-W, W + 1), repeat=len(others)):
                asg = dict(fixed); asg.update(zip(others, ov))
                for bv in itertools.product((0, 1), repeat=len(bits)):
                    asg.update(zip(bits, bv)); total += 1
                    if all((evl(v, asg) * evl(w, asg) - evl(y, asg)) % P_MOD == 0 for (v, w, y) in cons):
                        nsat += 1
                        gq, gm = evl(qlc, asg), evl(mlc, asg)
                        if (gq - expq) % P_MOD or (gm - expm) % P_MOD:
                            fail("brute: witness satisfying all constraints gives divmod(%s, %s) = (%s, %s), Python: (%s, %s)" % (
                                Fraction(a, 2), Fraction(d, 2), gq, gm, expq, expm))
            if nsat == 0:
                fail("brute: not even the honest witness satisfies the constraints (a=%d, d=%d)" % (a, d))
            sat += nsat
    return total, sat

def main():
    n = sweep()
    nsweep = len(failures)
    total, sat = brute()
    neg_div_ok = sum(d["ok"] for (k, d) in stats.items() if k[0] in ("//", "%", "divmod") and k[2] in ("int", "float") and k[3])
    neg_div_raised = sum(d["raised"] for (k, d) in stats.items() if k[0] in ("//", "%", "divmod") and k[2] in ("int", "float") and k[3])
    ok = sum(d["ok"] for d in stats.values()); raised = sum(d["raised"] for d in stats.values())
    print("sweep: %d cases, %d produced the exact value with all constraints satisfied, %d raised, %d VIOLATIONS" % (n, ok, raised, nsweep))
    print("  // %% divmod by a negative public divisor: %d produced a value, %d raised" % (neg_div_ok, neg_div_raised))
    nbrute = sum(1 for f in failures if f.startswith("brute:"))
    print("brute force: %d candidate witnesses, %d satisfy all constraints, %d of those contradict Python's divmod" % (total, sat, nbrute))
    if HAS_P and neg_div_ok == 0:
        fail("tree has change P but the negative-divisor path was never exercised successfully")
    if failures:
        print("FAILED: %d violations of property C14" % len(failures))
        sys.exit(1)
    print("OK: property C14 held in all cases" + (" (tree with P)" if HAS_P else " (tree without P)"))
    sys.exit(0)

main()
