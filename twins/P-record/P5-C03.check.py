#!/usr/bin/env python
"""
P.check.py -- property C03 ("assertions and declared types are enforced inside the circuit")
checked against the tree that is on PYTHONPATH.

How: a recording backend over a SMALL prime field is installed under the name
pysnark.nobackend before pysnark.runtime is imported.  Every assertion kind is traced with
its operands being free witness wires; the rank-1 constraints the backend received are then
decided by exhaustive search over the field for EVERY assignment of the operand wires
(all auxiliary witnesses are existentially searched, i.e. every witness completion is
considered).  The circuit has to be satisfiable exactly for those operand assignments for
which the asserted relation (same bounds, same width as the run-time check) is true.
Besides that, for small integer operands:
  - the call is accepted (no exception) exactly when the relation is true,
  - the constraints emitted do not depend on the operand values (also under ignore_errors),
  - the witness the library itself computes satisfies the constraints iff the relation is true.

Exit status 0: the property was observed everywhere; 1 otherwise.
"""
import itertools
import sys
import types

# --------------------------------------------------------------------------- backend

class LC:
    """ sparse linear combination {wire: coefficient}; wire 0 is the constant one """
    __slots__ = ("d",)
    def __init__(self, d): self.d = d
    def __add__(self, other):
        d = dict(self.d)
        for (k, v) in other.d.items(): d[k] = d.get(k, 0) + v
        return LC(d)
    def __sub__(self, other): return self + (-other)
    def __mul__(self, k): return LC({w: v * k for (w, v) in self.d.items()})
    def __neg__(self): return self * -1

be = types.ModuleType("pysnark.nobackend")
be.P = 67
be.vals = [1]
be.cons = []

def _newwire(val):
    be.vals.append(val)
    return LC({len(be.vals) - 1: 1})

be.privval = _newwire
be.pubval = _newwire
be.zero = lambda: LC({})
be.one = lambda: LC({0: 1})
be.fieldinverse = lambda val: pow(val % be.P, be.P - 2, be.P)
be.get_modulus = lambda: be.P
be.add_constraint = lambda v, w, y: be.cons.append((v.d, w.d, y.d))
be.prove = lambda: None

sys.modules["pysnark.nobackend"] = be
import pysnark
pysnark.nobackend = be

import pysnark.runtime as rt
from pysnark.runtime import LinComb, PrivVal, guarded
from pysnark.boolean import LinCombBool
import pysnark.fixedpoint as fx
from pysnark.fixedpoint import LinCombFxp
from pysnark.pack import PackIntMod

assert rt.backend is be, "recording backend not in effect"
rt.autoprove = False

# --------------------------------------------------------------------------- solver

def canon(cons, P):
    def c1(d): return tuple(sorted((w, k % P) for (w, k) in d.items() if k % P))
    return tuple((c1(a), c1(b), c1(c)) for (a, b, c) in cons)

def holds(ccons, vals, P):
    """ indices of the constraints that vals (complete assignment) violates """
    bad = []
    for (ix, (A, B, C)) in enumerate(ccons):
        a = sum(k * vals[w] for (w, k) in A)
        b = sum(k * vals[w] for (w, k) in B)
        c = sum(k * vals[w] for (w, k) in C)
        if (a * b - c) % P: bad.append(ix)
    return bad

def solve(ccons, nwires, fixed, P):
    """ Is there an assignment of all wires that extends `fixed` and satisfies ccons?
        Exhaustive depth-first search over the field, wires in order of creation;
        returns a witness (list) or None. """
    free = [w for w in range(1, nwires) if w not in fixed]
    pos = {w: i for (i, w) in enumerate(free)}
    levels = [[] for _ in free]
    vals = [None] * nwires
    vals[0] = 1
    for (w, v) in fixed.items(): vals[w] = v % P

    def ev(L): return sum(k * vals[w] for (w, k) in L)
    def ok(c): return (ev(c[0]) * ev(c[1]) - ev(c[2])) % P == 0

    for c in ccons:
        lv = max([pos[w] for part in c for (w, _) in part if w in pos], default=-1)
        if lv < 0:
            if not ok(c): return None
        else:
            levels[lv].append(c)

    def rec(i):
        if i == len(free): return True
        w = free[i]
        cands = range(P)
        for (A, B, C) in levels[i]:
            # w only on the right-hand side: this constraint leaves one candidate
            if all(x != w for (x, _) in A) and all(x != w for (x, _) in B):
                kc = dict(C)[w]
                vals[w] = 0
                r = (ev(A) * ev(B) - ev(C)) % P
                cands = [r * pow(kc, P - 2, P) % P]
                break
        for x in cands:
            vals[w] = x
            if all(ok(c) for c in levels[i]) and rec(i + 1): return True
        vals[w] = None
        return False

    return list(vals) if rec(0) else None

# --------------------------------------------------------------------------- tracing

def trace(fn, opvals, ignore=False):
    """ Runs fn on fresh witness wires holding opvals.
        Returns (accepted, exception, constraints, witness) """
    be.vals = [1]
    be.cons = []
    rt.guard = None
    LinComb.ONE = LinComb.ONE_SAFE
    rt.ignore_errors(ignore)
    ops = [PrivVal(v) for v in opvals]
    exc = None
    try:
        fn(*ops)
    except (AssertionError, ValueError) as e:
        exc = e
    finally:
        rt.ignore_errors(False)
        rt.guard = None
        LinComb.ONE = LinComb.ONE_SAFE
    return (exc is None, exc, list(be.cons), list(be.vals))

failures = []
stats = {"circuits": 0, "assignments": 0, "samples": 0, "skipped": 0}

def fail(msg):
    failures.append(msg)
    print("FAIL:", msg)

def check_kind(name, nops, fn, rel, P, good, samples=(), ncons=None, always_raises_on_bad=False, fixed_sets=None):
    """
    name    description
    fn      function on nops LinCombs performing the assertion
    rel     relation on nops field elements (ints in [0,P)) that is to be enforced
    good    operand values for which the relation holds: reference trace
    samples integer operand tuples to run the library on (accept / reject, honest witness)
    ncons   expected number of constraints, if pinned
    fixed_sets  per-operand iterable of field values to enumerate (default: whole field)
    """
    be.P = P
    (acc, exc, cons, wit) = trace(fn, good)
    if not acc:
        fail("%s: reference operands %s rejected: %r" % (name, good, exc)); return
    ref = canon(cons, P)
    nw = len(wit)
    stats["circuits"] += 1
    if ncons is not None and len(cons) != ncons:
        fail("%s: %d constraints, expected %d" % (name, len(cons), ncons))
    if holds(ref, wit, P):
        fail("%s: library witness for %s violates constraints %s" % (name, good, holds(ref, wit, P)))

    # (1) exhaustive over the operand wires, existential over everything else
    doms = fixed_sets if fixed_sets is not None else [range(P)] * nops
    for ops in itertools.product(*doms):
        stats["assignments"] += 1
        want = bool(rel(*ops))
        sol = solve(ref, nw, {i + 1: ops[i] for i in range(nops)}, P)
        if sol is not None and holds(ref, sol, P): fail("%s: solver bug" % name)
        if (sol is not None) != want:
            fail("%s (p=%d): operands %s: relation is %s but circuit is %s%s" % (name, P, ops, want,
                 "satisfiable" if sol is not None else "unsatisfiable", "" if sol is None else " by " + str(sol)))
            return

    # (2) library run on integer operands: acceptance, shape, own witness
    for ops in samples:
        want = bool(rel(*[v % P for v in ops]))
        stats["samples"] += 1
        (acc, exc, cons, wit) = trace(fn, ops)
        if acc != want:
            fail("%s: operands %s: relation is %s but call %s" % (name, ops, want, "accepted" if acc else "raised %r" % exc))
        if acc:
            if canon(cons, P) != ref: fail("%s: operands %s: constraints differ from reference trace" % (name, ops))
            elif holds(ref, wit, P): fail("%s: operands %s: accepted but library witness violates constraints" % (name, ops))
        (acc, exc, cons, wit) = trace(fn, ops, ignore=True)
        if not acc:
            if always_raises_on_bad and not want: continue
            fail("%s: operands %s: raised %r although errors are ignored" % (name, ops, exc)); continue
        if canon(cons, P) != ref: fail("%s: operands %s (errors ignored): constraints differ from reference trace" % (name, ops))
        elif (not holds(ref, wit, P)) != want:
            fail("%s: operands %s (errors ignored): relation is %s but library witness %s" % (name, ops, want,
                 "satisfies" if not holds(ref, wit, P) else "violates"))

def ints(lo, hi): return list(range(lo, hi + 1))

# --------------------------------------------------------------------------- the assertion kinds

def main():
    # ---- non-negative with explicit width, and n-bit declaration (to_bits), p=67, all widths that fit
    for bits in range(0, 7):
        w = 1 << bits
        rt.bitlength = 3    # the explicit width is to win over the global one
        check_kind("assert_positive(bits=%d)" % bits, 1, lambda x: x.assert_positive(bits), lambda x: x < w, 67,
                   (w - 1,), [(v,) for v in ints(-3, w + 2)], ncons=bits + 1)
        check_kind("assert_positive(%d, err=..)" % bits, 1, lambda x: x.assert_positive(bits, err="no"), lambda x: x < w, 67,
                   (0,), [(v,) for v in (-1, 0, w - 1, w)], ncons=bits + 1)
        check_kind("to_bits(%d)" % bits, 1, lambda x: x.to_bits(bits), lambda x: x < w, 67,
                   (w - 1,), [(v,) for v in ints(-3, w + 2)], ncons=bits + 1)
    # ---- same, width from the global bitlength
    for bl in range(1, 7):
        w = 1 << bl
        rt.bitlength = bl
        check_kind("assert_positive() bitlength=%d" % bl, 1, lambda x: x.assert_positive(), lambda x: x < w, 67,
                   (w - 1,), [(v,) for v in ints(-2, w + 1)], ncons=bl + 1)
        check_kind("LinCombFxp.assert_positive() bitlength=%d" % bl, 1, lambda x: LinCombFxp(x, False).assert_positive(),
                   lambda x: x < w, 67, (w - 1,), [(v,) for v in ints(-2, w + 1)], ncons=bl + 1)
    # a second prime, widths right up to the field size
    for bits in range(0, 4):
        w = 1 << bits
        check_kind("assert_positive(bits=%d) p=11" % bits, 1, lambda x: x.assert_positive(bits), lambda x: x < w, 11, (w - 1,))

    # ---- orderings between two witnesses: exhaustive over both operands
    for (P, bls) in ((17, (1, 2, 3, 4)), (37, (5,))):
        for bl in bls:
            w = 1 << bl
            rt.bitlength = bl
            smp = []
            check_kind("assert_lt bitlength=%d" % bl, 2, lambda a, b: a.assert_lt(b), lambda a, b: (b - a - 1) % P < w, P, (0, 1), smp, ncons=bl + 1)
            check_kind("assert_le bitlength=%d" % bl, 2, lambda a, b: a.assert_le(b), lambda a, b: (b - a) % P < w, P, (0, 0), smp, ncons=bl + 1)
            check_kind("assert_gt bitlength=%d" % bl, 2, lambda a, b: a.assert_gt(b), lambda a, b: (a - b - 1) % P < w, P, (1, 0), smp, ncons=bl + 1)
            check_kind("assert_ge bitlength=%d" % bl, 2, lambda a, b: a.assert_ge(b), lambda a, b: (a - b) % P < w, P, (0, 0), smp, ncons=bl + 1)
    # ---- the same over p=67: first operand exhaustive, second from a few values, integer samples
    for bl in (1, 3, 5):
        w = 1 << bl
        rt.bitlength = bl
        smp = [(a, b) for a in ints(-2, 5) for b in ints(-2, 5)] + [(0, w), (0, w + 1), (w, 0), (w + 1, 0), (w - 1, 0), (0, w - 1)]
        fs = [range(67), (0, 1, w, 66)]
        check_kind("assert_lt bitlength=%d p=67" % bl, 2, lambda a, b: a.assert_lt(b), lambda a, b: (b - a - 1) % 67 < w, 67, (0, 1), smp, fixed_sets=fs)
        check_kind("assert_le bitlength=%d p=67" % bl, 2, lambda a, b: a.assert_le(b), lambda a, b: (b - a) % 67 < w, 67, (0, 0), smp, fixed_sets=fs)
        check_kind("assert_gt bitlength=%d p=67" % bl, 2, lambda a, b: a.assert_gt(b), lambda a, b: (a - b - 1) % 67 < w, 67, (1, 0), smp, fixed_sets=fs)
        check_kind("assert_ge bitlength=%d p=67" % bl, 2, lambda a, b: a.assert_ge(b), lambda a, b: (a - b) % 67 < w, 67, (0, 0), smp, fixed_sets=fs)
    # ---- orderings against constants, p=67, integer samples around the boundaries
    for bl in (1, 2, 3, 4, 5):
        w = 1 << bl
        rt.bitlength = bl
        for c in (0, 1, 5, w - 1, w):
            smp = [(v,) for v in ints(c - w - 2, c + w + 2)]
            check_kind("assert_lt(%d) bitlength=%d" % (c, bl), 1, lambda a: a.assert_lt(c), lambda a: (c - a - 1) % 67 < w, 67, (c - 1,), smp)
            check_kind("assert_le(%d) bitlength=%d" % (c, bl), 1, lambda a: a.assert_le(c), lambda a: (c - a) % 67 < w, 67, (c,), smp)
            check_kind("assert_gt(%d) bitlength=%d" % (c, bl), 1, lambda a: a.assert_gt(c), lambda a: (a - c - 1) % 67 < w, 67, (c + 1,), smp)
            check_kind("assert_ge(%d) bitlength=%d" % (c, bl), 1, lambda a: a.assert_ge(c), lambda a: (a - c) % 67 < w, 67, (c,), smp)
            check_kind("Fxp.assert_lt(Fxp) bitlength=%d" % bl, 1, lambda a: LinCombFxp(a, False).assert_lt(LinCombFxp(rt.ConstVal(c), False)),
                       lambda a: (c - a - 1) % 67 < w, 67, (c - 1,), smp)

    # ---- range: three witnesses over a tiny field, and constant bounds over p=67
    for bl in (1, 2, 3):
        w = 1 << bl
        rt.bitlength = bl
        check_kind("assert_range(wit,wit) bitlength=%d" % bl, 3, lambda x, lo, hi: x.assert_range(lo, hi),
                   lambda x, lo, hi: (x - lo) % 11 < w and (hi - x - 1) % 11 < w, 11, (1, 1, 2), ncons=2 * bl + 2)
    for bl in (2, 3, 4):
        w = 1 << bl
        rt.bitlength = bl
        for (lo, hi) in ((0, 1), (0, w), (2, 7), (3, 3), (5, 4), (1, w + 1), (0, w + 3)):
            smp = [(v,) for v in ints(lo - 3, hi + 3)]
            rel = lambda x: (x - lo) % 67 < w and (hi - x - 1) % 67 < w
            good = ([(x,) for x in range(67) if rel(x)] + [None])[0]
            if good is None:
                # no operand is accepted for an empty range: take the shape from an error-ignoring trace
                be.P = 67
                (_, _, cons, wit) = trace(lambda x: x.assert_range(lo, hi), (lo,), ignore=True)
                ref = canon(cons, 67)
                for x in range(67):
                    stats["assignments"] += 1
                    sol = solve(ref, len(wit), {1: x}, 67)
                    if (sol is not None) != bool(rel(x)): fail("assert_range(%d,%d) bl=%d: x=%d relation %s, circuit disagrees" % (lo, hi, bl, x, rel(x)))
                for (v,) in smp:
                    (acc, _, _, _) = trace(lambda x: x.assert_range(lo, hi), (v,))
                    if acc != bool(rel(v % 67)): fail("assert_range(%d,%d) bl=%d: x=%d acceptance wrong" % (lo, hi, bl, v))
                continue
            check_kind("assert_range(%d,%d) bitlength=%d" % (lo, hi, bl), 1, lambda x: x.assert_range(lo, hi), rel, 67, good, smp, ncons=2 * bl + 2)
    # fixed point range, bounds given as numbers (scaled by 2^resolution)
    fx.resolution = 1
    rt.bitlength = 3
    check_kind("LinCombFxp.assert_range(1,3.5) resolution=1", 1, lambda x: LinCombFxp(x, False).assert_range(1, 3.5),
               lambda x: (x - 2) % 67 < 8 and (7 - x - 1) % 67 < 8, 67, (2,), [(v,) for v in ints(-2, 10)], ncons=8)
    fx.resolution = 8

    # ---- equalities / zero tests / Boolean declaration
    rt.bitlength = 4
    sm2 = [(a, b) for a in ints(-2, 3) for b in ints(-2, 3)]
    check_kind("assert_eq", 2, lambda a, b: a.assert_eq(b), lambda a, b: a == b, 17, (3, 3), ncons=1)
    check_kind("assert_ne", 2, lambda a, b: a.assert_ne(b), lambda a, b: a != b, 17, (3, 4), ncons=1)
    check_kind("assert_eq p=67", 2, lambda a, b: a.assert_eq(b), lambda a, b: a == b, 67, (3, 3), sm2, fixed_sets=[range(67), (0, 1, 66)])
    check_kind("assert_ne p=67", 2, lambda a, b: a.assert_ne(b), lambda a, b: a != b, 67, (3, 4), sm2, fixed_sets=[range(67), (0, 1, 66)])
    check_kind("assert_zero", 1, lambda a: a.assert_zero(), lambda a: a == 0, 67, (0,), [(v,) for v in ints(-2, 2)], ncons=1)
    check_kind("assert_nonzero", 1, lambda a: a.assert_nonzero(), lambda a: a != 0, 67, (5,), [(v,) for v in ints(-2, 2)], ncons=1)
    check_kind("LinCombBool(x)", 1, lambda a: LinCombBool(a), lambda a: a in (0, 1), 67, (1,), [(v,) for v in ints(-2, 3)], ncons=1,
               always_raises_on_bad=True)

    # ---- users of the non-negativity gadget: packing and division
    for m in (2, 3, 5, 7, 8):
        k = (m - 1).bit_length()
        rt.bitlength = 3
        check_kind("PackIntMod(%d).unpack" % m, max(k, 1), lambda *bits: PackIntMod(m).unpack(list(bits), 0),
                   lambda *bits: (m - sum(b << i for (i, b) in enumerate(bits[:k])) - 1) % 11 < 8, 11, (0,) * max(k, 1))
    for bl in (2, 3):
        w = 1 << bl
        rt.bitlength = bl
        def divrel(a, b, P=11):
            return any((q * b - (a - r)) % P == 0 for q in range(P) for r in range(w) if (b - r - 1) % P < w)
        check_kind("divmod bitlength=%d" % bl, 2, lambda a, b: divmod(a, b), divrel, 11, (7, 2), ncons=2 * bl + 4)

    # ---- inside a conditional branch: enforced iff the branch condition is one
    for bits in (1, 2, 3, 4, 5):
        w = 1 << bits
        rt.bitlength = bits
        for g0 in (0, 1):
            check_kind("guarded assert_positive(%d), traced with guard=%d" % (bits, g0), 2,
                       lambda g, x: guarded(g)(lambda: x.assert_positive(bits))(), lambda g, x: g == 0 or x < w, 67, (g0, w - 1),
                       fixed_sets=[(0, 1), range(67)])
            check_kind("guarded assert_lt bitlength=%d, traced with guard=%d" % (bits, g0), 3,
                       lambda g, a, b: guarded(g)(lambda: a.assert_lt(b))(), lambda g, a, b: g == 0 or (b - a - 1) % 67 < w, 67, (g0, 2, 3),
                       fixed_sets=[(0, 1), range(67), (0, 3, w, 66)])
    # library run inside a branch: accepted iff (guard off or relation)
    be.P = 67
    rt.bitlength = 3
    for g0 in (0, 1):
        for v in ints(-2, 10):
            (acc, exc, cons, wit) = trace(lambda g, x: guarded(g)(lambda: x.assert_positive())(), (g0, v))
            want = g0 == 0 or 0 <= v < 8
            stats["samples"] += 1
            if acc != want: fail("guarded assert_positive: guard=%d value=%d: accepted=%s" % (g0, v, acc))
            if acc and holds(canon(cons, 67), wit, 67): fail("guarded assert_positive: guard=%d value=%d: library witness violates constraints" % (g0, v))

    print("circuits analysed: %(circuits)d, operand assignments decided exhaustively: %(assignments)d, library runs on samples: %(samples)d" % stats)
    if failures:
        print("%d FAILURES" % len(failures))
        return 1
    print("property C03 observed to hold everywhere")
    return 0

if __name__ == "__main__":
    sys.exit(main())
