# Evidence program for property C08 (guard state is restored on every exit path
# and nests as a conjunction).  Run as
#     PYTHONPATH=<tree> /venv/bin/python P.check.py
# Exit status 0 <=> the property held in every case that was tried.
#
# The program installs a *recording* backend (every wire gets its value stored,
# every constraint is kept as three sparse vectors over a prime field), so that
#   - every emitted constraint can be evaluated on the recorded witness,
#   - the wire that is the active guard / the active constant "one" can be
#     evaluated, not just the Python-side .value attribute.
#
# What is checked
#  A. random programs (several thousand) made of nested guarded regions in all
#     available forms (decorator, `with guarded(c):` when the tree supports it,
#     one guarded object entered recursively, lazy if_then_else branches,
#     add_guard/restore_guard by hand, BranchingValues _if/_endif, constant
#     guards), guard values 0/1 (and junk values under ignore_errors(True)),
#     exceptions raised at arbitrary statements (own exceptions, failing library
#     checks, illegal guards), try/except at arbitrary levels:
#       * after a region is left - normally or by exception - guard,
#         _ignore_errors, LinComb.ONE are the objects they were before,
#       * inside, guard.value, the value of the guard *wire*, LinComb.ONE,
#         _ignore_errors and is_guard() are what the conjunction of the
#         enclosing conditions prescribes; constants are multiples of the guard,
#       * a failing check raises iff all enclosing conditions are 1 (and the
#         user did not ask for ignore_errors),
#       * all constraints emitted hold on the recorded witness (honest runs).
#  B. abort-at-every-statement: a fixed three-level nest, every combination of
#     region forms, the exception injected at every statement index in turn.
#  C. enforcement = conjunction, on the constraint system: for every form
#     combination up to depth 3 and every assignment of 0/1 to the conditions a
#     violated assertion in the innermost region leaves the system satisfiable
#     by the recorded witness iff some enclosing condition is 0.
#  D. re-entrancy / failure in __enter__ of the context-manager form.

import os, sys, types, random, itertools

MOD = 21888242871839275222246405745257275088548364400416034343698204186575808495617

# ---------------------------------------------------------------- backend ----
be = types.ModuleType("pysnark.nobackend")

class LC:
    __slots__ = ("d",)
    def __init__(self, d): self.d = d
    def __add__(self, o):
        d = dict(self.d)
        for k, v in o.d.items():
            d[k] = (d.get(k, 0) + v) % MOD
        return LC(d)
    def __sub__(self, o): return self + (-o)
    def __neg__(self): return LC({k: (-v) % MOD for k, v in self.d.items()})
    def __mul__(self, c):
        assert isinstance(c, int)
        return LC({k: (v * c) % MOD for k, v in self.d.items()})

wires = [1]          # wire 0 is the constant one
constraints = []

def _new(val):
    wires.append(val % MOD)
    return LC({len(wires) - 1: 1})

be.LC = LC
be.privval = _new
be.pubval = _new
be.zero = lambda: LC({})
be.one = lambda: LC({0: 1})
be.fieldinverse = lambda v: pow(v % MOD, MOD - 2, MOD)
be.get_modulus = lambda: MOD
be.add_constraint = lambda a, b, c: constraints.append((a, b, c))
be.prove = lambda: None
sys.modules["pysnark.nobackend"] = be
os.environ["PYSNARK_BACKEND"] = "nobackend"

import pysnark.runtime as rt
from pysnark.runtime import LinComb, PrivVal, add_guard, restore_guard, guarded, is_guard
from pysnark.boolean import LinCombBool, PrivValBool
from pysnark.branching import if_then_else, BranchingValues, _if, _endif
assert rt.backend is be, "recording backend not picked up"
rt.autoprove = False

def ev(lc): return sum(c * wires[k] for k, c in lc.d.items()) % MOD
def holds(c): return (ev(c[0]) * ev(c[1]) - ev(c[2])) % MOD == 0
def reset():
    del wires[1:]
    del constraints[:]

HAVE_WITH = hasattr(guarded(1), "__enter__")
ONE0 = LinComb.ONE

failures = []
def fail(msg):
    failures.append(msg)
    if len(failures) <= 15: print("PROPERTY VIOLATED:", msg)

def state(): return (rt.guard, rt._ignore_errors, LinComb.ONE)
def same(a, b): return a[0] is b[0] and a[1] == b[1] and a[2] is b[2]
def show(s): return "(guard=%r, ignore_errors=%r, ONE=%s)" % (s[0], s[1], "plain" if s[2] is ONE0 else repr(s[2]))

class Boom(Exception): pass

# --------------------------------------------------- A. random programs ------
class Run:
    def __init__(self, rnd, user_ignore, junk):
        self.rnd, self.user_ignore, self.junk = rnd, user_ignore, junk
        self.shared = {}
        self.nregions = 0

    # --- expected state inside, from the list of enclosing LinComb cond values
    def check_inside(self, conds, where):
        g = rt.guard
        if not conds:
            if g is not None: fail("%s: guard %r active outside all regions" % (where, g))
            if LinComb.ONE is not ONE0: fail("%s: constants redefined outside all regions" % where)
            if rt._ignore_errors != self.user_ignore: fail("%s: ignore_errors=%r outside all regions" % (where, rt._ignore_errors))
            return
        ref = conds[0]
        for c in conds[1:]: ref = (ref & c) & ((1 << rt.bitlength) - 1)
        if g is None: return fail("%s: no guard active under conditions %r" % (where, conds))
        if g.value != ref: fail("%s: guard value %r, conjunction of %r is %r" % (where, g.value, conds, ref))
        if all(c in (0, 1) for c in conds):
            if ev(g.lc) != ref: fail("%s: guard wire evaluates to %r, conjunction of %r is %r" % (where, ev(g.lc), conds, ref))
            if is_guard() != all(c == 1 for c in conds): fail("%s: is_guard()=%r under %r" % (where, is_guard(), conds))
            five = LinComb._ensurelc(5)
            if ev(five.lc) != 5 * ref: fail("%s: constant 5 evaluates to %r under %r" % (where, ev(five.lc), conds))
        if LinComb.ONE is not g: fail("%s: LinComb.ONE is not the active guard" % where)
        exp_ign = self.user_ignore or any(c == 0 for c in conds)
        if rt._ignore_errors != exp_ign: fail("%s: ignore_errors=%r under %r (user mode %r)" % (where, rt._ignore_errors, conds, self.user_ignore))

    # --- program generation
    def gen_body(self, depth, protected=False):
        # protected: some enclosing region puts the state back when an exception passes
        n = self.rnd.randint(0, 4 if depth < 4 else 2)
        return [self.gen_stmt(depth, protected) for _ in range(n)]

    def gen_stmt(self, depth, protected):
        r = self.rnd.random()
        if depth < 5 and r < 0.45 and self.nregions < 14:
            self.nregions += 1
            forms = ["dec", "dec", "with", "shared", "ite_t", "ite_f", "manual", "dangling", "bif", "const"]
            form = self.rnd.choice(forms)
            if form in ("dangling", "bif") and not protected: form = "manual"
            if form == "const": c = self.rnd.choice([1, 1, 1, 0, 2])
            elif self.junk and form not in ("ite_t", "ite_f") and self.rnd.random() < 0.3:
                c = self.rnd.choice([2, 3, -1, 70000, 65535])
            else: c = self.rnd.choice([0, 1, 1])
            return ("region", form, c, self.gen_body(depth + 1, protected or form not in ("dangling", "bif")))
        if r < 0.55: return ("try", self.gen_body(depth + 1, protected))
        if r < 0.65: return ("raise",)
        if r < 0.80: return ("bad", self.rnd.randrange(5))
        return ("ok", self.rnd.randrange(3))

    # --- execution
    def run_body(self, body, conds, where):
        at_entry = state()
        self.check_inside(conds, where)
        for i, st in enumerate(body):
            self.run_stmt(st, conds, "%s.%d" % (where, i))
            if not same(state(), at_entry):
                fail("%s.%d: statement %s returned with state %s, was %s" % (where, i, st[0], show(state()), show(at_entry)))
            self.check_inside(conds, where)

    def run_stmt(self, st, conds, where):
        kind = st[0]
        if kind == "ok":
            if st[1] == 0: PrivVal(3) * PrivVal(4)
            elif st[1] == 1: PrivVal(5).assert_positive()
            else: (PrivVal(6) / PrivVal(3)).assert_nonzero()
        elif kind == "raise":
            raise Boom(where)
        elif kind == "bad":
            should_raise = not self.user_ignore and all(c != 0 for c in conds)
            try:
                k = st[1]
                if k == 0: PrivVal(3).assert_zero()
                elif k == 1: PrivVal(7) / PrivVal(2)
                elif k == 2: PrivVal(-1).to_bits()
                elif k == 3: PrivVal(9).assert_lt(PrivVal(4))
                else: PrivVal(0).assert_nonzero()
            except (AssertionError, ValueError):
                if not should_raise: fail("%s: failing check %d raised although errors are to be suppressed (conds %r)" % (where, st[1], conds))
                raise
            else:
                if should_raise: fail("%s: failing check %d was suppressed although all guards are 1 (conds %r)" % (where, st[1], conds))
        elif kind == "try":
            before = state()
            try:
                self.run_body(st[1], conds, where + "t")
            except Exception as e:
                if getattr(e, "_dangling", False): raise   # passed a region nobody closes: an enclosing region has to clean up
                if not same(state(), before):
                    fail("%s: exception %r left state %s, was %s" % (where, e, show(state()), show(before)))
        elif kind == "region":
            self.run_region(st, conds, where)

    def run_region(self, st, conds, where):
        _, form, c, body = st
        before = state()
        if form == "with" and not HAVE_WITH: form = "dec"
        if form == "shared" and not HAVE_WITH: form = "manual"
        restoring = form not in ("dangling", "bif")
        try:
            if form == "const":
                inner = conds
                guarded(c)(lambda: self.run_body(body, inner, where + "c"))()
            elif form == "dec":
                cw = PrivVal(c)
                guarded(cw)(lambda: self.run_body(body, conds + [c], where + "d"))()
            elif form == "with":
                cw = PrivVal(c)
                with guarded(cw) as g:
                    self.run_body(body, conds + [c], where + "w")
            elif form == "shared":
                if c not in self.shared: self.shared[c] = guarded(PrivVal(c))
                with self.shared[c]:
                    self.run_body(body, conds + [c], where + "s")
                    if self.rnd.random() < 0.5:
                        with self.shared[c]:   # same object entered again
                            self.check_inside(conds + [c, c], where + "ss")
            elif form in ("ite_t", "ite_f"):
                cb = PrivValBool(c)
                ran = []
                def lazy(cv, tag):
                    def f():
                        ran.append(tag)
                        if tag == form: self.run_body(body, conds + [cv], where + tag)
                        else: self.check_inside(conds + [cv], where + tag)
                        return PrivVal(10 if tag == "ite_t" else 20)
                    return f
                res = if_then_else(cb, lazy(c, "ite_t"), lazy(1 - c, "ite_f"))
                if ran != ["ite_t", "ite_f"]: fail("%s: lazy branches run: %r" % (where, ran))
                if not conds or all(x == 1 for x in conds):
                    if res.value != (10 if c else 20): fail("%s: if_then_else gave %r for cond %r" % (where, res.value, c))
            elif form == "manual":
                bak = add_guard(PrivVal(c))
                try: self.run_body(body, conds + [c], where + "m")
                finally: restore_guard(bak)
            elif form == "dangling":
                bak = add_guard(PrivVal(c))
                try: self.run_body(body, conds + [c], where + "g")
                except Exception as e:
                    e._dangling = True         # left open on purpose
                    raise
                restore_guard(bak)
            elif form == "bif":
                ctx = BranchingValues()
                ctx.v = 1
                _if(PrivVal(c), ctx)
                try: self.run_body(body, conds + [c], where + "b")
                except Exception as e:
                    ctx.stack.pop()            # never reaches _endif
                    e._dangling = True
                    raise
                _endif(ctx)
        except Exception as e:
            if restoring:
                if not same(state(), before):
                    fail("%s: region (%s, cond %r) left by %s with state %s, was %s" % (where, form, c, type(e).__name__, show(state()), show(before)))
                    restore_guard(before)
                e._dangling = False
            raise
        if not same(state(), before):
            fail("%s: region (%s, cond %r) returned with state %s, was %s" % (where, form, c, show(state()), show(before)))
            restore_guard(before)

def random_programs(n, seed):
    rnd = random.Random(seed)
    stats = {"runs": 0, "aborted": 0, "constraints": 0}
    for i in range(n):
        reset()
        mode = i % 3          # 0: plain, 1: ignore_errors(True), 2: ignore_errors(True) with junk guard values
        rt.ignore_errors(mode != 0)
        run = Run(rnd, mode != 0, mode == 2)
        prog = run.gen_body(0)
        top = state()
        try:
            run.run_body(prog, [], "p%d" % i)
        except Exception as e:
            stats["aborted"] += 1
            if getattr(e, "_dangling", False): fail("p%d: generator bug, dangling at top level" % i)
        if not same(state(), top):
            fail("p%d: program left state %s, was %s" % (i, show(state()), show(top)))
            restore_guard(top)
        if mode == 0:
            bad = [k for k, c in enumerate(constraints) if not holds(c)]
            if bad: fail("p%d: honest run, constraints %r of %d do not hold on the recorded witness" % (i, bad[:5], len(constraints)))
        stats["runs"] += 1
        stats["constraints"] += len(constraints)
        rt.ignore_errors(False)
    return stats

# ------------------------------------------ B. abort at every statement ------
FORMS = ["dec", "ite_t", "ite_f", "manual"] + (["with", "shared"] if HAVE_WITH else [])

def enter_form(form, cval, body, shared):
    """run body() under a region of the given form whose condition has value cval"""
    if form == "dec": return guarded(PrivVal(cval))(body)()
    if form == "with":
        with guarded(PrivVal(cval)): return body()
    if form == "shared":
        if shared is None: shared = guarded(PrivVal(cval))
        with shared: return body()
    if form == "manual":
        bak = add_guard(PrivVal(cval))
        try: return body()
        finally: restore_guard(bak)
    if form == "ite_t":
        if_then_else(PrivValBool(cval), lambda: (body(), PrivVal(1))[1], lambda: PrivVal(2)); return
    if form == "ite_f":
        if_then_else(PrivValBool(1 - cval), lambda: PrivVal(1), lambda: (body(), PrivVal(2))[1]); return
    raise KeyError(form)

def abort_everywhere():
    n = 0
    for forms in itertools.product(FORMS, repeat=3):
        for cvals in ((1, 1, 1), (1, 0, 1), (0, 1, 1), (1, 1, 0)):
            for abort_at in range(0, 8):
                reset()
                counter = [0]
                snaps = []
                def tick():
                    if counter[0] == abort_at: raise Boom("statement %d" % abort_at)
                    counter[0] += 1
                def level(k):
                    def body():
                        snaps.append((k, state()))
                        tick(); PrivVal(2) * PrivVal(3); tick()
                        if k < 2:
                            before = state()
                            try:
                                enter_form(forms[k + 1], cvals[k + 1], level(k + 1), None)
                            finally:
                                if not same(state(), before):
                                    fail("abort@%d forms %r conds %r: level %d region left with state %s, was %s" % (abort_at, forms, cvals, k + 1, show(state()), show(before)))
                        tick()
                    return body
                top = state()
                sh = guarded(PrivVal(cvals[0])) if HAVE_WITH else None
                try: enter_form(forms[0], cvals[0], level(0), sh)
                except Boom: pass
                if not same(state(), top):
                    fail("abort@%d forms %r conds %r: state %s after the outermost region, was %s" % (abort_at, forms, cvals, show(state()), show(top)))
                    restore_guard(top)
                if not all(holds(c) for c in constraints): fail("abort@%d forms %r: emitted constraints do not hold" % (abort_at, forms))
                n += 1
    return n

# ------------------------------------------- C. enforcement = conjunction ----
def enforcement():
    n = 0
    for depth in (1, 2, 3):
        for forms in itertools.product(FORMS, repeat=depth):
            for cvals in itertools.product((0, 1), repeat=depth):
                for user_ignore in (False, True):
                    reset()
                    rt.ignore_errors(user_ignore)
                    top = state()
                    def level(k):
                        def body():
                            if k + 1 < depth: enter_form(forms[k + 1], cvals[k + 1], level(k + 1), None)
                            else:
                                PrivVal(3).assert_zero()            # violated
                                PrivVal(5).assert_eq(5)             # uses a constant inside the region: fine
                        return body
                    raised = False
                    sh = guarded(PrivVal(cvals[0])) if HAVE_WITH else None
                    try: enter_form(forms[0], cvals[0], level(0), sh)
                    except AssertionError: raised = True
                    allone = all(c == 1 for c in cvals)
                    tag = "enforce forms %r conds %r ignore %r" % (forms, cvals, user_ignore)
                    if raised != (allone and not user_ignore): fail("%s: raised=%r" % (tag, raised))
                    if not same(state(), top):
                        fail("%s: state %s afterwards, was %s" % (tag, show(state()), show(top)))
                        restore_guard(top)
                    sat = all(holds(c) for c in constraints)
                    if not raised and sat != (not allone):
                        fail("%s: violated assertion under conjunction %d, yet constraint system %s by the witness" % (tag, allone, "satisfied" if sat else "not satisfied"))
                    rt.ignore_errors(False)
                    n += 1
    return n

# ------------------------------------------------ D. context manager ---------
def context_manager():
    if not HAVE_WITH: return 0
    reset()
    top = state()
    g = guarded(PrivVal(1))
    # a guard that add_guard rejects: nothing must be left behind, the object stays usable
    for badc in (PrivVal(2), 0, 2, "x", None):
        gb = guarded(badc)
        for _ in range(2):
            try:
                with gb: fail("with guarded(%r) entered" % (badc,))
            except (RuntimeError, TypeError): pass
            if not same(state(), top): fail("rejected guard %r left state %s" % (badc, show(state()))); restore_guard(top)
        try:
            with g:
                s1 = state()
                try:
                    with gb: pass
                except (RuntimeError, TypeError): pass
                if not same(state(), s1): fail("rejected nested guard %r changed the state" % (badc,))
        except Exception as e: fail("unexpected %r" % e)
        if not same(state(), top): fail("state %s after with-block" % show(state())); restore_guard(top)
    # recursion on one object with exceptions at each depth
    for depth in range(1, 6):
        for abort in range(0, depth + 1):
            snaps = []
            def rec(k):
                with g:
                    snaps.append(state())
                    if rt.guard.value != 1 or LinComb.ONE is not rt.guard: fail("recursive with: wrong state at depth %d" % k)
                    if k == abort: raise Boom()
                    if k + 1 < depth: rec(k + 1)
                    if not same(state(), snaps[k]): fail("recursive with: depth %d state not restored after inner block" % k)
            try: rec(0)
            except Boom: pass
            if not same(state(), top): fail("recursive with depth %d abort %d: state %s afterwards" % (depth, abort, show(state()))); restore_guard(top)
    # the exception is not swallowed, return values of decorated functions survive
    try:
        with g: raise Boom()
        fail("with guarded swallowed an exception")
    except Boom: pass
    def f(a, b=2):
        "doc"
        return a + b
    if guarded(PrivVal(1))(f)(1, b=5) != 6: fail("decorated function lost its result")
    return 1

if __name__ == "__main__":
    s = random_programs(6000, 20240608)
    print("A: %d random programs (%d left by an exception), %d constraints evaluated" % (s["runs"], s["aborted"], s["constraints"]))
    print("B: %d abort-at-statement runs" % abort_everywhere())
    print("C: %d enforcement cases" % enforcement())
    print("D: context manager form %s" % ("checked" if context_manager() else "not available in this tree (skipped)"))
    if failures:
        print("%d property violations" % len(failures))
        sys.exit(1)
    print("C08 held in all cases")
    sys.exit(0)
