#!/usr/bin/env python
"""
Evidence program for change P (pysnark/pack.py: PackIntMod range check at the packer's own width).

Checks property C16 itself, not equality with the old behaviour:

  A. runtime: to_bits(n) / assert_positive(n) / from_bits for widths n independent of the global
     bitlength: every emitted constraint holds on the recorded witness, the bits recompose to the
     value, values just outside [0,2^n) are rejected, and (brute force over a small prime field)
     the emitted constraint system is satisfiable exactly for the values in [0,2^n).
  B. pack: for many schemas (booleans, bounded integers, lists, repetitions, including moduli 1, 2,
     powers of two, one-off powers of two and moduli much wider than runtime.bitlength) pack/unpack
     round-trips for plain values, for secret values (pack(LinComb)) and for secret bits
     (PrivVal bits constrained to be Boolean -> the checked branch changed by P); all emitted
     constraints hold on the recorded witness; out-of-range plain values are rejected; out-of-range
     secret bit patterns are rejected (exception, or - with ignore_errors - an unsatisfied
     constraint), also inside guards.
  C. soundness of the changed unpack gadget by brute force: over a small prime field, for every
     assignment of Boolean input bits, the constraints emitted by unpack are satisfiable by SOME
     assignment of the internal wires iff the encoded value is < mod; the returned linear
     combination always evaluates to sum b_i 2^i.

Exits 0 iff everything held.
"""
import itertools
import os
import random
import sys

os.environ["PYSNARK_BACKEND"] = "nobackend"
sys.argv = sys.argv[:1]

import pysnark.runtime as rt
from pysnark.runtime import LinComb, PrivVal, PubVal, ConstVal, guarded, ignore_errors
import pysnark.boolean as pb
import pysnark.pack as pk
from pysnark.pack import PackBool, PackIntMod, PackList, PackRepeat, PackSeed

BN254 = 21888242871839275222246405745257275088548364400416034343698204186575808495617

# ---------------------------------------------------------------------------------------------
# recording backend
# ---------------------------------------------------------------------------------------------

class LC:
    """ sparse linear combination: {wire: coefficient}; wire 0 is the constant one """
    def __init__(self, d=None): self.d = {k: v for k, v in (d or {}).items() if v != 0}
    def __add__(self, o):
        d = dict(self.d)
        for k, v in o.d.items(): d[k] = d.get(k, 0) + v
        return LC(d)
    def __neg__(self): return LC({k: -v for k, v in self.d.items()})
    def __sub__(self, o): return self + (-o)
    def __mul__(self, c):
        assert isinstance(c, int)
        return LC({k: v * c for k, v in self.d.items()})
    def ev(self, wires, p): return sum(c * wires[k] for k, c in self.d.items()) % p

class Rec:
    def __init__(self): self.reset(BN254)
    def reset(self, p):
        self.p = p
        self.wires = [1]
        self.constraints = []
    def privval(self, val):
        self.wires.append(val)
        return LC({len(self.wires) - 1: 1})
    pubval = privval
    def zero(self): return LC()
    def one(self): return LC({0: 1})
    def fieldinverse(self, val): return pow(val % self.p, -1, self.p)
    def get_modulus(self): return self.p
    def add_constraint(self, v, w, y): self.constraints.append((v, w, y))
    def prove(self): pass
    # helpers
    def holds(self, c, wires=None):
        wires = self.wires if wires is None else wires
        return (c[0].ev(wires, self.p) * c[1].ev(wires, self.p) - c[2].ev(wires, self.p)) % self.p == 0
    def all_hold(self, wires=None, cons=None):
        return all(self.holds(c, wires) for c in (self.constraints if cons is None else cons))

rec = Rec()
rt.backend = rec
rt.autoprove = False

def fresh(p=BN254):
    rec.reset(p)
    rt.guard = None
    rt.ignore_errors(False)
    LinComb.ZERO = LinComb(0, rec.zero())
    LinComb.ONE = LinComb(1, rec.one())
    LinComb.ONE_SAFE = LinComb.ONE

nchecks = 0
def check(cond, msg):
    global nchecks
    nchecks += 1
    if not cond:
        print("PROPERTY VIOLATED:", msg)
        sys.exit(1)

def raises(fn, excs):
    try:
        fn()
    except excs:
        return True
    return False

def lcval(x):
    """ value of LinComb / LinCombBool / int according to the *recorded witness* (not .value) """
    if isinstance(x, pb.LinCombBool): x = x.lc
    if isinstance(x, LinComb): return x.lc.ev(rec.wires, rec.p)
    return x % rec.p

def boolbit(v):
    """ a secret LinComb bit (not a LinCombBool) with its Boolean constraint, as a caller of unpack provides """
    b = PrivVal(v)
    rt.add_constraint_unsafe(b, 1 - b, LinComb.ZERO)
    return b

def satisfiable(cons, fixed, free, domain):
    """ is there an assignment of the wires `free` from `domain` that satisfies cons (other wires as in `fixed`)? """
    wires = list(fixed)
    for assignment in itertools.product(domain, repeat=len(free)):
        for w, a in zip(free, assignment): wires[w] = a
        if rec.all_hold(wires, cons): return True
    return False

random.seed(16)

# ---------------------------------------------------------------------------------------------
# A. runtime: decomposition / recomposition / assert_positive at requested widths
# ---------------------------------------------------------------------------------------------

def part_A():
    for glob in (16, 3, 40):
        rt.bitlength = glob
        for n in list(range(0, 12)) + [15, 16, 17, 31, 32, 33, 64, 100]:
            inside = set([0, (1 << n) - 1, (1 << n) >> 1, max(0, (1 << n) - 2)] + [random.randrange(0, 1 << n) for _ in range(4)])
            if n <= 6: inside = set(range(1 << n))
            for v in inside:
                fresh()
                x = PrivVal(v)
                bits = x.to_bits(n)
                check(len(bits) == n, "to_bits(%d) returned %d bits" % (n, len(bits)))
                check(all(lcval(b) in (0, 1) for b in bits), "non-bit from to_bits")
                check(lcval(LinComb.from_bits(bits)) == v % rec.p and (n == 0 or LinComb.from_bits(bits).value == v), "recomposition differs v=%d n=%d" % (v, n))
                check([lcval(b) for b in bits] == [(v >> i) & 1 for i in range(n)], "wrong bits")
                check(rec.all_hold(), "to_bits constraint violated on witness v=%d n=%d" % (v, n))
                fresh()
                PrivVal(v).assert_positive(n)
                check(rec.all_hold() and len(rec.constraints) == n + 1, "assert_positive(n) constraints")
            for v in (-1, -2, 1 << n, (1 << n) + 1, -(1 << n), 1 << (n + 3)):
                fresh()
                check(raises(lambda: PrivVal(v).to_bits(n), AssertionError), "to_bits(%d) accepted %d" % (n, v))
                fresh()
                check(raises(lambda: PrivVal(v).assert_positive(n), AssertionError), "assert_positive(%d) accepted %d" % (n, v))
                fresh()
                rt.ignore_errors(True)
                PrivVal(v).to_bits(n)
                rt.ignore_errors(False)
                check(len(rec.constraints) == n + 1 and not rec.all_hold(), "ignore_errors: out-of-range to_bits satisfied, v=%d n=%d" % (v, n))
    rt.bitlength = 16
    # soundness by brute force over GF(17), GF(37): constraints satisfiable iff 0 <= x < 2^n
    for p, ns in ((17, (0, 1, 2, 3)), (37, (0, 1, 2, 3, 4))):
        for n in ns:
            fresh(p)
            x = PrivVal(0)
            x.assert_positive(n)
            cons, base = list(rec.constraints), list(rec.wires)
            free = list(range(2, len(base)))
            check(len(free) == n, "unexpected wire count")
            for xv in range(p):
                base[1] = xv
                dom = range(p) if p ** n <= 20000 else (0, 1)
                check(satisfiable(cons, base, free, dom) == (xv < (1 << n)), "assert_positive(%d) soundness at x=%d over GF(%d)" % (n, xv, p))

# ---------------------------------------------------------------------------------------------
# B. packers
# ---------------------------------------------------------------------------------------------

MODS = [1, 2, 3, 4, 5, 7, 8, 9, 15, 16, 17, 31, 32, 33, 100, 255, 256, 257, 1000, 65535, 65536, 65537,
        0x10FFFF, 1 << 20, (1 << 20) + 1, (1 << 33) - 1, 1 << 40, (1 << 64) + 13, (1 << 100) - 3]

def rand_schema(depth):
    r = random.random()
    if depth == 0 or r < 0.35:
        return PackBool() if random.random() < 0.3 else PackIntMod(random.choice(MODS))
    if r < 0.7:
        return PackList([rand_schema(depth - 1) for _ in range(random.randrange(1, 4))])
    return PackRepeat(rand_schema(depth - 1), random.randrange(1, 4))

def flat(x):
    if isinstance(x, list):
        for i in x: yield from flat(i)
    else:
        yield x

def map_struct(f, x): return [map_struct(f, i) for i in x] if isinstance(x, list) else f(x)

def edge_values(m):
    return sorted(set([0, m - 1, m // 2, max(0, m - 2), min(m - 1, 1), random.randrange(m), random.randrange(m)]))

def part_B_intmod():
    for m in MODS:
        pim = PackIntMod(m)
        k = pim.bitlen()
        check(k == (m - 1).bit_length() and (1 << k) >= m and (k == 0 or (1 << (k - 1)) < m), "bitlen")
        values = range(m) if m <= 64 else edge_values(m)
        for v in values:
            # plain
            bits = pim.pack(v)
            check(len(bits) == k and all(b in (0, 1) for b in bits) and sum(b << i for i, b in enumerate(bits)) == v, "plain pack")
            check(pim.unpack(bits, 0) == v, "plain roundtrip m=%d v=%d" % (m, v))
            check(pim.unpack([1, 0] + bits + [1], 2) == v, "plain roundtrip at offset")
            # secret value in -> LinCombBool bits
            fresh()
            sb = pim.pack(PrivVal(v))
            check(len(sb) == k and [lcval(b) for b in sb] == bits, "secret pack bits")
            out = pim.unpack(sb, 0)
            check(lcval(out) == v, "secret roundtrip m=%d v=%d" % (m, v))
            check(rec.all_hold(), "constraint violated (secret value) m=%d v=%d" % (m, v))
            # secret Boolean LinComb bits in -> checked unpack (the code changed by P), plain / guarded
            for mode in ("plain", "guard1", "guard0"):
                fresh()
                lb = [boolbit(1), boolbit(0)] + [boolbit(b) for b in bits] + [boolbit(1)]
                if mode == "plain":
                    out = pim.unpack(lb, 2)
                else:
                    g = boolbit(1 if mode == "guard1" else 0)
                    out = guarded(g)(lambda: pim.unpack(lb, 2))()
                    check(rt.guard is None and not ignore_errors() and LinComb.ONE is LinComb.ONE_SAFE, "guard not restored")
                check(lcval(out) == v and (isinstance(out, int) or out.value == v), "secret-bit roundtrip m=%d v=%d %s" % (m, v, mode))
                check(rec.all_hold(), "constraint violated (secret bits, %s) m=%d v=%d" % (mode, m, v))
        # out-of-range plain values rejected
        for v in (-1, -m, m, m + 1, (1 << k), (1 << k) + 1, 2 * m + 3, -(1 << 70)):
            check(raises(lambda: pim.pack(v), ValueError), "plain out-of-range accepted m=%d v=%d" % (m, v))
        for v in (1.0, "1", None, [0]):
            check(raises(lambda: pim.pack(v), (TypeError, ValueError)), "plain wrong type accepted")
        # secret values that do not fit the width are rejected
        for v in (-1, 1 << k, (1 << k) + 5):
            fresh()
            check(raises(lambda: pim.pack(PrivVal(v)), AssertionError), "secret too-wide value accepted m=%d v=%d" % (m, v))
        # out-of-range secret bit patterns (m <= enc < 2^k) rejected
        encs = [e for e in set([m, m + 1, (1 << k) - 1, (m + (1 << k)) // 2]) if m <= e < (1 << k)]
        for e in encs:
            ebits = [(e >> i) & 1 for i in range(k)]
            fresh()
            lb = [boolbit(b) for b in ebits]
            check(raises(lambda: pim.unpack(lb, 0), (AssertionError, ValueError)), "out-of-range secret bits accepted m=%d e=%d" % (m, e))
            fresh()
            lb = [boolbit(b) for b in ebits]
            g = boolbit(1)
            check(raises(guarded(g)(lambda: pim.unpack(lb, 0)), (AssertionError, ValueError)), "out-of-range secret bits accepted under active guard")
            check(rt.guard is None and not ignore_errors(), "guard not restored after exception")
            fresh()
            lb = [boolbit(b) for b in ebits]
            rt.ignore_errors(True)
            out = pim.unpack(lb, 0)
            rt.ignore_errors(False)
            check(not rec.all_hold(), "ignore_errors: out-of-range secret bits leave a satisfied system m=%d e=%d" % (m, e))
            # inactive guard: nothing is enforced, nothing raised, system satisfied
            fresh()
            lb = [boolbit(b) for b in ebits]
            g = boolbit(0)
            guarded(g)(lambda: pim.unpack(lb, 0))()
            check(rec.all_hold(), "inactive guard: unsatisfied system")
        # the constraints emitted by unpack do not depend on the values (same shape in / out of range)
        shapes = set()
        for e in [0, m - 1] + encs:
            fresh()
            rt.ignore_errors(True)
            pim.unpack([PrivVal((e >> i) & 1) for i in range(k)], 0)
            rt.ignore_errors(False)
            shapes.add((len(rec.wires), tuple((tuple(sorted(a.d.items())), tuple(sorted(b.d.items())), tuple(sorted(c.d.items()))) for a, b, c in rec.constraints)))
        check(len(shapes) == 1, "constraint shape depends on values m=%d" % m)
        # too few bits: never silently truncated to a wrong value
        if k > 0:
            for mk in (lambda b: b, lambda b: boolbit(b)):
                fresh()
                short = [mk(1) for _ in range(k - 1)]
                try:
                    r = pim.unpack(short, 0)
                    ok = False
                except (ValueError, IndexError, AssertionError):
                    ok = True
                check(ok or k - 1 == 0, "short bit list silently accepted")
    for bad in (0, -1, -5):
        check(raises(lambda: PackIntMod(bad), ValueError), "modulus %d accepted" % bad)

def part_B_schemas():
    fixed = [PackList([PackIntMod(1), PackBool(), PackIntMod(1)]), PackList([PackBool(), PackIntMod(1)]),
             PackRepeat(PackIntMod(1), 3), PackSeed(8), PackList([PackIntMod(0x10FFFF), PackRepeat(PackList([PackBool(), PackIntMod(5)]), 2)]),
             PackList([PackIntMod(i) for i in range(6, 1, -1)])]
    for it in range(260):
        sch = fixed[it] if it < len(fixed) else rand_schema(3)
        val = sch.random()
        n = sch.bitlen()
        bits = sch.pack(val)
        check(len(bits) == n and all(b in (0, 1) for b in bits), "plain pack length / bits")
        check(sch.unpack(bits, 0) == val, "plain schema roundtrip")
        check(sch.unpack([0, 1, 1] + bits + [1, 1], 3) == val, "plain schema roundtrip at offset")
        # secret bits
        for mode in ("plain", "guard1"):
            fresh()
            lb = [boolbit(b) for b in bits]
            if mode == "plain":
                out = sch.unpack(lb, 0)
            else:
                out = guarded(boolbit(1))(lambda: sch.unpack(lb, 0))()
            check(map_struct(lcval, out) == val, "secret-bit schema roundtrip")
            check(rec.all_hold(), "constraint violated in schema unpack")
        # secret values
        fresh()
        sval = map_struct(PrivVal, val)
        sb = sch.pack(sval)
        check([lcval(b) for b in sb] == bits, "secret schema pack")
        if n > 0:
            out = sch.unpack(sb, 0)
            check(map_struct(lcval, out) == val, "secret schema roundtrip")
        check(rec.all_hold(), "constraint violated in secret schema pack/unpack")
        # corrupt one PackIntMod leaf to an out-of-range plain value -> rejected
        leaves = []
        def collect(s, v, path):
            if isinstance(s, PackIntMod): leaves.append((s, path))
            elif isinstance(s, PackList):
                for i, (si, vi) in enumerate(zip(s.lst, v)): collect(si, vi, path + [i])
            elif isinstance(s, PackRepeat):
                for i, vi in enumerate(v): collect(s.packer, vi, path + [i])
        collect(sch, val, [])
        if leaves:
            leaf, path = random.choice(leaves)
            for badv in (leaf.mod, -1, leaf.mod + random.randrange(1, 1000)):
                import copy
                v2 = copy.deepcopy(val)
                if path:
                    t = v2
                    for i in path[:-1]: t = t[i]
                    t[path[-1]] = badv
                else:
                    v2 = badv
                check(raises(lambda: sch.pack(v2), ValueError), "out-of-range plain leaf accepted")

# ---------------------------------------------------------------------------------------------
# C. brute-force soundness + completeness of the secret-bit unpack gadget over small prime fields
# ---------------------------------------------------------------------------------------------

def part_C():
    for p, mods in ((17, range(1, 9)), (37, range(1, 17)), (67, range(1, 33)), (131, (33, 47, 63, 64))):
        for m in mods:
            pim = PackIntMod(m)
            k = pim.bitlen()
            check(2 ** (k + 1) < p or k == 0, "test field too small")
            fresh(p)
            rt.ignore_errors(True)       # emit the (value independent) constraint system once
            ins = [PrivVal(0) for _ in range(k)]
            n_in = len(rec.wires)
            out = pim.unpack(ins, 0)
            rt.ignore_errors(False)
            cons, base = list(rec.constraints), list(rec.wires)
            free = list(range(n_in, len(base)))
            for e in range(1 << k):
                for i in range(k): base[1 + i] = (e >> i) & 1
                if isinstance(out, LinComb):
                    check(out.lc.ev(base, p) == e % p, "returned value is not sum b_i 2^i")
                else:
                    check(out == e == 0, "constant result for non-trivial packer")
                # full field for tiny cases, otherwise {0,1} (every free wire is Boolean-constrained: checked below)
                full = p ** len(free) <= 5000
                sat = satisfiable(cons, base, free, range(p) if full else (0, 1))
                check(sat == (e < m), "unpack gadget: mod=%d bits=%s satisfiable=%s over GF(%d)" % (m, bin(e), sat, p))
            # every internal wire carries a Boolean constraint w*(1-w)=0 (justifies the {0,1} search above)
            for w in free:
                found = any(a.d == {w: 1} and b.d == {0: 1, w: -1} and c.d == {} for a, b, c in cons)
                check(found, "internal wire without Boolean constraint")

if __name__ == "__main__":
    part_A()
    part_B_intmod()
    part_B_schemas()
    part_C()
    print("C16 property held in all", nchecks, "checks")
    sys.exit(0)
