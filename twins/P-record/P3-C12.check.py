#!/usr/bin/env python
"""
Evidence program for property C12 (qaptools equation / wire / I-O files are consistent and split faithfully).

Run as   PYTHONPATH=<tree> /venv/bin/python P.check.py   from any (empty) directory.

The driver runs every scenario in its own process and its own scratch directory (the qaptools backend keeps global state and
writes its files into the current directory).  The qaptools executables are replaced by stubs that do nothing, so only the
Python side (the files PySNARK itself writes) is checked.  Each scenario traces a program on the qaptools backend, recording
independently (by wrapping backend.privval / pubval / vc_glue and the user-level calls of @subqap functions) which values
were meant, and then decodes the files that were written:

  * pysnark_wires / pysnark_values: every recorded witness / public value is found under its wire name, congruent mod p;
    no wire is written twice with different values
  * pysnark_eqs: every equation  v * w = y  is evaluated on the values in the wire and I/O files and must hold modulo p;
    every public value has an I/O entry and an equation  wire - io = 0
  * qapsplit(): the per-function files contain every traced equation in the context of its variables (re-derived here with an
    independent parser), all calls of a function have the same equation set, every line of the per-function file holds on
    the wires of every call, different equation sets have different signatures, inconsistent functions are reported
  * glue: every call is tied to its caller by exactly one pair of blocks, listing all LinComb arguments and results in order
    (compared with what the scenario passed and got back), with pairwise equal values and equal block randomness
  * external blocks: the block file carries the values of the wires listed in the block
  * results are compared with plain Python integer semantics

Exit status 0 iff all scenarios passed.
"""
import itertools
import os
import shutil
import subprocess
import sys
import tempfile

P = 21888242871839275222246405745257275088548364400416034343698204186575808495617

# ------------------------------------------------------------------------------------------------------------------ recording

class Fail(Exception):
    pass

def need(cond, msg):
    if not cond: raise Fail(msg)

class Recorder:
    def __init__(self, rt, be):
        self.rt, self.be = rt, be
        self.privs, self.pubs, self.glues, self.calls = [], [], [], []
        opriv, opub, oglue = be.privval, be.pubval, be.vc_glue
        def privval(val):
            s = opriv(val)
            self.privs.append((val, s.sig[0][1]))
            return s
        def pubval(val):
            s = opub(val)
            self.pubs.append((val, s.sig[0][1]))
            return s
        def vc_glue(ctx1, ctx2, vals):
            self.glues.append((ctx1, ctx2, [(a.value, b.value) for (a, b) in vals]))
            return oglue(ctx1, ctx2, vals)
        be.privval, be.pubval, be.vc_glue = privval, pubval, vc_glue

    def flat(self, struct):
        if isinstance(struct, (list, tuple)):
            return [y for x in struct for y in self.flat(x)]
        return [struct.value] if isinstance(struct, self.rt.LinComb) else []

    def call(self, fn, *args):
        """ call a @subqap function and remember which values have to be in its glue blocks """
        expected = self.flat(args)
        ret = fn(*args)
        expected += self.flat(ret)
        self.calls.append((len(self.glues) - 1, expected))    # glue of the outermost call is recorded last
        return ret

# ------------------------------------------------------------------------------------------------------------------- decoding

def parse_values(fname):
    vals = {}
    for ln in open(fname):
        ln = ln.strip()
        if ln == "" or ln[0] == "#": continue
        nm, _, v = ln.partition(":")
        v = v.strip()
        v = {"True": 1, "False": 0}.get(v, v)      # unchanged tree writes bool witnesses like that
        try:
            v = int(v)
        except ValueError:
            raise Fail("value of " + nm + " in " + fname + " is not an integer: " + str(v))
        need(nm not in vals or (vals[nm] - v) % P == 0, "wire " + nm + " written twice with different values in " + fname)
        vals[nm] = v
    return vals

def split_eq(toks):
    """ tokens of  v * w = y [.]  ->  three lists of (coefficient, variable) """
    need(toks.count("*") == 1 and toks.count("=") == 1, "malformed equation " + " ".join(toks))
    i, j = toks.index("*"), toks.index("=")
    need(i < j, "malformed equation " + " ".join(toks))
    parts = [toks[:i], toks[i + 1:j], toks[j + 1:]]
    if parts[2] and parts[2][-1] == ".": parts[2] = parts[2][:-1]
    res = []
    for part in parts:
        need(len(part) % 2 == 0, "malformed linear combination in " + " ".join(toks))
        res.append([(int(part[k]), part[k + 1]) for k in range(0, len(part), 2)])
    return res

class Files:
    def __init__(self):
        self.wires = parse_values("pysnark_wires")
        self.io = parse_values("pysnark_values")
        self.functions, self.eqs, self.blocks, self.glue, self.external = [], [], {}, [], []
        for ln in open("pysnark_eqs"):
            toks = ln.split()
            if not toks or toks[0][0] == "#": continue
            if toks[0] == "[function]": self.functions.append((toks[1], toks[2]))
            elif toks[0] == "[ioblock]":
                need((toks[1], toks[2]) not in self.blocks, "block declared twice: " + ln)
                self.blocks[(toks[1], toks[2])] = toks[3:]
            elif toks[0] == "[glue]": self.glue.append(tuple(toks[1:5]))
            elif toks[0] == "[external]": self.external.append(tuple(toks[1:4]))
            else: self.eqs.append(toks)

    def value(self, var, ctx=None):
        if ctx is not None: var = ctx + "/" + var
        c, sep, nm = var.partition("/")
        need(sep == "/", "variable without context: " + var)
        if nm == "one": return 1
        src = self.io if nm.startswith("o_") else self.wires
        need(var in src, "no value written for " + var)
        return src[var]

    def holds(self, toks, ctx=None):
        v, w, y = [sum(c * self.value(x, ctx) for (c, x) in lc) for lc in split_eq(toks)]
        return (v * w - y) % P == 0

    def context_of(self, toks):
        """ independent re-implementation: context of an equation and the equation with the context removed """
        ctxs, out = set(), []
        for t in toks:
            c, sep, nm = t.partition("/")
            if sep: ctxs.add(c); out.append(nm)
            else: out.append(t)
        need(len(ctxs) <= 1, "equation mixes contexts: " + " ".join(toks))
        return (ctxs.pop() if ctxs else None), " ".join(out)

# ------------------------------------------------------------------------------------------------------------------- checking

def verify(rec, expect_inconsistent=False, run_prove=False):
    be = rec.be
    be.qape.flush(); be.qapv.flush(); be.qapvo.flush()
    f = Files()

    # --- recorded values are in the files
    for (val, nm) in rec.privs + rec.pubs:
        need(nm in f.wires, "no wire value for " + nm)
        need((f.wires[nm] - val) % P == 0, "wire %s carries %d, witness was %d" % (nm, f.wires[nm], val))
    perctx = {}
    for (val, nm) in rec.pubs:
        ctx = nm.partition("/")[0]
        perctx[ctx] = perctx.get(ctx, 0) + 1
        ionm = ctx + "/o_" + str(perctx[ctx])
        need(ionm in f.io, "public value %d (wire %s) has no entry %s in the I/O file" % (val, nm, ionm))
        need((f.io[ionm] - val) % P == 0, "I/O entry %s is %d, public value was %d" % (ionm, f.io[ionm], val))
        tied = False
        for toks in f.eqs:
            v, w, y = split_eq(toks)
            if not v and not w and sorted((c % P, x) for (c, x) in y) == sorted([(1, nm), (P - 1, ionm)]): tied = True
        need(tied, "no equality ties I/O entry " + ionm + " to wire " + nm)
    need(sum(perctx.values()) == len(f.io), "I/O file has entries that are no public values")

    # --- every equation holds on the written values
    for toks in f.eqs:
        need(f.holds(toks), "equation not satisfied by wire/I-O files: " + " ".join(toks))

    # --- split
    import pysnark.qaptools.qapsplit as qs
    import pysnark.qaptools.options as opt
    try:
        if run_prove:
            res = []
            oqs = qs.qapsplit
            def logged():
                r = oqs(); res.append(r); return r
            qs.qapsplit = logged
            be.prove()
            qs.qapsplit = oqs
            need(len(res) == 1, "prove() did not split")
            qaplens, blklen, extlen, sigs = res[0]
        else:
            qaplens, blklen, extlen, sigs = qs.qapsplit()
    except ValueError as e:
        need(expect_inconsistent, "qapsplit failed: " + str(e))
        need("Inconsistent functions" in str(e), "wrong report: " + str(e))
        return
    need(not expect_inconsistent, "two different equation sets for one function name were not reported")

    sched_fn, sched_glue, sched_ext = {}, [], []
    for ln in open(opt.get_schedule_file()):
        toks = ln.split()
        if not toks: continue
        if toks[0] == "[function]": sched_fn[toks[1]] = toks[2]
        elif toks[0] == "[glue]": sched_glue.append(tuple(toks[1:5]))
        elif toks[0] == "[external]": sched_ext.append(tuple(toks[1:]))
    calls = dict((call, fname) for (fname, call) in f.functions)
    need(len(calls) == len(f.functions), "call names are not unique")
    need(set(sched_fn) == set(calls), "schedule does not list all calls")

    traced = dict((call, set()) for call in calls)
    for toks in f.eqs:
        ctx, eq = f.context_of(toks)
        need(ctx in calls, "equation in unknown context: " + " ".join(toks))
        traced[ctx].add(eq)
    for (ctx, bn), names in f.blocks.items():
        need(ctx in calls, "block in unknown context " + ctx)
        cc, line = f.context_of(["[ioblock]", bn] + names)
        need(cc in (ctx, None), "block of " + ctx + " lists wires of " + str(cc))
        traced[ctx].add(line)

    fnsets = {}
    for call, fname in calls.items():
        need(sched_fn[call] == opt.get_eqs_file_fn(fname), "schedule names wrong equation file for " + call)
        lines = set(" ".join(ln.split()) for ln in open(sched_fn[call]) if ln.strip())
        missing = traced[call] - lines
        need(not missing, "equation file of %s (call %s) lacks traced equation(s): %s" % (fname, call, sorted(missing)[:3]))
        extra = lines - traced[call]
        need(not extra, "equation file of %s has equations call %s did not trace: %s" % (fname, call, sorted(extra)[:3]))
        for ln in lines:
            if ln.startswith("[ioblock]"):
                for w in ln.split()[2:]: f.value(w, call)
            else:
                need(f.holds(ln.split(), call), "per-function equation fails on wires of %s: %s" % (call, ln))
        fnsets.setdefault(fname, []).append(frozenset(traced[call]))
        need(qaplens[fname] >= len([l for l in lines if not l.startswith("[")]), "qap length too small for " + fname)
    for fname, sets in fnsets.items():
        need(len(set(sets)) == 1, "calls of " + fname + " differ")
        need(fname in sigs, "no signature for " + fname)
    for a, b in itertools.combinations(fnsets, 2):
        if fnsets[a][0] != fnsets[b][0]:
            need(sigs[a] != sigs[b], "different equations, same signature: " + a + " " + b)

    # --- glue
    need(sorted(sched_glue) == sorted(f.glue), "schedule glue differs from traced glue")
    need(len(f.glue) == len(rec.glues), "number of glue entries")
    callee_glues = {}
    for g in f.glue: callee_glues.setdefault(g[2], []).append(g)
    for call in calls:
        if call == "main": continue
        need(len(callee_glues.get(call, [])) == 1, "call " + call + " is not tied to its caller by exactly one glue")
    for k, (ctx1, ctx2, pairs) in enumerate(rec.glues):
        (g,) = callee_glues[ctx2]
        need(g[0] == ctx1, "glue of " + ctx2 + " names caller " + g[0] + " instead of " + ctx1)
        b1, b2 = f.blocks.get((ctx1, g[1])), f.blocks.get((ctx2, g[3]))
        need(b1 is not None and b2 is not None, "glue without blocks: " + str(g))
        need(len(b1) == len(b2) == len(pairs), "glue blocks of %s list %d/%d wires for %d values" % (ctx2, len(b1), len(b2), len(pairs)))
        for w1, w2, (v1, v2) in zip(b1, b2, pairs):
            need(w1.startswith(ctx1 + "/") and w2.startswith(ctx2 + "/"), "glue block wire in wrong context")
            vals = [f.value(w1) % P, f.value(w2) % P, v1 % P, v2 % P]
            need(len(set(vals)) == 1, "glued wires %s %s differ: %s" % (w1, w2, vals))
        need(f.value(ctx1 + "/rnd1_" + g[1]) == f.value(ctx2 + "/rnd1_" + g[3]), "glue blocks have different randomness")
        f.value(ctx1 + "/rnd2_" + g[1]); f.value(ctx2 + "/rnd2_" + g[3])
    for (gi, expected) in rec.calls:
        got = [a for (a, b) in rec.glues[gi][2]]
        need([x % P for x in got] == [x % P for x in expected],
             "glue of %s lists %s, arguments and results were %s" % (rec.glues[gi][1], got, expected))

    # --- external blocks
    need(sorted(e[:2] for e in sched_ext) == sorted(e[:2] for e in f.external), "schedule external blocks")
    for (ctx, nm, bn) in f.external:
        need((ctx, nm) in f.blocks, "external block without i/o block")
        vals = [int(ln) for ln in open(opt.get_block_file(bn))]
        names = f.blocks[(ctx, nm)]
        need(len(vals) == len(names) + 1, "block file of " + bn + " has wrong length")
        for w, v in zip(names, vals):
            need((f.value(w) - v) % P == 0, "block file of %s: %d but wire %s is %d" % (bn, v, w, f.value(w)))
        need((f.value(ctx + "/rnd1_" + nm) - vals[-1]) % P == 0, "block randomness of " + bn)

# ------------------------------------------------------------------------------------------------------------------ scenarios

INTERESTING = [0, 1, -1, 2, -7, 12345, -12345, P - 1, P, P + 1, -P, 1 - P, -(P + 5), 2 * P + 3, 2 ** 300, -(2 ** 300) - 17]

def s_arith(rt, be, rec):
    """ negative and large witnesses / public values in main, compared with Python """
    for a, b in itertools.product(INTERESTING, repeat=2):
        x, y = rt.PrivVal(a), rt.PubVal(b)
        z = x * y + 3 * x - y + 5
        need(z.value == a * b + 3 * a - b + 5, "value")
        out = z.val()
        need(out == a * b + 3 * a - b + 5, "output")
    need(len(rec.pubs) == 2 * len(INTERESTING) ** 2, "number of public values")
    verify(rec)

def s_brute(rt, be, rec):
    """ one function, called for all small witnesses """
    @be.subqap("mac")
    def mac(a, b):
        return a * b + a
    for a, b in itertools.product(range(-4, 5), repeat=2):
        r = rec.call(mac, rt.PrivVal(a), rt.PubVal(b))
        need(r.value == a * b + a, "mac value")
        r.val()
    verify(rec)

def s_nested(rt, be, rec):
    """ nested functions, several calls, structured arguments, large values, via prove() """
    @be.subqap("sq")
    def sq(x):
        return x * x
    @be.subqap("norm")
    def norm(vec, extra):
        acc = extra[0]
        for v in vec: acc = acc + rec.call(sq, v)
        return [acc, (acc * extra[1], 7)]
    @be.subqap("top")
    def top(a, b):
        r1 = rec.call(norm, [a, b], (a, b))
        r2 = rec.call(norm, [b, a], (b, a))
        return r1[0] * r2[1][0]
    for a, b in [(3, -4), (-(2 ** 200), P + 2), (0, 0), (P - 1, 1 - P)]:
        r = rec.call(top, rt.PrivVal(a), rt.PrivVal(b))
        n1 = a + a * a + b * b
        n2 = b + b * b + a * a
        need(r.value == n1 * (n2 * a), "nested value")
        r.val()
    verify(rec, run_prove=True)

def s_nonsingle(rt, be, rec):
    """ arguments / results that are no single wires (sums, multiples, constants) go through ensure_single """
    @be.subqap("lin")
    def lin(a, b, c):
        return a + b, 5 * c, a * b - c, rt.ConstVal(-3)
    for a, b in itertools.product([-5, 0, 2, P + 7, -(2 ** 130)], repeat=2):
        x, y = rt.PrivVal(a), rt.PrivVal(b)
        r = rec.call(lin, x + y, -3 * x, rt.ConstVal(a) + 1)
        need([t.value for t in r] == [(a + b) + (-3 * a), 5 * (a + 1), (a + b) * (-3 * a) - (a + 1), -3], "lin values")
        (r[0] + r[1] + r[2] + r[3]).val()
    verify(rec)

def s_guard(rt, be, rec):
    """ lazily evaluated branches (guards) with values that would fail unguarded, feeding and fed by a function
        (inside a function the library's comparison gadgets use main's constant wire, which qapsplit reports, so the
        branches themselves are in main) """
    from pysnark.branching import if_then_else
    @be.subqap("mul3")
    def mul3(x, y):
        return x * y * y
    for c, a, d in [(1, -3, 0), (0, 0, -6), (1, 5, 4), (0, 7, P + 2), (-9, -(2 ** 90), 0), (0, 0, 1 - P)]:
        cb, x, y = (rt.PrivVal(c) != 0), rt.PrivVal(a), rt.PrivVal(d)
        def yes():
            x.assert_nonzero()
            return x * x
        def no():
            y.assert_nonzero()
            return y * y + 1
        r = if_then_else(cb, yes, no)
        need(r.value == (a * a if c != 0 else d * d + 1), "branch value")
        q = rec.call(mul3, r, x)
        need(q.value == r.value * a * a, "mul3 value")
        r2 = if_then_else(cb, lambda: rt.PrivVal(q.value) * 2, lambda: q - 1)
        need(r2.value == (2 * q.value if c != 0 else q.value - 1), "second branch value")
        r2.val()
    verify(rec)

def s_extern(rt, be, rec):
    """ exported / imported blocks carry the wire values """
    vals = [5, -5, 0, P + 3, -(2 ** 140), P - 1]
    xs = [rt.PrivVal(v) for v in vals[:3]] + vals[3:]
    be.exportcomm(xs, "blk")
    back = be.importcomm("blk")
    need([(b.value - v) % P for b, v in zip(back, vals)] == [0] * len(vals), "imported values")
    s = back[0]
    for b in back[1:]: s = s * b + 1
    s.val()
    verify(rec)

def s_inconsistent(rt, be, rec):
    """ two bodies under one function name must be reported """
    def mk(k):
        @be.subqap("same")
        def fn(x):
            return x * x + k * x * x
        return fn
    rec.call(mk(1), rt.PrivVal(-2)).val()
    rec.call(mk(2), rt.PrivVal(3)).val()
    verify(rec, expect_inconsistent=True)

def s_twofns(rt, be, rec):
    """ different functions get different signatures; several calls of each, interleaved """
    @be.subqap("cube")
    def cube(x): return x * x * x
    @be.subqap("quad")
    def quad(x): return x * x * x * x
    for a in [-2, 0, 9, P + 1]:
        x = rt.PrivVal(a)
        r = rec.call(cube, x) + rec.call(quad, x)
        need(r.value == a ** 3 + a ** 4, "value")
        r.val()
    verify(rec)

def s_types(rt, be, rec):
    """ non-integer witnesses must not be written as some other value """
    import fractions
    for bad in [2.5, "7", fractions.Fraction(1, 3), None]:
        before = len(rec.privs)
        try:
            be.privval(bad)
        except TypeError:
            need(len(rec.privs) == before, "rejected value recorded")
            continue
        nm = rec.privs.pop()[1]
        txt = [ln for ln in open("pysnark_wires") if ln.startswith(nm + ":")][-1].partition(":")[2].strip()
        need(txt == str(bad), "non-integer " + repr(bad) + " silently written as " + txt)
        return "unchanged tree: non-integers are written verbatim"     # files are useless now, nothing more to check
    # rejected values must not leave holes: wire numbering continues, pubval writes nothing half-way
    try: be.pubval(1.5)
    except TypeError: pass
    x = rt.PrivVal(-4); y = rt.PubVal(True + 1)
    (x * y).val()
    need(rec.privs[0][1] == "main/1" and rec.pubs[0][1] == "main/2", "wire index burnt by a rejected value: " + str(rec.privs))
    verify(rec)

SCENARIOS = dict((k[2:], v) for (k, v) in list(globals().items()) if k.startswith("s_"))

# --------------------------------------------------------------------------------------------------------------------- driver

def child(name):
    import pysnark.runtime as rt
    rt.autoprove = False
    import pysnark.qaptools.backend as be
    need(rt.backend is be, "qaptools backend not selected")
    rec = Recorder(rt, be)
    try:
        note = SCENARIOS[name](rt, be, rec)
    except Fail as e:
        print("PROPERTY VIOLATED in scenario " + name + ": " + str(e))
        sys.exit(1)
    print("ok   %-13s %4d witnesses %4d public values %3d calls%s" % (name, len(rec.privs), len(rec.pubs), len(rec.glues), "   (" + note + ")" if note else ""))

def driver(names):
    top = tempfile.mkdtemp(prefix="r7-C12-", dir="/tmp")
    bad = []
    try:
        stub = os.path.join(top, "bin")
        os.mkdir(stub)
        for tool in ["qapgen", "qapgenf", "qapinput", "qapprove", "qapver", "qapcoeffcache"]:
            with open(os.path.join(stub, tool), "w") as fh: fh.write("#!/bin/sh\nexit 0\n")
            os.chmod(os.path.join(stub, tool), 0o755)
        env = dict(os.environ, PYSNARK_BACKEND="qaptools", QAPTOOLS_BIN=stub)
        for k in ["PYSNARK_KEYDIR", "PYSNARK_PROOFDIR", "QAPTOOLS_DEBUG"]: env.pop(k, None)
        for name in names:
            wd = os.path.join(top, name)
            os.mkdir(wd)
            r = subprocess.run([sys.executable, os.path.abspath(__file__), "--scenario", name], cwd=wd, env=env,
                               stdout=subprocess.PIPE, stderr=subprocess.PIPE, universal_newlines=True)
            sys.stdout.write(r.stdout)
            if r.returncode != 0:
                bad.append(name)
                if "PROPERTY VIOLATED" not in r.stdout: sys.stdout.write(r.stderr[-3000:])
    finally:
        shutil.rmtree(top, ignore_errors=True)
    if bad:
        print("FAILED: " + " ".join(bad))
        sys.exit(1)
    print("property C12 held in all %d scenarios" % len(names))

if __name__ == "__main__":
    if len(sys.argv) == 3 and sys.argv[1] == "--scenario": child(sys.argv[2])
    else: driver(sys.argv[1:] or sorted(SCENARIOS))
