#!/usr/bin/env python
"""
P.check.py - exercises the qaptools text interface (equation / wire / I-O / schedule / per-function equation files) of
pysnark with the normal-form (dict, like terms merged) linear combinations and checks property C12 on everything written.

Run as `python P.check.py` in an empty scratch directory with PYTHONPATH pointing at the tree under test.  Every scenario
runs in its own sub-process and sub-directory (the qaptools backend keeps module-level state); the qaptools binaries are
replaced by shell stubs that log their command line (this is how the function signatures are observed).

Exit status 0: the property was observed to hold everywhere; 1 otherwise.
"""
import itertools
import json
import os
import random
import subprocess
import sys

P = 21888242871839275222246405745257275088548364400416034343698204186575808495617
STUBS = ["qapgen", "qapgenf", "qapprove", "qapver", "qapinput", "qapcoeffcache"]
SPECIAL = [0, 1, -1, 2, -5, 7, 255, -256, P - 1, P, P + 3, -P - 2, 2 ** 200 + 7, -(2 ** 130) - 1, 3 * P + 11, 12345678901234567890]

# ---------------------------------------------------------------------------------------------------------------------
# child: trace one scenario with the qaptools backend and dump what was traced
# ---------------------------------------------------------------------------------------------------------------------

TRACE = {"cons": [], "pub": [], "calls": [], "error": None, "extra": [], "patched": None, "bf": []}


def child_setup():
    os.makedirs("bin", exist_ok=True)
    for t in STUBS:
        fn = os.path.join("bin", t)
        with open(fn, "w") as f:
            f.write('#!/bin/sh\necho "$@" >> calls_' + t + '.log\nexit 0\n')
        os.chmod(fn, 0o755)
    os.environ["PYSNARK_BACKEND"] = "qaptools"
    os.environ["QAPTOOLS_BIN"] = os.path.abspath("bin")
    for k in ["PYSNARK_KEYDIR", "PYSNARK_PROOFDIR", "QAPTOOLS_DEBUG"]: os.environ.pop(k, None)
    import pysnark.runtime as rt
    from pysnark.qaptools import backend
    assert rt.backend is backend, "qaptools backend not in effect"
    rt.autoprove = False   # we call prove() ourselves, exactly once

    orig_acu = rt.add_constraint_unsafe
    def acu(v, w, y):
        TRACE["cons"].append([str(v.value), str(w.value), str(y.value), str(v.lc), str(w.lc), str(y.lc)])
        return orig_acu(v, w, y)
    rt.add_constraint_unsafe = acu

    orig_pub = backend.pubval
    def pubval(val):
        ret = orig_pub(val)
        TRACE["pub"].append([backend.vc_ctx, str(val), str(ret)])
        return ret
    backend.pubval = pubval

    TRACE["patched"] = isinstance(backend.zero().sig, dict)
    return rt, backend


def flat(rt, struct):
    if isinstance(struct, (list, tuple)):
        return [y for x in struct for y in flat(rt, x)]
    return [struct] if isinstance(struct, rt.LinComb) else []


def sub(rt, backend, name):
    """ backend.subqap plus a record of what the caller passed and got back """
    def deco(fn):
        inner = backend.subqap(name)(fn)
        def outer(*args):
            rec = {"fn": name, "caller": backend.vc_ctx, "args": [[str(x.lc), str(x.value)] for x in flat(rt, args)]}
            ret = inner(*args)
            rec["rets"] = [[str(x.lc), str(x.value)] for x in flat(rt, ret)]
            TRACE["calls"].append(rec)   # post-order, like the [glue] lines
            return ret
        return outer
    return deco


def sc_basic(rt, backend, S):
    a = rt.PubVal(-5); b = rt.PrivVal(2 ** 200 + 7); c = rt.PrivVal(P + 3); d = rt.PubVal(3 * P + 11)
    e = a * b + c * 3 - d
    f = (e * e) * (a - b)
    (f - f.value).assert_zero()
    g = (a + a + a - a * 3 + b)          # merges to b
    (g * g - b * b).assert_zero()
    (a - a).assert_zero()                # all wires cancel
    (rt.ConstVal(4) - 4).assert_zero()   # constant cancels
    h = b / 1 + c * P                    # c*P has coefficient 0 mod p
    (h * a).val()
    f.val(); e.val()

    @S("idn")
    def idn(x):                          # (qapsplit needs at least one block in the program)
        return x + x - x
    idn(g); idn(e * 2 - e)


def sc_nested(rt, backend, S):
    @S("sq")
    def sq(x, y):
        return x * y + 3, [x * x - 7]

    @S("outer")
    def outer(a):
        r, [s] = sq(a, a + 1)
        r2, [s2] = sq(r, s)
        return r2 + s2

    a = rt.PubVal(-5); b = rt.PrivVal(3); c = rt.PrivVal(-(2 ** 130) - 1)
    z = outer(a * 2 + b)
    z2 = outer(b)
    z3 = outer(c - c + b * 2 - b)   # merges to the single wire b
    z.val(); (z2 - z3).assert_zero(); z3.val()
    sq(z, c)


def sc_cancel_args(rt, backend, S):
    @S("f3")
    def f3(x, y, z):
        t = x + y - x                 # single wire y after merging
        u = (t * z) + x * 0           # x*0 disappears
        return [u, t - y + z], x      # second result merges to z, third is the argument itself

    a = rt.PrivVal(7); b = rt.PrivVal(-256); c = rt.PubVal(P - 1)
    f3(a, a, a)                       # same wire three times
    f3(a - a, b + b, c * 1)           # empty LC, coefficient 2, single
    r = f3(a + b - b, b * (P + 1), a - c + c)   # all single after reduction mod p
    r[0][0].val()
    f3(rt.ConstVal(5), rt.ConstVal(0), a * 2 - a)


def sc_cancel_consistent(rt, backend, S):
    # k is a Python constant: before merging the equations of the calls differed textually, in normal form they agree
    @S("kx")
    def kx(x, k):
        y = x * k - x * (k - 1)
        return y * y

    a = rt.PrivVal(12345678901234567890)
    for k in [2, 3, 0, -4, P + 5, 2 ** 300]:
        (kx(a, k) - a * a).assert_zero()


def sc_inconsistent(rt, backend, S):
    # the equations really differ between the calls: must be reported at proving time
    @S("addk")
    def addk(x, k):
        return x * x + k

    a = rt.PrivVal(3)
    addk(a, 1); addk(a, 2)


def sc_inconsistent_coef(rt, backend, S):
    @S("mulk")
    def mulk(x, k):
        return (x * k) * x

    a = rt.PrivVal(3)
    mulk(a, 1); mulk(a, P + 2)


def sc_consistent_modp(rt, backend, S):
    # coefficients equal modulo p give the same function
    @S("mulk")
    def mulk(x, k):
        return (x * k) * x

    a = rt.PrivVal(-3)
    mulk(a, 2); mulk(a, P + 2); mulk(a, 2 - P)


def sc_pub_in_sub(rt, backend, S):
    @S("leaf")
    def leaf(x):
        y = x * x
        y.val()                       # public output inside the sub-circuit
        p = rt.PubVal(11)
        return y + p

    @S("mid")
    def mid(x, lst):
        q = rt.PubVal(-2)
        return [leaf(x + q), leaf(lst[0]), (leaf(lst[1][0]),)]

    a = rt.PubVal(2 ** 200 + 7); b = rt.PrivVal(-1)
    r = mid(a, [b, (a - b,)])
    mid(r[0], [r[1], (r[2][0],)])
    r[2][0].val()


def sc_bits(rt, backend, S):
    @S("fa")
    def fa(a, b, c):
        ab = a * b
        x = a + b - ab * 2
        xc = x * c
        s = x + c - xc * 2
        carry = ab + xc
        return s, carry

    @S("cancel")
    def cancel(x, y):
        m = (x + y) * (x - y)
        return m + y * y - x * x + x

    bits = [rt.PrivVal(v) for v in (0, 1)]
    for (a, b, c) in itertools.product(bits, repeat=3):
        s, carry = fa(a, b, c)
        (s + carry * 2 - a - b - c).assert_zero()
    for (x, y) in [(0, 0), (1, 2), (-1, P - 1), (2 ** 200 + 7, -5)]:
        x = rt.PrivVal(x)
        (cancel(x, rt.PrivVal(y)) - x).assert_zero()
    TRACE["bf"] = ["fa", "cancel"]


def sc_runtime_gadgets(rt, backend, S):
    @S("cmp")
    def cmp_(x, y):
        bits = x.to_bits()
        # (comparison results are LinCombBool objects, which subqap does not copy: hand back their LinComb)
        return (x < y).lc, bits[0] + bits[1], (y - x).check_positive().lc

    a = rt.PrivVal(1234); b = rt.PrivVal(77)
    r = cmp_(a, b); cmp_(b, a); cmp_(b, b)
    (a >= b).val()
    (a // b).val()
    (a % 16).val()
    sum(a.to_bits()).val()
    r[0].val()


def sc_comm(rt, backend, S):
    a = rt.PrivVal(5); b = rt.PrivVal(-7)
    backend.exportcomm([a, a * 2 + b - a, 9], "blk")
    vals = backend.importcomm("blk")
    (vals[0] - a).assert_zero()
    (vals[1] - a - b).assert_zero()

    @S("usesblk")
    def usesblk(x):
        vs = backend.importcomm("blk")
        return vs[2] * x

    usesblk(a); usesblk(b)


def sc_algebra(rt, backend, S):
    """ exhaustive comparison of Sig arithmetic with an independent dict model, over small expression trees """
    Sig = type(backend.zero())
    wa = backend.privval(5); wb = backend.privval(-3); on = backend.one(); ze = backend.zero()
    def parse(s):
        toks = str(s).split(" ") if str(s) != "" else []
        assert len(toks) % 2 == 0, "odd token count " + repr(str(s))
        return [(int(c), v) for (c, v) in zip(toks[0::2], toks[1::2])]
    def norm(d):
        return {v: c % P for (v, c) in d.items() if c % P != 0}
    atoms = [(x, norm(dict((v, c) for (c, v) in parse(x)))) for x in [wa, wb, on, ze]]
    consts = [0, 1, -1, 2, 3, P - 1, P, P + 1, -P, 2 * P + 3, 2 ** 300, -(2 ** 257) + 1]
    def addd(d, e, sgn=1):
        r = dict(d)
        for v in e: r[v] = r.get(v, 0) + sgn * e[v]
        return norm(r)
    def grow(level, others):
        out = []
        for (s, d) in level:
            out.append((-s, norm({v: -c for (v, c) in d.items()})))
            for k in consts: out.append((s * k, norm({v: c * k for (v, c) in d.items()})))
            for (t, e) in others:
                out.append((s + t, addd(d, e))); out.append((s - t, addd(d, e, -1))); out.append((t - s, addd(e, d, -1)))
        return out
    l2 = grow(atoms, atoms)
    l3 = grow(l2, atoms + l2[::7])
    rnd = random.Random(12)
    l4 = grow(rnd.sample(l3, 400), rnd.sample(l3, 25))
    n = 0; bad = []
    vals = {"main/1": 5, "main/2": -3, "main/onex": 1}
    for (s, d) in atoms + l2 + l3 + l4:
        n += 1
        terms = parse(s)
        wires = [v for (c, v) in terms]
        got = norm(dict((v, c) for (c, v) in terms)) if len(set(wires)) == len(wires) else None
        if TRACE["patched"]:
            if got != d or any(not (0 < c < P) for (c, v) in terms): bad.append([str(s), str(d)])
            single = s.single()
            if (single is not None) != (len(d) == 1 and list(d.values()) == [1]) or (single is not None and single not in d):
                bad.append(["single", str(s), str(single)])
            if s is not wa and s.sig is wa.sig: bad.append(["aliased dict", str(s)])
        # in any case the text must evaluate like the model, modulo p
        if (sum(c * vals[v] for (c, v) in terms) - sum(c * vals[v] for (v, c) in d.items())) % P != 0:
            bad.append(["value", str(s), str(d)])
    # the atoms themselves must not have been modified by all of the above (no in-place merging)
    if str(wa) != "1 main/1" or str(wb) != "1 main/2" or str(on) != "1 main/onex" or str(ze) != "":
        bad.append(["atoms modified", str(wa), str(wb), str(on), str(ze)])
    TRACE["extra"].append({"algebra_cases": n, "bad": bad[:10], "nbad": len(bad)})


def make_random_scenario(seed):
    def sc(rt, backend, S):
        fns = {}
        def body(name, depth, nargs):
            rng0 = random.Random(str(seed) + name)
            prog = []
            nv = nargs
            for _ in range(rng0.randint(2, 7)):
                op = rng0.choice(["add", "sub", "mulc", "mul", "neg", "cancel", "dup", "call", "const"])
                if op == "call" and depth == 0: op = "mul"
                prog.append((op, rng0.randrange(1 << 30), rng0.randrange(1 << 30), rng0.choice(SPECIAL)))
                nv += 1
            nret = rng0.randint(0, 3)
            retix = [rng0.randrange(1 << 30) for _ in range(nret)]
            nest = rng0.random() < 0.5
            def fn(*args):
                vs = flat(rt, args)
                assert len(vs) == nargs
                for (op, i, j, k) in prog:
                    x = vs[i % len(vs)]; y = vs[j % len(vs)]
                    if op == "add": vs.append(x + y)
                    elif op == "sub": vs.append(x - y)
                    elif op == "mulc": vs.append(x * k)
                    elif op == "mul": vs.append(x * y)
                    elif op == "neg": vs.append(-x + k)
                    elif op == "cancel": vs.append(x + y * k - y * (k - 1) - y)
                    elif op == "dup": vs.append(x + x - y + y)
                    elif op == "const": vs.append(rt.ConstVal(k) + x * 0)
                    elif op == "call":
                        cn = name + "c" + str(i % 2)
                        res = get(cn, depth - 1, 2)(x, [y])
                        vs.extend(flat(rt, res) or [x])
                rets = [vs[i % len(vs)] for i in retix]
                if nest and len(rets) >= 2: return [rets[0], tuple(rets[1:])]
                return rets
            return fn
        def get(name, depth, nargs):
            if name not in fns: fns[name] = S(name)(body(name, depth, nargs))
            return fns[name]
        rng = random.Random(seed)
        pool = [rt.PrivVal(rng.choice(SPECIAL)) for _ in range(3)] + [rt.PubVal(rng.choice(SPECIAL))]
        for rep in range(rng.randint(2, 4)):
            x = rng.choice(pool); y = rng.choice(pool)
            arg = rng.choice([x, x + y, x - x + y, x * 3, x * rng.choice(SPECIAL) + 1])
            res = flat(rt, get("r" + str(rng.randrange(2)), 2, 3)(arg, (y, [x])))
            pool.extend(res[:2])
            if res: res[0].val()
    return sc


SCENARIOS = {
    "basic": (sc_basic, None), "nested": (sc_nested, None), "cancel_args": (sc_cancel_args, None),
    "cancel_consistent": (sc_cancel_consistent, None), "inconsistent": (sc_inconsistent, "Inconsistent functions"),
    "inconsistent_coef": (sc_inconsistent_coef, "Inconsistent functions"), "consistent_modp": (sc_consistent_modp, None),
    "pub_in_sub": (sc_pub_in_sub, None), "bits": (sc_bits, None), "runtime_gadgets": (sc_runtime_gadgets, None),
    "comm": (sc_comm, None), "algebra": (sc_algebra, None),
}
for _seed in range(24):
    SCENARIOS["random%02d" % _seed] = (make_random_scenario(_seed), None)


def child(name):
    rt, backend = child_setup()
    S = lambda nm: sub(rt, backend, nm)
    SCENARIOS[name][0](rt, backend, S)
    try:
        if name != "algebra": backend.prove()   # (the algebra scenario only looks at Sig objects)
    except Exception as e:   # an inconsistency report
        TRACE["error"] = type(e).__name__ + ": " + str(e)
    with open("trace.json", "w") as f: json.dump(TRACE, f)


# ---------------------------------------------------------------------------------------------------------------------
# parent: check the files of one scenario
# ---------------------------------------------------------------------------------------------------------------------

def parse_lc(s):
    toks = [t for t in s.strip().split(" ") if t != "" and t != "."]
    if len(toks) % 2: raise ValueError("bad linear combination " + repr(s))
    return [(int(c), v) for (c, v) in zip(toks[0::2], toks[1::2])]


def parse_eq(ln):
    lhs, rhs = ln.split("=")
    t1, t2 = lhs.split("*")
    return parse_lc(t1), parse_lc(t2), parse_lc(rhs)


def lcdict(lc):
    d = {}
    for (c, v) in lc: d[v] = (d.get(v, 0) + c) % P
    return {v: c for (v, c) in d.items() if c}


def readvals(fn, vals, probs):
    n = 0
    for ln in open(fn):
        ln = ln.strip()
        if ln == "" or ln[0] == "#": continue
        var, val = ln.split(" ")
        var = var[:-1]
        if var in vals: probs.append("wire written twice: " + var)
        vals[var] = int(val); n += 1
    return n


def strip_ctx(tok):
    l, m, r = tok.partition("/")
    return r if m else l


def solutions(eqs, wires, dom):
    """ all assignments of wires over dom satisfying eqs (backtracking; `one` is the constant 1) """
    eqw = [set(v for lc in eq for (c, v) in lc if v != "one") for eq in eqs]
    order = sorted(wires, key=lambda w: (w != "onex", len(w), w))
    ready = {}
    seen = set()
    for (i, w) in enumerate(order):
        seen.add(w)
        ready[i] = [eqs[j] for j in range(len(eqs)) if eqw[j] <= seen and not eqw[j] <= (seen - {w})]
    ass = {"one": 1}
    def ev(lc): return sum(c * ass[v] for (c, v) in lc)
    def rec(i):
        if i == len(order):
            yield dict(ass); return
        for x in dom:
            ass[order[i]] = x
            if all((ev(a) * ev(b) - ev(y)) % P == 0 for (a, b, y) in ready[i]):
                for s in rec(i + 1): yield s
        del ass[order[i]]
    return rec(0)


BF_SPEC = {   # function -> (number of arguments, model of the results)
    "fa": (3, lambda a, b, c: ((a + b + c) % 2, (a + b + c) // 2) if all(x in (0, 1) for x in (a, b, c)) else None),
    "cancel": (2, lambda x, y: (x,)),
}


def verify(name, d, registry):
    probs = []
    trace = json.load(open(os.path.join(d, "trace.json")))
    expect_err = SCENARIOS[name][1]
    if expect_err is not None:
        if trace["error"] is None or expect_err not in trace["error"]:
            probs.append("inconsistency not reported, got " + str(trace["error"]))
        return probs, trace
    if trace["error"] is not None:
        return ["unexpected error " + trace["error"]], trace
    for ex in trace["extra"]:
        if ex.get("nbad"): probs.append("algebra mismatches: " + str(ex))
    if name == "algebra": return probs, trace
    patched = trace["patched"]
    F = lambda f: os.path.join(d, f)

    vals = {}
    readvals(F("pysnark_wires"), vals, probs)
    nio = readvals(F("pysnark_values"), vals, probs)
    def getval(v):
        if v in vals: return vals[v]
        if v.endswith("/one"): return 1
        raise KeyError("no value for wire " + v)
    def ev(lc): return sum(c * getval(v) for (c, v) in lc)

    calls = {}; order = []; eqlines = {}; blocks = {}; glues = []; externals = []; alleqs = []
    for ln in open(F("pysnark_eqs")):
        ln = ln.strip()
        if ln == "" or ln[0] == "#": continue
        toks = ln.split(" ")
        if toks[0] == "[function]":
            if toks[2] in calls: probs.append("call name used twice " + toks[2])
            calls[toks[2]] = toks[1]; order.append(toks[2]); eqlines.setdefault(toks[2], [])
        elif toks[0] == "[ioblock]":
            if (toks[1], toks[2]) in blocks: probs.append("block declared twice " + ln)
            for w in toks[3:]:
                if w.partition("/")[0] != toks[1]: probs.append("block wire outside its context: " + ln)
            if len(toks) <= 3: probs.append("empty block " + ln)
            blocks[(toks[1], toks[2])] = toks[3:]
            eqlines.setdefault(toks[1], []).append(" ".join(["[ioblock]", toks[2]] + [strip_ctx(w) for w in toks[3:]]))
            for r in ["rnd1_", "rnd2_"]:
                if toks[1] + "/" + r + toks[2] not in vals: probs.append("no randomness wire for block " + ln)
        elif toks[0] == "[glue]": glues.append(toks[1:])
        elif toks[0] == "[external]": externals.append(toks[1:])
        else:
            try:
                a, b, y = parse_eq(ln)
            except Exception as e:
                probs.append("unparsable equation %r: %s" % (ln, e)); continue
            alleqs.append((ln, a, b, y))
            # 1. satisfied modulo p by the wire and I/O values
            try:
                if (ev(a) * ev(b) - ev(y)) % P != 0: probs.append("equation not satisfied: " + ln)
            except KeyError as e:
                probs.append(str(e) + " in " + ln)
            ctxs = set(v.partition("/")[0] for lc in (a, b, y) for (c, v) in lc)
            if len(ctxs) != 1:
                probs.append("equation with %d contexts: %s" % (len(ctxs), ln)); continue
            ctx = ctxs.pop()
            if ctx not in calls: probs.append("equation of undeclared call: " + ln); continue
            eqlines[ctx].append(" ".join(strip_ctx(t) for t in toks))
            for lc in (a, b, y):
                ws = [v for (c, v) in lc]
                if patched and len(set(ws)) != len(ws): probs.append("wire twice in one linear combination: " + ln)
                if patched and any(c % P == 0 for (c, v) in lc): probs.append("zero coefficient: " + ln)
                if any(not (-1 <= c < P) for (c, v) in lc): probs.append("coefficient not reduced: " + ln)

    # 2. what was traced is what was written
    cons = trace["cons"]
    nonvac = [c for c in cons if c[3] or c[4] or c[5]]
    written = sorted((tuple(sorted(lcdict(a).items())), tuple(sorted(lcdict(b).items())), tuple(sorted(lcdict(y).items())))
                     for (ln, a, b, y) in alleqs if ln.endswith("."))
    traced = sorted(tuple(tuple(sorted(lcdict(parse_lc(s)).items())) for s in c[3:6]) for c in (nonvac if patched else cons))
    if written != traced: probs.append("traced constraints (%d) differ from written equations (%d)" % (len(traced), len(written)))
    for c in cons:
        v, w, y = int(c[0]), int(c[1]), int(c[2])
        if (v * w - y) % P != 0: probs.append("scenario traced a false constraint " + str(c[:3]))
        try:
            for (val, s) in zip((v, w, y), c[3:6]):
                if (ev(parse_lc(s)) - val) % P != 0: probs.append("linear combination %r does not evaluate to its value %d" % (s, val))
        except KeyError as e:
            probs.append(str(e))
    if len(alleqs) != len(order) + len(trace["pub"]) + len(written):
        probs.append("unexpected number of equations: %d != %d+%d+%d" % (len(alleqs), len(order), len(trace["pub"]), len(written)))
    for c in order:
        if ("* = 1 %s/one -1 %s/onex" % (c, c)) not in [e[0] for e in alleqs]: probs.append("no one-wire equation for " + c)
        if vals.get(c + "/onex") != 1: probs.append("onex is not one in " + c)

    # 3. public values: wire, I/O wire, linking equation
    if nio != len(trace["pub"]): probs.append("I/O file has %d values for %d public values" % (nio, len(trace["pub"])))
    ioctr = {}
    for (ctx, val, sig) in trace["pub"]:
        ioctr[ctx] = ioctr.get(ctx, 0) + 1
        sido = ctx + "/o_" + str(ioctr[ctx])
        lc = parse_lc(sig)
        if len(lc) != 1 or lc[0][0] != 1: probs.append("public value is not one wire: " + sig); continue
        sid = lc[0][1]
        if sid.partition("/")[0] != ctx: probs.append("public wire in wrong context " + sid)
        if sido not in vals or (vals[sido] - int(val)) % P != 0 or vals[sido] != int(val): probs.append("I/O value wrong for " + sido)
        if sid not in vals or (vals[sid] - int(val)) % P != 0: probs.append("wire value wrong for " + sid)
        want = {sid: 1, sido: P - 1}
        if not any(not a and not b and lcdict(y) == want for (ln, a, b, y) in alleqs): probs.append("no linking equation for " + sido)

    # 4. per-function files, schedule, signatures
    sched = [ln.strip() for ln in open(F("pysnark_schedule")) if ln.strip()]
    want_sched = []
    for ln in open(F("pysnark_eqs")):
        toks = ln.strip().split(" ")
        if toks[0] == "[function]": want_sched.append("[function] %s pysnark_eqs_%s pysnark_ek_%s pysnark_vk_%s" % (toks[2], toks[1], toks[1], toks[1]))
        elif toks[0] == "[glue]": want_sched.append(ln.strip())
        elif toks[0] == "[external]": want_sched.append("[external] %s %s pysnark_wires_%s pysnark_comm_%s" % tuple(toks[1:4] + [toks[3]]))
    if sched != want_sched: probs.append("schedule differs from the traced calls/glue")
    sigs = {}
    if os.path.exists(F("calls_qapgenf.log")):
        for ln in open(F("calls_qapgenf.log")):
            toks = ln.strip().split(" ")
            sigs[toks[2][len("pysnark_eqs_"):]] = toks[5]
    byfn = {}
    for c in order: byfn.setdefault(calls[c], []).append(c)
    fnfiles = {}
    for fn in byfn:
        want = sorted(eqlines[byfn[fn][0]])
        for c in byfn[fn][1:]:
            if sorted(eqlines[c]) != want: probs.append("calls %s and %s of %s differ but no inconsistency was reported" % (byfn[fn][0], c, fn))
        try:
            got = open(F("pysnark_eqs_" + fn)).read().rstrip("\n").split("\n")
        except IOError:
            probs.append("no equation file for " + fn); continue
        if got != want: probs.append("equation file of %s does not hold exactly the traced equations (%d lines vs %d)" % (fn, len(got), len(want)))
        fnfiles[fn] = got
        if fn not in sigs: probs.append("no signature seen for " + fn); continue
        content = "\n".join(got)
        if registry["bycontent"].setdefault(content, sigs[fn]) != sigs[fn]: probs.append("same equations, two signatures: " + fn)
        if registry["bysig"].setdefault(sigs[fn], content) != content: probs.append("different equations, same signature: " + fn)

    # 5. glue: every call tied to its caller by paired blocks with all arguments and results, equal values
    if len(glues) != len(trace["calls"]): probs.append("%d glue lines for %d calls" % (len(glues), len(trace["calls"])))
    zeroeqs = {}
    for (ln, a, b, y) in alleqs:
        if not a and not b: zeroeqs.setdefault(tuple(sorted(lcdict(y).items())), []).append(ln)
    for (g, rec) in zip(glues, trace["calls"]):
        ctx1, bn1, ctx2, bn2 = g
        if calls.get(ctx2) != rec["fn"] or ctx1 != rec["caller"]: probs.append("glue %s does not belong to call %s" % (g, rec["fn"])); continue
        b1 = blocks.get((ctx1, bn1)); b2 = blocks.get((ctx2, bn2))
        if b1 is None or b2 is None: probs.append("glued block not declared " + str(g)); continue
        io = rec["args"] + rec["rets"]
        if len(b1) != len(io) or len(b2) != len(io): probs.append("glue %s lists %d/%d wires for %d arguments+results" % (g, len(b1), len(b2), len(io))); continue
        if vals.get(ctx1 + "/rnd1_" + bn1) != vals.get(ctx2 + "/rnd1_" + bn2): probs.append("glued blocks use different randomness " + str(g))
        for (i, (w1, w2, (sig, val))) in enumerate(zip(b1, b2, io)):
            if (vals[w1] - vals[w2]) % P != 0: probs.append("glued wires %s,%s differ in value" % (w1, w2))
            if (vals[w1] - int(val)) % P != 0: probs.append("glued wire %s does not carry the argument/result value" % w1)
            lc = lcdict(parse_lc(sig))
            if lc != {w1: 1}:
                # caller side was re-expressed by a fresh wire: must be tied to the argument by an equation
                if i >= len(rec["args"]): probs.append("result %d of %s not returned as the glued wire %s" % (i, rec["fn"], w1))
                tie = dict(lc); tie[w1] = (tie.get(w1, 0) - 1) % P
                neg = {v: (-c) % P for (v, c) in tie.items()}
                if tuple(sorted(tie.items())) not in zeroeqs and tuple(sorted(neg.items())) not in zeroeqs:
                    probs.append("argument %d of %s (%s) not tied to glued wire %s" % (i, rec["fn"], sig, w1))
            if i < len(rec["args"]) and w2 != "%s/%d" % (ctx2, i + 1): probs.append("argument %d of %s glued to %s" % (i, ctx2, w2))
    gl = set((g[2]) for g in glues)
    for c in order:
        if c != "main" and c not in gl: probs.append("call %s is not glued to its caller" % c)

    # 6. brute force: the per-function equations still mean the function
    for fn in trace["bf"]:
        nargs, model = BF_SPEC[fn]
        eqs = []; blk = None
        for ln in fnfiles.get(fn, []):
            if ln.startswith("[ioblock]"): blk = ln.split(" ")[2:]
            else: eqs.append(parse_eq(ln))
        wires = set(v for eq in eqs for lc in eq for (c, v) in lc if v != "one")
        dom = [0, 1, 2, P - 1]
        nsol = 0; ins = set()
        for s in solutions(eqs, wires, dom):
            nsol += 1
            i = tuple(s[w] for w in blk[:nargs]); o = tuple(s[w] for w in blk[nargs:])
            m = model(*i)
            if m is not None:
                ins.add(i)
                if tuple(x % P for x in m) != o: probs.append("brute force: %s%s gives %s" % (fn, i, o))
        need = set(i for i in itertools.product(dom, repeat=nargs) if model(*i) is not None and (fn != "cancel" or all((x * x) % P in dom for x in i)))
        if not need <= ins: probs.append("brute force: %s has no solution for inputs %s" % (fn, sorted(need - ins)[:3]))
        trace["extra"].append({"bruteforce": fn, "solutions": nsol, "inputs": len(ins)})
    return probs, trace


def main():
    if len(sys.argv) == 3 and sys.argv[1] == "--run":
        child(sys.argv[2]); return 0
    registry = {"bycontent": {}, "bysig": {}}
    bad = 0; stats = {"eqs": 0, "calls": 0, "pubs": 0, "scen": 0}
    only = sys.argv[1:]
    for name in SCENARIOS:
        if only and name not in only: continue
        d = os.path.abspath("sc_" + name)
        os.makedirs(d)
        r = subprocess.run([sys.executable, os.path.abspath(__file__), "--run", name], cwd=d, stdout=subprocess.PIPE, stderr=subprocess.STDOUT)
        if r.returncode != 0 or not os.path.exists(os.path.join(d, "trace.json")):
            print("FAIL", name, ": scenario crashed\n" + r.stdout.decode(errors="replace")[-3000:]); bad += 1; continue
        try:
            probs, trace = verify(name, d, registry)
        except Exception as e:
            import traceback; traceback.print_exc()
            probs, trace = ["checker exception " + repr(e)], {"cons": [], "calls": [], "pub": [], "extra": []}
        stats["eqs"] += len(trace["cons"]); stats["calls"] += len(trace["calls"]); stats["pubs"] += len(trace["pub"]); stats["scen"] += 1
        if probs:
            bad += 1
            print("FAIL", name)
            for p in probs[:12]: print("    ", p[:300])
        else:
            print("ok  ", name, "constraints=%d calls=%d pub=%d" % (len(trace["cons"]), len(trace["calls"]), len(trace["pub"])),
                  ("expected report: " + trace["error"][:60]) if trace.get("error") else "", trace["extra"] if trace["extra"] else "")
    print("scenarios=%(scen)d constraints=%(eqs)d calls=%(calls)d public values=%(pubs)d" % stats,
          "distinct function files=%d" % len(registry["bycontent"]))
    if bad:
        print("PROPERTY VIOLATED in", bad, "scenario(s)"); return 1
    print("property held everywhere"); return 0


if __name__ == "__main__":
    sys.exit(main())
