#!/usr/bin/env python
"""
C20 evidence for P (ggh_hash: mixed plain / traced bit lists, LinCombBool bits, any iterable,
coefficients computed once).

Run as   PYTHONPATH=<tree> /venv/bin/python P.check.py   from an empty directory.  Exit 0 iff the
property held in every case under every backend.

For each backend (nobackend: modulus 10000; snarkjs, zkinterface: BN254; zkifbellman: BLS12-381;
zkifbulletproofs: curve25519 group order; the zkif* backends get a stub for the flatbuffers package,
which is only needed to write files) a worker process checks, for many messages,

  (1) value     the traced subset-sum hash carries exactly the field element the plain reference
                (re-implemented below from the description: coefficient i = first SHA512(i||ctr),
                read little endian, cut to bitlength(p) bits, that is < p) gives for the VALUES of
                the bits - whatever mix of int / bool / LinComb / LinCombBool carries them;
  (2) wire      the returned linear combination, evaluated on the witness the backend recorded,
                gives that same field element (so the value is not merely book-keeping);
  (3) cost      no constraint is emitted by hashing, for every message (hence independent of the
                input values), also under a guard that is off / on and with ignore_errors;
  (4) vector    the published vector (examples/hash.py) is reproduced over BN254, plain and traced,
                pure and mixed;
  (5) plain     all-plain messages still give the plain int, a generator gives what the list gives;
  (6) cache     the memoised coefficient function equals the reference on first and repeated use;
  (7) system    every constraint the backend recorded during the run holds on the recorded witness,
                and LinComb.ZERO / LinComb.ONE still carry 0 / 1;
  (8) poseidon  (untouched by P, checked as a regression guard where parameters are registered)
                digests equal a plain reference sponge, constraint counts only depend on the length.
"""
import hashlib
import os
import random
import struct
import subprocess
import sys
import types

CONFIGS = ["nobackend", "snarkjs", "zkinterface", "zkifbellman", "zkifbulletproofs"]
BN254 = 21888242871839275222246405745257275088548364400416034343698204186575808495617
VECTOR_BITS = [1, 0, 1, 1, 1, 0, 1, 0, 1, 1, 1, 0, 1]
VECTOR_HASH = 3815100955245901773194254220410253439371965309251566846530536701111841134788


def driver(configs):
    bad = []
    for cfg in configs:
        env = dict(os.environ)
        env["PYSNARK_BACKEND"] = cfg
        r = subprocess.run([sys.executable, os.path.abspath(__file__), "--worker", cfg], env=env)
        if r.returncode != 0:
            bad.append(cfg)
    if bad:
        print("P.check: property C20 FAILED under", ", ".join(bad))
        sys.exit(1)
    print("P.check: property C20 held in all cases under", ", ".join(configs))
    sys.exit(0)


def install_flatbuffers_stub():
    fb = types.ModuleType("flatbuffers")
    compat = types.ModuleType("flatbuffers.compat")
    compat.import_numpy = lambda: None
    fb.compat = compat
    sys.modules["flatbuffers"] = fb
    sys.modules["flatbuffers.compat"] = compat


def worker(cfg):
    if cfg.startswith("zkif") or cfg == "zkinterface":
        install_flatbuffers_stub()
    os.environ["PYSNARK_BACKEND"] = cfg

    import pysnark.runtime as rt
    rt.autoprove = False
    assert rt.backend_name == cfg, (rt.backend_name, cfg)
    from pysnark.runtime import PrivVal, PubVal, ConstVal, LinComb, guarded, ignore_errors
    from pysnark.boolean import PrivValBool, PubValBool, LinCombBool
    from pysnark.fixedpoint import PrivValFxp
    from pysnark.branching import if_then_else
    import pysnark.ggh_hash as gh

    P = rt.backend.get_modulus()
    assert gh.PRIME == P
    rnd = random.Random(20)
    fails = []
    ncases = [0]

    def fail(msg):
        fails.append(msg)

    # ---- plain reference, written from the description -----------------------------------------
    ref_cache = {}

    def ref_coeff(i):
        if i not in ref_cache:
            nbits = P.bit_length()
            ctr = 0
            while True:
                dig = hashlib.sha512(struct.pack("=QQ", i, ctr)).digest()
                v = int.from_bytes(dig, "little") & ((1 << nbits) - 1)
                if v < P:
                    break
                ctr += 1
            ref_cache[i] = v
        return ref_cache[i]

    def ref_hash(values):
        return sum(v * ref_coeff(i) for i, v in enumerate(values)) % P

    # ---- witness evaluation for the dict based backends ----------------------------------------
    def eval_lc(lc):
        d = getattr(lc, "lc", None)
        if d is None:
            return None
        tot = 0
        for k, c in d.items():
            v = 1 if k == 0 else (rt.backend.pubvals[k - 1] if k > 0 else rt.backend.privvals[-k - 1])
            tot += c * v
        return tot % P

    # ---- building a message: every element kind carries a given value ---------------------------
    KINDS_BIT = ["int", "bool", "priv", "pub", "const", "privbool", "pubbool", "sum"]
    KINDS_ANY = ["int", "priv", "pub", "const", "sum"]

    def make(kind, v):
        if kind == "int":
            return v
        if kind == "bool":
            return bool(v)
        if kind == "priv":
            return PrivVal(v)
        if kind == "pub":
            return PubVal(v)
        if kind == "const":
            return ConstVal(v)
        if kind == "privbool":
            return PrivValBool(v)
        if kind == "pubbool":
            return PubValBool(v)
        if kind == "sum":           # a genuine linear combination of two wires and a constant
            r = rnd.randrange(0, 50)
            return PrivVal(v - r - 3) + PubVal(r) + 3
        raise AssertionError(kind)

    def traced_kind(k):
        return k not in ("int", "bool")

    def run_case(label, values, kinds, as_iter=list):
        """hash the message given by values/kinds and check (1) (2) (3)"""
        ncases[0] += 1
        msg = [make(k, v) for k, v in zip(kinds, values)]
        want = ref_hash(values)
        before = rt.num_constraints
        try:
            out = gh.ggh_hash(as_iter(msg))
        except Exception as e:   # noqa
            fail("%s: ggh_hash raised %r for kinds %s" % (label, e, kinds))
            return
        cost = rt.num_constraints - before
        if cost != 0:
            fail("%s: hashing emitted %d constraints (kinds %s)" % (label, cost, kinds))
        if any(traced_kind(k) for k in kinds):
            if not isinstance(out, LinComb):
                fail("%s: traced message gave %r, not a LinComb" % (label, type(out)))
                return
            if out.value != want:
                fail("%s: value %d, plain reference %d (values %s kinds %s)" % (label, out.value, want, values, kinds))
            w = eval_lc(out.lc)
            if w is not None and w != want:
                fail("%s: wire evaluates to %d on the witness, plain reference %d (kinds %s)" % (label, w, want, kinds))
        else:
            if isinstance(out, LinComb) or out != want:
                fail("%s: plain message gave %r, plain reference %d" % (label, out, want))

    # (6) coefficient cache: first use, repeated use, interleaved order
    order = list(range(0, 300)) + [1000, 5000, 2 ** 40, 3, 3, 299, 0]
    rnd.shuffle(order)
    for i in order + order[:50]:
        if gh.SHA512_prng(i) != ref_coeff(i):
            fail("coefficient %d: %d, reference %d" % (i, gh.SHA512_prng(i), ref_coeff(i)))
    if hasattr(gh.SHA512_prng, "__wrapped__"):
        for i in range(60):
            if gh.SHA512_prng.__wrapped__(i) != gh.SHA512_prng(i):
                fail("cached coefficient %d differs from a fresh computation" % i)

    # (4) published vector over BN254
    if P == BN254:
        if ref_hash(VECTOR_BITS) != VECTOR_HASH:
            fail("reference does not reproduce the published vector (harness bug)")
        for name, kinds in [("plain", ["int"] * 13), ("traced", ["priv"] * 13), ("bools", ["privbool"] * 13),
                            ("int first", ["int"] + ["priv"] * 12), ("int last", ["priv"] * 12 + ["int"]),
                            ("alternating", ["bool", "pubbool", "int", "priv", "const"] * 2 + ["sum", "int", "privbool"])]:
            msg = [make(k, v) for k, v in zip(kinds, VECTOR_BITS)]
            try:
                out = gh.ggh_hash(msg)
            except Exception as e:   # noqa
                fail("published vector, %s message: ggh_hash raised %r" % (name, e))
                continue
            got = out.value if isinstance(out, LinComb) else out
            if got != VECTOR_HASH:
                fail("published vector, %s message: %d" % (name, got))
            if isinstance(out, LinComb) and eval_lc(out.lc) not in (None, VECTOR_HASH):
                fail("published vector, %s message: wire evaluates to %d" % (name, eval_lc(out.lc)))

    # (1)(2)(3) bit messages: every single kind, and random mixes, lengths 0 .. 40 and a long one
    for kind in KINDS_BIT:
        for n in [0, 1, 2, 3, 13, 40]:
            vals = [rnd.randint(0, 1) for _ in range(n)]
            run_case("pure %s len %d" % (kind, n), vals, [kind] * n)
    for n in list(range(0, 41)) + [257, 600]:
        for rep in range(3 if n <= 40 else 1):
            vals = [rnd.randint(0, 1) for _ in range(n)]
            kinds = [rnd.choice(KINDS_BIT) for _ in range(n)]
            run_case("mixed len %d #%d" % (n, rep), vals, kinds)
    # the positions of the plain bits matter for the old code: plain first / last / only one traced
    for n in [2, 5, 13]:
        for pos in range(n):
            vals = [rnd.randint(0, 1) for _ in range(n)]
            for tk in ["priv", "privbool", "const"]:
                run_case("one traced at %d of %d" % (pos, n), vals, ["int"] * pos + [tk] + ["bool"] * (n - pos - 1))
                run_case("one plain at %d of %d" % (pos, n), vals, [tk] * pos + ["int"] + [tk] * (n - pos - 1))
    # all zero / all one messages
    for n in [1, 7, 30]:
        for b in (0, 1):
            run_case("constant message", [b] * n, [rnd.choice(KINDS_BIT) for _ in range(n)])

    # (1)(2)(3) non-bit contents: the hash is linear, the reference is defined for any integers
    edge = [0, 1, 2, -1, -2, P - 1, P, P + 1, P // 2, -P, 2 * P + 5, (1 << 300) + 7, -(1 << 270), 12345]
    for n in [1, 2, 5, 14, 33]:
        for rep in range(4):
            vals = [rnd.choice(edge + [rnd.randrange(-P, 2 * P)]) for _ in range(n)]
            kinds = [rnd.choice(KINDS_ANY) for _ in range(n)]
            run_case("field values len %d #%d" % (n, rep), vals, kinds)

    # (5) other iterables
    for n in [0, 1, 6, 20]:
        vals = [rnd.randint(0, 1) for _ in range(n)]
        for kinds in (["int"] * n, ["priv"] * n, [rnd.choice(KINDS_BIT) for _ in range(n)]):
            run_case("tuple", vals, kinds, tuple)
            run_case("generator", vals, kinds, lambda m: (x for x in m))
            run_case("iterator", vals, kinds, iter)

    # direct calls of the two halves
    vals = [rnd.randint(0, 1) for _ in range(17)]
    try:
        out = gh.ggh_hash_nonplain(list(vals))
        if not isinstance(out, LinComb) or out.value != ref_hash(vals) or eval_lc(out.lc) not in (None, ref_hash(vals)):
            fail("ggh_hash_nonplain on plain bits: %r" % (out,))
        out = gh.ggh_hash_nonplain([])
        if not isinstance(out, LinComb) or out.value != 0:
            fail("ggh_hash_nonplain([]) = %r" % (out,))
    except Exception as e:   # noqa
        fail("ggh_hash_nonplain on plain bits raised %r" % (e,))
    if gh.ggh_hash_plain(vals) != ref_hash(vals):
        fail("ggh_hash_plain differs from the reference")
    if gh.ggh_hash([]) != 0:
        fail("ggh_hash([]) != 0")

    # unsupported element types are refused, not hashed as something else
    for badmsg in ([PrivVal(1), 0.5], [PrivVal(1), "1"], [None, PrivVal(0)], [PrivVal(1), PrivValFxp(1.0)], [PrivValBool(1), [1]]):
        before = rt.num_constraints
        try:
            r = gh.ggh_hash(badmsg)
            fail("unsupported element accepted: %r -> %r" % (badmsg, r))
        except TypeError:
            pass
        except Exception as e:   # noqa
            fail("unsupported element: expected TypeError, got %r" % (e,))
        if rt.num_constraints != before:
            fail("refused message left constraints behind")

    # (3) guards: branch not taken / taken, nested in if_then_else, ignore_errors
    def guarded_case(gval, label):
        n = 11
        vals = [rnd.randint(0, 1) for _ in range(n)]
        kinds = [rnd.choice(["int", "bool", "priv", "pub", "sum"]) for _ in range(n)]
        msg = [make(k, v) for k, v in zip(kinds, vals)]
        bools = [PrivValBool(v) for v in vals]        # made outside: the constructor costs a constraint
        res = {}

        def body():
            b0 = rt.num_constraints
            res["a"] = gh.ggh_hash(msg)
            res["b"] = gh.ggh_hash([1] + bools[1:] if vals[0] == 1 else [0] + bools[1:])
            res["cost"] = rt.num_constraints - b0
            return res["a"]
        g = PrivVal(gval)
        try:
            guarded(g)(body)()
        except Exception as e:   # noqa
            fail("%s: ggh_hash raised %r under the guard" % (label, e))
            return
        want = ref_hash(vals)
        if res["cost"] != 0:
            fail("%s: %d constraints under guard" % (label, res["cost"]))
        for key in "ab":
            o = res[key]
            if not isinstance(o, LinComb) or o.value != want or eval_lc(o.lc) not in (None, want):
                fail("%s: %s under guard value %r, reference %d" % (label, key, o, want))
    for gval in (0, 1, 0, 1):
        guarded_case(gval, "guard=%d" % gval)

    for c in (0, 1):
        vals = [rnd.randint(0, 1) for _ in range(9)]
        wires = [PrivVal(v) for v in vals]
        cond = PrivValBool(c)
        b0 = rt.num_constraints
        try:
            out = if_then_else(cond, lambda: gh.ggh_hash([vals[0]] + wires[1:]), lambda: gh.ggh_hash(wires[:-1] + [bool(vals[-1])]))
        except Exception as e:   # noqa
            fail("if_then_else(cond=%d): ggh_hash raised %r in a lazy branch" % (c, e))
            continue
        if out.value != ref_hash(vals) or eval_lc(out.lc) not in (None, ref_hash(vals)):
            fail("if_then_else(cond=%d): %r, reference %d" % (c, out, ref_hash(vals)))
        if rt.num_constraints - b0 != 1:
            fail("if_then_else(cond=%d) cost %d constraints, expected only the selection (1)" % (c, rt.num_constraints - b0))

    old = ignore_errors()
    ignore_errors(True)
    try:
        run_case("ignore_errors", [1, 0, 5, -3, P + 2], ["int", "priv", "sum", "const", "pub"])
    finally:
        ignore_errors(old)

    # (8) Poseidon regression guard
    npos = poseidon_guard(cfg, rt, P, fail)

    # (7) shared constants untouched, whole system satisfied
    if LinComb.ZERO.value != 0 or LinComb.ONE.value != 1 or eval_lc(LinComb.ZERO.lc) not in (None, 0) or eval_lc(LinComb.ONE.lc) not in (None, 1):
        fail("LinComb.ZERO / LinComb.ONE were modified")
    cons = getattr(rt.backend, "constraints", None)
    nsys = 0
    if cons is not None:
        for (a, b, c) in cons:
            nsys += 1
            if (eval_lc(a) * eval_lc(b) - eval_lc(c)) % P != 0:
                fail("a recorded constraint does not hold on the witness")
                break

    if fails:
        print("[%s] %d FAILURES, first ones:" % (cfg, len(fails)))
        for f in fails[:8]:
            print("   ", f[:500])
        sys.exit(1)
    print("[%s] ok: %d ggh messages, %d recorded constraints hold, %d poseidon digests" % (cfg, ncases[0], nsys, npos))
    sys.exit(0)


def poseidon_guard(cfg, rt, P, fail):
    from pysnark.poseidon_constants import poseidon_constants
    if cfg not in poseidon_constants:
        try:
            import pysnark.poseidon_hash  # noqa
            fail("poseidon_hash imported under a backend without registered parameters")
        except NotImplementedError:
            pass
        return 0
    import pysnark.poseidon_hash as ph
    from pysnark.runtime import PrivVal
    C = poseidon_constants[cfg]
    R_F, R_P, T, A, RC, M = C["R_F"], C["R_P"], C["t"], C["a"], C["round_constants"], C["matrix"]
    if (ph.R_F, ph.R_P, ph.t, ph.a) != (R_F, R_P, T, A) or ph.round_constants is not RC or ph.matrix is not M:
        fail("poseidon_hash does not use the parameter set registered for " + cfg)

    def perm(s):
        s = [x % P for x in s]
        for r in range(R_F + R_P):
            s = [(x + c) % P for x, c in zip(s, RC[r])]
            if r < R_F // 2 or r >= R_F // 2 + R_P:
                s = [pow(x, A, P) for x in s]
            else:
                s[0] = pow(s[0], A, P)
            s = [sum(M[i][k] * s[k] for k in range(T)) % P for i in range(T)]
        return s

    def ref(msg):
        rate = T - 1
        padded = list(msg) + [1] + [0] * (rate - len(msg) % rate - 1)
        s = [0] * T
        for i in range(0, len(padded), rate):
            for j in range(rate):
                s[1 + j] = (s[1 + j] + padded[i + j]) % P
            s = perm(s)
        return s[1:]

    if cfg == "zkinterface":
        out = ph.permute([PrivVal(i) for i in range(5)])
        if out[0].value != 0x299c867db6c1fdd79dcefa40e4510b9837e60ebb1ce0663dbaa525df65250465 or [o.value for o in out] != perm(range(5)):
            fail("zkinterface permutation vector not reproduced")
    n = 0
    keep = []
    for length in range(0, 3 * (T - 1) + 1):
        msg = [(length * 7919 + j * 104729 + (P - 3) * (j % 2)) % P for j in range(length)]
        wires = [PrivVal(v) for v in msg]
        keep.append(wires)
        b0 = rt.num_constraints
        d = ph.poseidon_hash(wires)
        cost = rt.num_constraints - b0
        n += 1
        if [x.value for x in d] != ref(msg):
            fail("poseidon_hash differs from the plain sponge for length %d" % length)
        if cost != (R_F * T + R_P) * (A - 1) * (length // (T - 1) + 1):
            fail("poseidon_hash cost %d for length %d" % (cost, length))
    return n


if __name__ == "__main__":
    if len(sys.argv) >= 3 and sys.argv[1] == "--worker":
        worker(sys.argv[2])
    else:
        # optional arguments restrict the backends, e.g.  P.check.py nobackend snarkjs
        driver(sys.argv[1:] or CONFIGS)
