#!/usr/bin/env python
"""
Evidence for P (ordering comparisons of LinCombBool as logic gates).

Run as   PYTHONPATH=<tree> /venv/bin/python P.check.py   from an empty directory.

For every comparison operator, every pair of operand values and many operand
kinds (secret/secret, secret/constant, constant/secret, secret Boolean against
0/1-valued LinComb, derived Booleans), in several contexts (plain, inside the
lazy branch of if_then_else with the condition 1 and 0, nested branches,
ignore_errors), the program
  1. records the R1CS constraints the operation emits (snarkjs backend) and
     evaluates every one of them on the recorded witness (mod p),
  2. compares the result with plain Python semantics on bools,
  3. SOLVES the constraint system for the wires the operation allocated, keeping
     every wire that existed before the operation (operands, guards, constants)
     at its value: an exact backtracking solver over GF(p) that enumerates ALL
     satisfying assignments (every wire is fixed by a constraint that is linear
     or quadratic in it; roots via Tonelli-Shanks).  The property holds iff all
     satisfying assignments give the same result and, for results typed Boolean,
     that result is 0 or 1.  Where a branch is not taken (guard 0) its wires are
     genuinely unconstrained; they are then set at random (60 rounds, all roots
     of the determined wires in each round), and the selected value must still
     be unique.
  4. finally writes circuit.r1cs / witness.wtns, decodes both files and checks
     the decoded constraints on the decoded witness.
Exit code 0 iff the property held in all cases.
"""
import itertools
import operator
import os
import random
import sys

os.environ["PYSNARK_BACKEND"] = "snarkjs"

import pysnark.runtime as rt
import pysnark.snarkjsbackend as be
from pysnark.runtime import PrivVal, PubVal, LinComb
from pysnark.boolean import LinCombBool, PrivValBool, PubValBool
from pysnark.branching import if_then_else

rt.autoprove = False
rt.bitlength = 3          # keeps the sign-test gadget of the unchanged tree small enough to solve exhaustively
P = be.snarkjsp

failures = []
stats = {"cases": 0, "solved_exactly": 0, "solved_with_sampling": 0, "constraints": 0}


def fail(msg):
    failures.append(msg)
    print("VIOLATION:", msg)


# ---------------------------------------------------------------- field helpers
def sqrt_mod(a):
    """ all square roots of a in GF(P) """
    a %= P
    if a == 0:
        return [0]
    if pow(a, (P - 1) // 2, P) != 1:
        return []
    q, s = P - 1, 0
    while q % 2 == 0:
        q //= 2
        s += 1
    z = 2
    while pow(z, (P - 1) // 2, P) != P - 1:
        z += 1
    m, c, t, r = s, pow(z, q, P), pow(a, q, P), pow(a, (q + 1) // 2, P)
    while t != 1:
        i, t2 = 0, t
        while t2 != 1:
            t2 = t2 * t2 % P
            i += 1
        b = pow(c, 1 << (m - i - 1), P)
        m, c, t, r = i, b * b % P, t * b * b % P, r * b % P
    return sorted({r, P - r})


def inv(a):
    return pow(a, P - 2, P)


# ---------------------------------------------------------------- wire access
def wire_value(k):
    return 1 if k == 0 else (be.pubvals[k - 1] if k > 0 else be.privvals[-k - 1])


def eval_lc(lc, asg):
    return sum(c * asg[k] for (k, c) in lc.items()) % P


def partial(lc, asg):
    """ (constant, {unknown wire: coefficient}) of a linear combination under a partial assignment """
    const, unk = 0, {}
    for (k, c) in lc.items():
        if k in asg:
            const += c * asg[k]
        else:
            c %= P
            if c:
                unk[k] = c
    return const % P, unk


# ---------------------------------------------------------------- exact solver
class Solver:
    """
    Enumerates the satisfying assignments of `cons` (triples of wire->coefficient dicts meaning A*B=C)
    over the wires in `free`; all other wires are fixed to `fixed`.  `exact` stays True as long as every
    wire was determined by the roots of a constraint in which it was the only unknown (then the
    enumeration is complete); wires that no constraint restricts are set by a policy (honest value in
    round 0, random afterwards; exact := False) unless nothing depends on them at all.
    """
    def __init__(self, cons, fixed, free, result_lcs, honest):
        self.cons, self.fixed, self.free = cons, fixed, free
        self.result_lcs, self.honest = result_lcs, honest
        self.results = set()
        self.exact = True
        self.nodes = 0

    def classify(self, con, asg):
        """ returns ('ok',) / ('bad',) / ('one', wire, roots) / ('many', wires) """
        (a0, au), (b0, bu), (c0, cu) = (partial(x, asg) for x in con)
        if not au or not bu:
            if not au:
                k0, ku = a0, bu
                kc = a0 * b0
            else:
                k0, ku = b0, au
                kc = a0 * b0
            lin = {}
            for (w, c) in ku.items():
                lin[w] = (lin.get(w, 0) + k0 * c) % P
            for (w, c) in cu.items():
                lin[w] = (lin.get(w, 0) - c) % P
            lin = {w: c for (w, c) in lin.items() if c}
            const = (kc - c0) % P
            if not lin:
                return ('ok',) if const == 0 else ('bad',)
            if len(lin) == 1:
                (w, c), = lin.items()
                return ('one', w, [(-const) * inv(c) % P])
            return ('many', sorted(lin))
        wires = set(au) | set(bu) | set(cu)
        if len(wires) > 1:
            return ('many', sorted(wires))
        w, = wires
        a1, b1, c1 = au.get(w, 0), bu.get(w, 0), cu.get(w, 0)
        qa, qb, qc = a1 * b1 % P, (a0 * b1 + a1 * b0 - c1) % P, (a0 * b0 - c0) % P
        if qa == 0:   # cannot happen (both coefficients non-zero in a field), kept for completeness
            if qb == 0:
                return ('ok',) if qc == 0 else ('bad',)
            return ('one', w, [(-qc) * inv(qb) % P])
        roots = [((-qb + s) * inv(2 * qa)) % P for s in sqrt_mod(qb * qb - 4 * qa * qc)]
        return ('one', w, sorted(set(roots))) if roots else ('bad',)

    def run(self, asg=None):
        asg = dict(self.fixed) if asg is None else asg
        self.nodes += 1
        if self.nodes > 3000000:
            raise RuntimeError("search too large")
        pending = []
        for con in self.cons:
            cl = self.classify(con, asg)
            if cl[0] == 'bad':
                return
            if cl[0] == 'one':
                for r in cl[2]:
                    asg[cl[1]] = r
                    self.run(asg)
                del asg[cl[1]]
                return
            if cl[0] == 'many':
                pending.append(cl[1])
        open_wires = sorted({w for ws in pending for w in ws}, key=abs)   # earliest allocated first
        for lc in self.result_lcs:
            open_wires += [w for w in partial(lc, asg)[1] if w not in open_wires]
        if not open_wires:
            # every constraint holds whatever the still unassigned wires are, and no result mentions them
            self.results.add(tuple(eval_lc(lc, {**{w: 0 for w in self.free}, **asg}) for lc in self.result_lcs))
            return
        # a wire no single constraint pins down (it belongs to a disabled branch): give it the value the
        # current round's policy dictates
        self.exact = False
        w = open_wires[0]
        asg[w] = self.policy(w)
        self.run(asg)
        del asg[w]

    def solve(self, rounds=60):
        """ round 0 keeps unrestricted wires honest; if there were any, further rounds randomise them """
        self.policy = lambda w: self.honest[w] % P
        self.run()
        if not self.exact:
            rng = random.Random(20240607)
            def pol(w):
                h = self.honest[w]
                return rng.choice([0, 1, 2, P - 1, h % P, (h + 1) % P, (1 - h) % P, rng.randrange(P)])
            self.policy = pol
            for _ in range(rounds):
                self.run()


# ---------------------------------------------------------------- one experiment
def experiment(name, setup, op, expect, expect_bool_type=None, must_be_exact=True):
    """
    setup() creates the operands (their wires are the fixed ones); op(*operands) performs the operation and
    returns the result(s); expect is the value (or tuple of values) plain Python gives.
    """
    stats["cases"] += 1
    operands = setup()
    npriv, npub, ncon = len(be.privvals), len(be.pubvals), len(be.constraints)
    res = op(*operands)
    results = res if isinstance(res, tuple) else (res,)
    expects = expect if isinstance(expect, tuple) else (expect,)

    cons = [[x.lc for x in c] for c in be.constraints[ncon:]]
    stats["constraints"] += len(cons)
    honest = {0: 1}
    honest.update({k + 1: v for (k, v) in enumerate(be.pubvals)})
    honest.update({-(k + 1): v for (k, v) in enumerate(be.privvals)})

    # 1. the recorded witness satisfies every emitted constraint
    for (i, (a, b, c)) in enumerate(cons):
        if eval_lc(a, honest) * eval_lc(b, honest) % P != eval_lc(c, honest):
            fail("%s: honest witness violates emitted constraint #%d" % (name, i))
            return

    # 2. plain Python semantics, result type, wire value == reported value
    lcs = []
    for (r, e) in zip(results, expects):
        lc = r.lc if isinstance(r, LinCombBool) else r
        if expect_bool_type is not None and isinstance(r, LinCombBool) != expect_bool_type:
            fail("%s: result has type %s" % (name, type(r).__name__))
        if lc.value != e:
            fail("%s: value %s, plain Python gives %s" % (name, lc.value, e))
        if eval_lc(lc.lc.lc, honest) != e % P:
            fail("%s: result wire carries %s, reported %s" % (name, eval_lc(lc.lc.lc, honest), e))
        lcs.append(lc.lc.lc)

    # 3. all satisfying assignments of the new wires (pubvals created by the operation: none here)
    if len(be.pubvals) != npub:
        fail("%s: operation created public wires" % name)
    free = [-(k + 1) for k in range(npriv, len(be.privvals))]
    fixed = {k: v % P for (k, v) in honest.items() if k not in free}
    s = Solver(cons, fixed, free, lcs, honest)
    s.solve()
    want = tuple(e % P for e in expects)
    if want not in s.results:
        fail("%s: solver does not reproduce the honest result (internal error)" % name)
    for got in s.results:
        if got != want:
            fail("%s: operands fixed, yet the constraints also admit result %s (honest %s)" % (name, got, want))
        for (r, g) in zip(results, got):
            if isinstance(r, LinCombBool) and g not in (0, 1):
                fail("%s: Boolean-typed result can be %s" % (name, g))
    if s.exact:
        stats["solved_exactly"] += 1
    else:
        stats["solved_with_sampling"] += 1
        if must_be_exact:
            fail("%s: some wire of the operation is not pinned down by any constraint although no branch is disabled" % name)


# ---------------------------------------------------------------- operand kinds
OPS = [("lt", operator.lt), ("le", operator.le), ("gt", operator.gt), ("ge", operator.ge),
       ("eq", operator.eq), ("ne", operator.ne)]

def k_priv(v): return PrivValBool(v)
def k_pub(v): return PubValBool(v)
def k_not(v): return ~PrivValBool(1 - v)
def k_and(v): return PrivValBool(v) & PrivValBool(1)
def k_or(v): return PrivValBool(0) | PubValBool(v)
def k_xor(v): return PrivValBool(1) ^ PrivValBool(1 - v)
def k_isz(v): return PrivVal(5 * (1 - v)) == 0           # output of check_zero
def k_pos(v): return PrivVal(3 if v else -3) >= 0        # output of check_positive
def k_int(v): return v
def k_bool(v): return bool(v)
def k_lc(v): return PrivVal(v)                           # 0/1-valued LinComb, gets constrained by _ensurebool
def k_lcpub(v): return PubVal(v)
def k_lcexpr(v): return PrivVal(v + 3) - 3

SECRET_BOOL = [k_priv, k_pub, k_not, k_and, k_or, k_xor, k_isz, k_pos]
RIGHT = SECRET_BOOL + [k_int, k_bool, k_lc, k_lcpub, k_lcexpr]
LEFT_REFLECTED = [k_int, k_bool, k_lc, k_lcexpr]        # constant / LinComb on the left of a secret Boolean


def plain(fn, a, b):
    return int(fn(bool(a), bool(b)))


def run_all():
    # ---- plain context
    for (on, fn) in OPS:
        for (a, b) in itertools.product((0, 1), repeat=2):
            for kl in SECRET_BOOL:
                for kr in RIGHT:
                    experiment("%s %s(%d) %s(%d)" % (on, kl.__name__, a, kr.__name__, b),
                               lambda: (kl(a), kr(b)), lambda x, y: fn(x, y), plain(fn, a, b), expect_bool_type=True)
            for kl in LEFT_REFLECTED:
                for kr in SECRET_BOOL[:4]:
                    experiment("%s reflected %s(%d) %s(%d)" % (on, kl.__name__, a, kr.__name__, b),
                               lambda: (kl(a), kr(b)), lambda x, y: fn(x, y), plain(fn, a, b), expect_bool_type=True)

    # ---- same object on both sides
    for (on, fn) in OPS:
        for a in (0, 1):
            experiment("%s same object (%d)" % (on, a), lambda: (PrivValBool(a),), lambda x: fn(x, x), plain(fn, a, a),
                       expect_bool_type=True)

    # ---- inside lazy if_then_else branches: condition 1 / 0, the comparison in either arm, and nested
    for (on, fn) in OPS:
        for (a, b, c) in itertools.product((0, 1), repeat=3):
            for kr in (k_priv, k_int, k_lc, k_isz):
                inner = []
                def in_true(x, y, cnd, alt):
                    def br():
                        inner.append(fn(x, y))
                        return inner[-1]
                    return (if_then_else(cnd, br, lambda: alt),) + ((inner[-1],) if c else ())
                experiment("%s in taken/untaken true-arm c=%d %d %s(%d)" % (on, c, a, kr.__name__, b),
                           lambda: (PrivValBool(a), kr(b), PrivValBool(c), PrivValBool(1)), in_true,
                           ((plain(fn, a, b) if c else 1),) + ((plain(fn, a, b),) if c else ()), must_be_exact=bool(c))
                def in_false(x, y, cnd, alt):
                    return if_then_else(cnd, lambda: alt, lambda: fn(x, y) * 1)
                experiment("%s in false-arm c=%d %d %s(%d)" % (on, c, a, kr.__name__, b),
                           lambda: (PrivValBool(a), kr(b), PrivValBool(c), PrivVal(7)), in_false,
                           7 if c else plain(fn, a, b), must_be_exact=not c)
            for d in (0, 1):
                def nested(x, y, c1, c2, alt1, alt2):
                    return if_then_else(c1, lambda: if_then_else(c2, lambda: fn(x, y) * 1, lambda: alt1), lambda: alt2)
                experiment("%s nested c=%d d=%d (%d,%d)" % (on, c, d, a, b),
                           lambda: (PrivValBool(a), PrivValBool(b), PrivValBool(c), PrivValBool(d), PrivVal(4), PrivVal(9)), nested,
                           9 if not c else (4 if not d else plain(fn, a, b)), must_be_exact=bool(c and d))

    # ---- ignore_errors switched on (same constraints, same values)
    rt.ignore_errors(True)
    try:
        for (on, fn) in OPS:
            for (a, b) in itertools.product((0, 1), repeat=2):
                for kr in (k_priv, k_int, k_lc):
                    experiment("%s ignore_errors %d %s(%d)" % (on, a, kr.__name__, b),
                               lambda: (PrivValBool(a), kr(b)), lambda x, y: fn(x, y), plain(fn, a, b), expect_bool_type=True)
    finally:
        rt.ignore_errors(False)

    # ---- compositions: selecting with a comparison, chained comparisons, a 3-input sorter on bits
    for (a, b, c) in itertools.product((0, 1), repeat=3):
        experiment("select by a<b (%d,%d)" % (a, b), lambda: (PrivValBool(a), PrivValBool(b), PrivVal(11), PrivVal(22)),
                   lambda x, y, u, v: if_then_else(x < y, u, v), 11 if a < b else 22)
        experiment("(a<=b)>=(b>c) (%d,%d,%d)" % (a, b, c), lambda: (PrivValBool(a), PrivValBool(b), PrivValBool(c)),
                   lambda x, y, z: (x <= y) >= (y > z), int((a <= b) >= (b > c)), expect_bool_type=True)
        def sort3(x, y, z):
            # compare-exchange network on bits; selected values are re-typed (and thereby constrained) as Booleans
            def cx(u, v):
                sw = u > v
                return (LinCombBool(if_then_else(sw, v, u)), LinCombBool(if_then_else(sw, u, v)))
            (x, y) = cx(x, y)
            (y, z) = cx(y, z)
            (x, y) = cx(x, y)
            return (x, y, z)
        experiment("sort3 (%d,%d,%d)" % (a, b, c), lambda: (PrivValBool(a), PrivValBool(b), PrivValBool(c)), sort3,
                   tuple(sorted((a, b, c))))

    # ---- inputs that must be rejected, not silently accepted
    for (on, fn) in OPS[:4]:
        for (bad, exc) in ((2, ValueError), (-1, ValueError), (PrivVal(2), ValueError), (PrivVal(-1), ValueError),
                           (1.5, RuntimeError), ("1", RuntimeError), (None, RuntimeError)):
            stats["cases"] += 1
            try:
                fn(PrivValBool(1), bad)
            except exc:
                pass
            except Exception as e:
                fail("%s with %r raised %r instead of %s" % (on, bad, e, exc.__name__))
            else:
                fail("%s accepted the non-Boolean operand %r" % (on, bad))


# ---------------------------------------------------------------- decode the written files
def check_files():
    be.prove()
    def rd(buf, pos, n):
        return int.from_bytes(buf[pos:pos + n], "little"), pos + n
    w = open("witness.wtns", "rb").read()
    assert w[:4] == b"wtns"
    pos = 12
    _, pos = rd(w, pos, 4); _, pos = rd(w, pos, 8)
    fs, pos = rd(w, pos, 4)
    mod, pos = rd(w, pos, fs)
    nw, pos = rd(w, pos, 4)
    _, pos = rd(w, pos, 4); _, pos = rd(w, pos, 8)
    wit = []
    for _ in range(nw):
        v, pos = rd(w, pos, fs)
        wit.append(v)
    c = open("circuit.r1cs", "rb").read()
    assert c[:4] == b"r1cs"
    pos = 12
    _, pos = rd(c, pos, 4); _, pos = rd(c, pos, 8)
    fs, pos = rd(c, pos, 4)
    mod2, pos = rd(c, pos, fs)
    nvars, pos = rd(c, pos, 4)
    pos += 4 + 4 + 4 + 8
    ncons, pos = rd(c, pos, 4)
    _, pos = rd(c, pos, 4); _, pos = rd(c, pos, 8)
    if mod != P or mod2 != P or nvars != nw or ncons != len(be.constraints) or wit[0] != 1:
        fail("written files: header mismatch")
    bad = 0
    for _ in range(ncons):
        vals = []
        for _ in range(3):
            n, pos = rd(c, pos, 4)
            acc = 0
            for _ in range(n):
                k, pos = rd(c, pos, 4)
                v, pos = rd(c, pos, fs)
                acc += v * wit[k]
            vals.append(acc % P)
        if vals[0] * vals[1] % P != vals[2]:
            bad += 1
    # constraints emitted inside branches that were not taken are satisfied through their dummy wires, so
    # every single written constraint has to hold on the written witness
    if bad:
        fail("written files: %d of %d constraints do not hold on the written witness" % (bad, ncons))
    print("decoded circuit.r1cs / witness.wtns: %d constraints over %d wires hold" % (ncons, nw))


# ---------------------------------------------------------------- values under the backend without wires
NOBACKEND = r"""
import itertools, operator
import pysnark.runtime as rt
from pysnark.runtime import PrivVal
from pysnark.boolean import PrivValBool, LinCombBool
from pysnark.branching import if_then_else
rt.autoprove = False
assert rt.backend_name == "nobackend"
n = 0
for fn in (operator.lt, operator.le, operator.gt, operator.ge, operator.eq, operator.ne):
    for (a, b) in itertools.product((0, 1), repeat=2):
        want = int(fn(bool(a), bool(b)))
        for mk in (PrivValBool, int, bool, PrivVal):
            r = fn(PrivValBool(a), mk(b)); assert isinstance(r, LinCombBool) and r.lc.value == want, (fn, a, b, mk)
            if mk is not PrivValBool:
                r = fn(mk(a), PrivValBool(b)); assert isinstance(r, LinCombBool) and r.lc.value == want, (fn, a, b, mk)
            for c in (0, 1):
                r = if_then_else(PrivValBool(c), lambda: fn(PrivValBool(a), mk(b)) * 1, lambda: PrivVal(7))
                assert r.value == (want if c else 7)
            n += 1
print("nobackend: %d value checks fine" % n)
"""

def check_nobackend():
    import subprocess
    env = dict(os.environ, PYSNARK_BACKEND="nobackend")
    r = subprocess.run([sys.executable, "-c", NOBACKEND], env=env, capture_output=True, text=True)
    print(r.stdout.strip())
    if r.returncode != 0:
        fail("values under nobackend: " + r.stderr.strip()[-400:])


if __name__ == "__main__":
    run_all()
    check_files()
    check_nobackend()
    print("cases: %(cases)d, emitted constraints examined: %(constraints)d, solved exactly: %(solved_exactly)d, "
          "with sampled wires of disabled branches: %(solved_with_sampling)d" % stats)
    if failures:
        print("%d VIOLATIONS of C02" % len(failures))
        sys.exit(1)
    print("C02 held in all cases")
    sys.exit(0)
