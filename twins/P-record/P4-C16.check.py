# Evidence program for property C16 (bit decomposition / packing round trip at the requested width).
# Run as:  PYTHONPATH=<tree> /venv/bin/python P.check.py     (from an empty directory)
# The program runs itself once per backend (snarkjs: constraints and witness are recorded and evaluated,
# small witnesses are brute-forced; nobackend: values, exceptions and constraint counts only).
import os, sys, subprocess, random, itertools

if "C16_CHILD" not in os.environ:
    for be in ("snarkjs", "nobackend"):
        env = dict(os.environ, PYSNARK_BACKEND=be, C16_CHILD="1")
        rc = subprocess.call([sys.executable, os.path.abspath(__file__)], env=env)
        if rc != 0:
            print("C16 check FAILED under backend", be)
            sys.exit(1)
    print("C16 check: property held in all cases")
    sys.exit(0)

import pysnark.runtime as rt
rt.autoprove = False
from pysnark.runtime import LinComb, PrivVal, PubVal, guarded, ignore_errors
from pysnark.boolean import LinCombBool, PrivValBool
from pysnark.branching import if_then_else
from pysnark.pack import PackBool, PackIntMod, PackList, PackRepeat, PackSeed

import inspect
TO_BITS_ERR = "err" in inspect.signature(LinComb.to_bits).parameters   # err= on to_bits is new with this change
be = rt.backend
REAL = rt.backend_name == "snarkjs"
P = be.get_modulus() if REAL else None
random.seed(16)
failures = []
ncases = 0

def fail(*msg):
    failures.append(" ".join(str(m) for m in msg))
    if len(failures) <= 25: print("VIOLATION:", *msg)

# ---------------------------------------------------------------- recording
class Rec:
    def __enter__(self):
        self.n0 = rt.num_constraints
        if REAL:
            self.c0, self.p0 = len(be.constraints), len(be.privvals)
        return self
    def __exit__(self, *a):
        self.count = rt.num_constraints - self.n0
        if REAL:
            self.cons = be.constraints[self.c0:]
            self.newpriv = list(range(self.p0, len(be.privvals)))   # indices into be.privvals
        return False

def wire(ix, over):
    if ix == 0: return 1
    if ix in over: return over[ix]
    return be.pubvals[ix-1] if ix > 0 else be.privvals[-ix-1]

def ev(lc, over):
    return sum(c * wire(ix, over) for ix, c in lc.lc.items()) % P

def holds(cons, over={}):
    return all((ev(v, over) * ev(w, over) - ev(y, over)) % P == 0 for (v, w, y) in cons)

def wire_of(lc):
    """ index of the single wire a fresh PrivVal / PrivValBool refers to """
    d = lc.lc.lc if isinstance(lc, LinComb) else lc.lc.lc.lc
    (ix, c), = d.items()
    assert c == 1
    return ix

def valof(x):
    if isinstance(x, LinCombBool): return x.lc.value
    if isinstance(x, LinComb): return x.value
    if isinstance(x, list): return [valof(y) for y in x]
    return int(x)

# ---------------------------------------------------------------- decomposition, honest runs
def run(op, v, n, mode, err=None):
    """ decompose PrivVal(v) at width n (None: global) in the given mode.
        returns (outcome, bits or None, rec)  outcome in 'ok', exception class name """
    x = PrivVal(v)
    def body():
        if op == "to_bits":
            return x.to_bits(n) if err is None else x.to_bits(n, err=err)
        else:
            kw = {} if err is None else {"err": err}
            if n is None: x.assert_positive(**kw)
            else: x.assert_positive(n, **kw)
            return None
    g = None
    if mode == "guard1": g = PrivVal(1)
    if mode == "guard0": g = PrivVal(0)
    old = ignore_errors()
    with Rec() as rec:
        try:
            if mode == "ignore": ignore_errors(True)
            if g is not None: res = guarded(g)(body)()
            else: res = body()
            out = "ok"
        except AssertionError as e:
            out, res = "AssertionError", str(e)
        except Exception as e:
            out, res = type(e).__name__, str(e)
        finally:
            ignore_errors(old)
    if rt.guard is not None or ignore_errors() != old or LinComb.ONE is not LinComb.ONE_SAFE:
        fail("guard / ignore_errors state not restored after", op, v, n, mode)
    return out, res, rec

counts = {}
def check_decomp(op, v, n, mode, bl):
    global ncases
    ncases += 1
    rt.bitlength = bl
    width = bl if n is None else n
    inrange = 0 <= v < (1 << width) if width >= 0 else False
    tag = (op, "v=%d" % v, "n=%s" % n, mode, "bitlength=%d" % bl)
    out, res, rec = run(op, v, n, mode)
    key = (op, width, mode)
    if inrange or mode in ("ignore", "guard0"):
        if out != "ok":
            return fail(tag, "raised", out, res, "(expected to go through)")
        # same circuit whatever the value
        if counts.setdefault(key, rec.count) != rec.count:
            fail(tag, "constraint count", rec.count, "differs from", counts[key], "for the same width / mode")
        if mode in (None, "ignore") and rec.count != width + 1:
            fail(tag, "emitted", rec.count, "constraints, expected width+1 =", width + 1)
        if op == "to_bits":
            if len(res) != width: fail(tag, "returned", len(res), "bits")
            if not all(isinstance(b, LinCombBool) for b in res): fail(tag, "bits are not LinCombBool")
            if not all(valof(b) in (0, 1) for b in res): fail(tag, "bit wires hold non-bits", valof(res))
        if inrange and op == "to_bits":
            if valof(res) != [(v >> i) & 1 for i in range(width)]:
                fail(tag, "wrong bits", valof(res))
            back = LinComb.from_bits(res)
            if valof(back) != v: fail(tag, "recomposed to", valof(back))
        if REAL:
            sat = holds(rec.cons)
            if inrange and not sat: fail(tag, "recorded witness violates an emitted constraint")
            if not inrange and mode == "guard0" and not sat: fail(tag, "dead branch made the system unsatisfiable")
            if not inrange and mode == "ignore" and sat:
                fail(tag, "out-of-range value accepted: all constraints hold on the recorded witness")
    else:
        if out != "AssertionError":
            fail(tag, "out-of-range value not rejected with AssertionError:", out, res)
    # custom error text
    if op == "to_bits" and not TO_BITS_ERR: return
    if not inrange and mode in (None, "guard1"):
        out, res, _ = run(op, v, n, mode, err="custom text")
        if out != "AssertionError" or res != "custom text":
            fail(tag, "err= not reported:", out, res)
    elif inrange:
        out, res, _ = run(op, v, n, mode, err="custom text")
        if out != "ok": fail(tag, "raised with err= given:", out, res)

MODES = (None, "ignore", "guard1", "guard0")
for bl in (5, 16):
    for op in ("to_bits", "assert_positive"):
        for n in [None] + list(range(0, 8)):
            width = bl if n is None else n
            top = 1 << width
            vals = set(range(-3, min(top, 40) + 3)) | {top - 1, top, top + 1, 2 * top, -top, -top - 1, top >> 1, 12345678901234567890}
            for v in sorted(vals):
                for mode in MODES:
                    check_decomp(op, v, n, mode, bl)
        for n in (9, 17, 33, 64, 128, 200, 253):
            top = 1 << n
            vals = {0, 1, 2, top - 1, top - 2, top >> 1, (top >> 1) - 1, top, top + 1, -1, -top, 3 * top} | {random.randrange(top) for _ in range(6)}
            for v in sorted(vals):
                for mode in MODES:
                    check_decomp(op, v, n, mode, bl)
rt.bitlength = 16

# ---------------------------------------------------------------- lazy branches of if_then_else
for n in range(0, 6):
    for v in range(-2, (1 << n) + 3):
        for c in (0, 1):
            ncases += 1
            inrange = 0 <= v < (1 << n)
            x, cond = PrivVal(v), PrivValBool(c)
            with Rec() as rec:
                try:
                    r = if_then_else(cond, lambda: x.to_bits(n), [0] * n)
                    out = "ok"
                except AssertionError as e:
                    out, r = "AssertionError", str(e)
            tag = ("if_then_else", "v=%d" % v, "n=%d" % n, "cond=%d" % c)
            if c == 1 and not inrange:
                if out != "AssertionError": fail(tag, "live branch did not reject:", out, r)
                continue
            if out != "ok": fail(tag, "raised", r); continue
            want = [(v >> i) & 1 for i in range(n)] if c else [0] * n
            if valof(r) != want: fail(tag, "result", valof(r), "expected", want)
            if REAL and not holds(rec.cons): fail(tag, "recorded witness violates an emitted constraint")

# ---------------------------------------------------------------- soundness: brute force over the new wires
def brute(op, n, guard_mode):
    """ build the circuit once, then try every assignment of the wires allocated by the gadget (from a small
        candidate set closed under what the constraints can force) for many values of the input wire """
    global ncases
    x = PrivVal(0)
    g = PrivVal(1) if guard_mode else None
    body = (lambda: x.to_bits(n)) if op == "to_bits" else (lambda: x.assert_positive(n))
    with Rec() as rec:
        res = guarded(g)(body)() if g is not None else body()
    xw = wire_of(x)
    new = [-(i + 1) for i in rec.newpriv]
    bitw = [wire_of(b) for b in res] if op == "to_bits" else None
    limit = 2 * n + 1 if guard_mode else n        # bit wires (+ one dummy per guarded constraint)
    if len(new) > limit:
        return fail(("brute", op, "n=%d" % n), "gadget allocated", len(new), "wires for a", n, "bit width (at most", limit, "expected)")
    cand = [0, 1, 2, P - 1] + ([P - 2] if guard_mode else [])
    xs = list(range(0, (1 << n) + 3)) + [P - 1, P - 2, P - (1 << n), (1 << n) * 2, 1 << 20]
    for xv in xs:
        ncases += 1
        inrange = 0 <= xv < (1 << n)
        sols = []
        for asg in itertools.product(cand, repeat=len(new)):
            over = dict(zip(new, asg)); over[xw] = xv
            if holds(rec.cons, over): sols.append(over)
        tag = ("brute", op, "n=%d" % n, "guarded" if guard_mode else "unguarded", "x=%d" % xv)
        if inrange and not sols: fail(tag, "no satisfying witness for an in-range value")
        if not inrange and sols: fail(tag, "width not enforced: satisfying witness exists for out-of-range input", sols[0])
        if inrange and bitw is not None:
            for s in sols:
                if [s[w] for w in bitw] != [(xv >> i) & 1 for i in range(n)]:
                    fail(tag, "satisfying witness with bit wires", [s[w] for w in bitw])

if REAL:
    for op in ("to_bits", "assert_positive"):
        for n in range(0, 5): brute(op, n, False)
        for n in range(0, 3): brute(op, n, True)

# ---------------------------------------------------------------- packing
def rand_schema(depth):
    k = random.randrange(4 if depth > 0 else 2)
    if k == 0: return PackBool()
    if k == 1: return PackIntMod(random.choice([2, 3, 5, 8, 10, 16, 17, 255, 256, 257, 1000, 40000, 65536]))
    if k == 2: return PackList([rand_schema(depth - 1) for _ in range(random.randrange(1, 4))])
    return PackRepeat(rand_schema(depth - 1), random.randrange(1, 4))

def to_secret(s, v):
    if isinstance(s, (PackBool, PackIntMod)): return PrivVal(v)
    if isinstance(s, PackList): return [to_secret(si, vi) for si, vi in zip(s.lst, v)]
    return [to_secret(s.packer, vi) for vi in v]

def leaves(s, path=()):
    if isinstance(s, (PackBool, PackIntMod)): yield path, s
    elif isinstance(s, PackList):
        for i, si in enumerate(s.lst): yield from leaves(si, path + (i,))
    else:
        for i in range(s.times): yield from leaves(s.packer, path + (i,))

def replaced(v, path, new):
    if not path: return new
    v = list(v); v[path[0]] = replaced(v[path[0]], path[1:], new); return v

for it in range(400):
    s = rand_schema(3) if it else PackSeed(40)
    v = s.random()
    ncases += 1
    tag = ("pack", "value", v)
    bits = s.pack(v)
    if len(bits) != s.bitlen(): fail(tag, "plain pack gave", len(bits), "bits, bitlen() is", s.bitlen())
    if any(b not in (0, 1) for b in bits): fail(tag, "plain pack gave non-bits", bits)
    if s.unpack(bits, 0) != v: fail(tag, "plain round trip gave", s.unpack(bits, 0))
    if s.unpack([1, 0, 1] + bits, 3) != v: fail(tag, "plain round trip at an offset gave", s.unpack([1, 0, 1] + bits, 3))
    # secret input -> bit wires -> unpack
    with Rec() as rec:
        sbits = s.pack(to_secret(s, v))
        back = s.unpack(sbits, 0)
    if valof(sbits) != bits: fail(tag, "secret pack gave bits", valof(sbits), "plain gave", bits)
    if valof(back) != v: fail(tag, "secret round trip gave", valof(back))
    if REAL and not holds(rec.cons): fail(tag, "secret round trip: recorded witness violates an emitted constraint")
    # plain bits turned into wires, then unpacked (bound-checked path)
    with Rec() as rec:
        back = s.unpack([PrivVal(b) for b in bits], 0)
    if valof(back) != v: fail(tag, "round trip through bit wires gave", valof(back))
    if REAL and not holds(rec.cons): fail(tag, "unpack of wires: recorded witness violates an emitted constraint")
    # out-of-range plain / secret leaves are rejected
    for path, leaf in leaves(s):
        if not isinstance(leaf, PackIntMod): continue
        w = leaf.bitlen()
        for bad in (-1, leaf.mod, leaf.mod + 1, (1 << w), (1 << w) + 1, -leaf.mod):
            ncases += 1
            try:
                r = s.pack(replaced(v, path, bad))
                fail(tag, "plain out-of-range field", bad, "for modulus", leaf.mod, "accepted:", r)
            except ValueError: pass
        for bad in (-1, (1 << w), (1 << w) + 5):
            ncases += 1
            try:
                r = s.pack(replaced(to_secret(s, v), path, PrivVal(bad)))
                fail(tag, "secret field", bad, "beyond the", w, "bit width accepted")
            except AssertionError: pass

print("[%s] %d cases, %d violations" % (rt.backend_name, ncases, len(failures)))
sys.exit(1 if failures else 0)
