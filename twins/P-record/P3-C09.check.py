# Evidence program for change P (guarded() accepts LinCombBool and public conditions).
#
# Run as:  PYTHONPATH=<tree> /venv/bin/python P.check.py     (from an empty directory)
#
# What is checked (the PROPERTY C09 itself, on the code paths that P touches):
#   1. if_then_else(c, lazy, lazy) on a secret c ends with the value that native
#      "bt(x,y) if c else bf(x,y)" gives, for many bodies (assertions, comparisons, divisions,
#      bit decompositions ...) and many (x, y), including values for which the branch
#      that is NOT taken would fail / is out of range;
#   2. every constraint that was emitted is satisfied by the recorded witness (evaluated modulo
#      the field prime on the snarkjs backend's own records);
#   3. the emitted constraint system (wires + coefficients) is the same whatever the secret
#      condition(s) and inputs were, also with ignore_errors(True) and a failing taken branch;
#   4. guarded(cond) directly: LinCombBool / 0-1 LinComb give identical constraint systems and
#      witnesses; public True runs the body as is, public False does not run it at all;
#      nesting in all combinations of kinds and values; guard / ignore_errors / LinComb.ONE are
#      restored afterwards, also when the body raises;
#   5. brute force over small witnesses: a guarded assertion and a lazy selection accept exactly
#      the witnesses that native control flow allows (guard active => body's assertion enforced).
#
# exit 0 iff everything held.

import os, sys, itertools, random
os.environ["PYSNARK_BACKEND"] = "snarkjs"

import pysnark.runtime as rt
rt.autoprove = False
from pysnark.runtime import LinComb, PrivVal, PubVal, guarded, ignore_errors
from pysnark.boolean import LinCombBool, PrivValBool
from pysnark.fixedpoint import PrivValFxp, LinCombFxp
from pysnark.branching import if_then_else

be = rt.backend
P = be.snarkjsp
BL = 8
failures = []

def fail(msg):
    failures.append(msg)
    if len(failures) <= 25: print("FAIL:", msg)

def reset():
    be.privvals.clear(); be.pubvals.clear(); be.constraints.clear()
    rt.guard = None
    rt.ignore_errors(False)
    LinComb.ONE = LinComb.ONE_SAFE
    rt.bitlength = BL

def clean_state(where, ign=False):
    if rt.guard is not None: fail(where + ": guard not restored")
    if rt.ignore_errors() != ign: fail(where + ": ignore_errors not restored")
    if LinComb.ONE is not LinComb.ONE_SAFE: fail(where + ": LinComb.ONE not restored")

def wire(ix, assign=None):
    if assign is not None and ix in assign: return assign[ix]
    if ix == 0: return 1
    return be.pubvals[ix-1] if ix > 0 else be.privvals[-ix-1]

def ev(lc, assign=None):
    return sum(co * wire(ix, assign) for (ix, co) in lc.lc.items()) % P

def unsat(assign=None):
    return [i for (i, (a, b, c)) in enumerate(be.constraints) if (ev(a, assign) * ev(b, assign) - ev(c, assign)) % P != 0]

def structure():
    def norm(lc): return tuple(sorted((ix, co % P) for (ix, co) in lc.lc.items() if co % P != 0))
    return (len(be.privvals), len(be.pubvals), tuple((norm(a), norm(b), norm(c)) for (a, b, c) in be.constraints))

def fits(v, bits=BL): return v.bit_length() <= bits
def posfits(v, bits=BL): return v >= 0 and v.bit_length() <= bits

def _dm(x, y):
    q, r = divmod(x, y)
    return q * 1000 + r

# (name, oblivious body, native body, "native body runs without error / within the library's documented ranges")
BODIES = [
    ("muladd",  lambda x, y: x * y + 3,                                   lambda x, y: x * y + 3,         lambda x, y: True),
    ("min",     lambda x, y: if_then_else(x < y, x, y),                   lambda x, y: min(x, y),         lambda x, y: fits(y - x - 1)),
    ("exactdiv",lambda x, y: x / y,                                       lambda x, y: x // y,            lambda x, y: x % y == 0),
    ("divmod",  _dm,                                                      _dm,                            lambda x, y: y > 0 and posfits(y - x % y - 1) and posfits(x % y)),
    ("assertlt",lambda x, y: (x.assert_lt(y), y - x)[1],                  lambda x, y: y - x,             lambda x, y: x < y and posfits(y - x - 1)),
    ("bits4",   lambda x, y: LinComb.from_bits(x.to_bits(4)[1:]) + y,     lambda x, y: (x >> 1) + y,      lambda x, y: 0 <= x < 16),
    ("nonzero", lambda x, y: (x.assert_nonzero(), x + y)[1],              lambda x, y: x + y,             lambda x, y: x != 0),
    ("eq",      lambda x, y: if_then_else(x == y, 10, 20) + x,            lambda x, y: (10 if x == y else 20) + x, lambda x, y: True),
    ("range",   lambda x, y: (x.assert_range(0, 10), x * 2)[1],           lambda x, y: x * 2,             lambda x, y: 0 <= x < 10),
    ("lazy2",   lambda x, y: if_then_else(x != y, lambda: x / (x - y) + y, lambda: y * y),
                lambda x, y: (x // (x - y) + y) if x != y else y * y,     lambda x, y: x == y or x % (x - y) == 0),
]
# NB: divisors are never 0 below except in lazy2's not-taken branch guard... (x-y == 0 would raise
# "Division by zero" even in a branch that is not taken; that is existing behaviour outside P) so
# lazy2 is only run with x != y.
VALUES = [-20, -3, -1, 1, 2, 3, 6, 7, 12, 15, 16, 300]

rnd = random.Random(9)

# ---------------------------------------------------------------- 1-3: lazy selection on a secret condition
def run_select(bt, bf, x0, y0, cv, ign=False):
    reset()
    if ign: rt.ignore_errors(True)
    x = PrivVal(x0); y = PrivVal(y0); c = PrivValBool(cv)
    r = if_then_else(c, lambda: bt[1](x, y), lambda: bf[1](x, y))
    clean_state("select %s/%s" % (bt[0], bf[0]), ign)
    return r

nsel = 0
for bt in BODIES:
    for bf in BODIES:
        structs = {}
        cases = [(x0, y0, cv) for x0 in VALUES for y0 in VALUES for cv in (0, 1)]
        rnd.shuffle(cases)
        done = 0
        for (x0, y0, cv) in cases:
            if done >= 40: break
            if "lazy2" in (bt[0], bf[0]) and x0 == y0: continue
            taken = bt if cv else bf
            what = "if_then_else(c=%d, %s, %s) x=%d y=%d" % (cv, bt[0], bf[0], x0, y0)
            if taken[3](x0, y0):
                try:
                    r = run_select(bt, bf, x0, y0, cv)
                except Exception as e:
                    fail(what + ": raised " + repr(e)); continue
                want = taken[2](x0, y0)
                if r.value != want: fail(what + ": value %d, native control flow gives %d" % (r.value, want))
                bad = unsat()
                if bad: fail(what + ": constraints %s not satisfied" % bad[:5])
            else:
                # the taken branch itself fails natively: only usable with ignore_errors, and then
                # only the shape of the constraint system is promised
                try:
                    run_select(bt, bf, x0, y0, cv, ign=True)
                except Exception as e:
                    fail(what + " [ignore_errors]: raised " + repr(e)); continue
            structs.setdefault(structure(), what)
            done += 1; nsel += 1
        if len(structs) != 1:
            fail("constraint system of (%s,%s) depends on secrets: %s" % (bt[0], bf[0], list(structs.values())))

# nested selection: if c1: (A if c2 else B) else: C, with lists and fixed point values as results
def nested(x, y, c1, c2):
    return if_then_else(c1,
                        lambda: if_then_else(c2, lambda: [x * y, (x.assert_lt(y), y - x)[1]], lambda: [x + 1, y + 1]),
                        lambda: [(y.assert_nonzero(), x - y)[1], x / y])
def nested_native(x, y, c1, c2):
    if c1:
        if c2:
            assert x < y
            return [x * y, y - x]
        return [x + 1, y + 1]
    assert y != 0 and x % y == 0
    return [x - y, x // y]

structs = {}
for (x0, y0, c1v, c2v) in itertools.product(VALUES, VALUES, (0, 1), (0, 1)):
    try: want = nested_native(x0, y0, c1v, c2v)
    except AssertionError: continue
    if c1v and c2v and not posfits(y0 - x0 - 1): continue
    reset()
    x = PrivVal(x0); y = PrivVal(y0); c1 = PrivValBool(c1v); c2 = PrivValBool(c2v)
    what = "nested x=%d y=%d c1=%d c2=%d" % (x0, y0, c1v, c2v)
    try:
        r = nested(x, y, c1, c2)
    except Exception as e:
        fail(what + ": raised " + repr(e)); continue
    clean_state(what)
    if [ri.value for ri in r] != want: fail(what + ": %s, native %s" % (r, want))
    if unsat(): fail(what + ": unsatisfied constraints %s" % unsat()[:5])
    structs.setdefault(structure(), what)
    nsel += 1
if len(structs) != 1: fail("nested: constraint system depends on secrets: %s" % list(structs.values()))

# fixed point / mixed results through lazy branches
for (cv, a, b) in itertools.product((0, 1), (1.5, -2.25, 0.0), (2.5, 7.0)):
    reset()
    c = PrivValBool(cv); fa = PrivValFxp(a); fb = PrivValFxp(b); n = PrivVal(3)
    r = if_then_else(c, lambda: fa + fb, lambda: n)          # fxp / int mix
    want = (a + b) if cv else 3.0
    got = r.lc.value / (1 << 8)
    if got != want: fail("fxp select c=%d a=%s b=%s: %s != %s" % (cv, a, b, got, want))
    if unsat(): fail("fxp select: unsatisfied constraints")
    clean_state("fxp select")

# ---------------------------------------------------------------- 4: guarded() itself
ran = []
def body(x, y):
    ran.append(1)
    x.assert_lt(y)
    bits = x.to_bits(4)
    return x * y + LinComb.from_bits(bits) + (x < y).lc

def body_native(x, y): return x * y + x + 1

structs_b = {}; structs_l = {}
for (x0, y0, cv) in itertools.product([-5, 0, 1, 3, 9, 15, 16, 40, 300], [-7, 0, 2, 10, 16, 299], (0, 1)):
    valid = 0 <= x0 < 16 and x0 < y0 and posfits(y0 - x0 - 1)
    if cv and not valid: continue
    res = {}
    for kind in ("bool", "lc"):
        reset(); ran.clear()
        x = PrivVal(x0); y = PrivVal(y0); cb = PrivValBool(cv)
        cond = cb if kind == "bool" else cb.lc
        what = "guarded(%s %d)(body)(%d,%d)" % (kind, cv, x0, y0)
        try:
            r = guarded(cond)(body)(x, y)
        except Exception as e:
            fail(what + ": raised " + repr(e)); break
        clean_state(what)
        if ran != [1]: fail(what + ": body ran %d times" % len(ran))
        if cv and r.value != body_native(x0, y0): fail(what + ": value %d, native %d" % (r.value, body_native(x0, y0)))
        if unsat(): fail(what + ": unsatisfied constraints %s" % unsat()[:5])
        res[kind] = (structure(), list(be.privvals), list(be.pubvals))
        (structs_b if kind == "bool" else structs_l).setdefault(structure(), what)
    if len(res) == 2 and res["bool"] != res["lc"]:
        fail("guarded(LinCombBool) and guarded(its wire) differ for x=%d y=%d c=%d" % (x0, y0, cv))
if len(structs_b) != 1 or len(structs_l) != 1 or set(structs_b) != set(structs_l):
    fail("guarded(body): constraint system depends on secrets / on the kind of condition")

# the guard wire is really the condition's wire: every "guard * dummy = 0" constraint has the wire of c as factor
reset()
x = PrivVal(3); y = PrivVal(2); cb = PrivValBool(0)
cwire = list(cb.lc.lc.lc.keys())
n0 = len(be.constraints)
try: guarded(cb)(lambda: x.assert_lt(y))()
except Exception as e: fail("guarded(LinCombBool c=0)(failing assertion): raised " + repr(e))
zero_rhs = [(a, b) for (a, b, c) in be.constraints[n0:] if not [1 for co in c.lc.values() if co % P]]
if not zero_rhs or any(list(k for (k, co) in a.lc.items() if co % P) != cwire for (a, b) in zero_rhs):
    fail("guarded(LinCombBool): guarded constraints do not use the condition's wire as guard")
if unsat(): fail("guarded(LinCombBool c=0)(failing assertion): unsatisfied constraints")

# public conditions
for pub in (True, 1):
    reset(); ran.clear()
    x = PrivVal(3); y = PrivVal(9)
    r = guarded(pub)(body)(x, y)
    s_pub = structure()
    reset()
    x = PrivVal(3); y = PrivVal(9)
    r2 = body(x, y)
    if s_pub != structure() or r.value != r2.value or r.value != body_native(3, 9):
        fail("guarded(%r) is not the plain body" % pub)
    clean_state("guarded(public true)")
for pub in (False, 0):
    reset(); ran.clear()
    x = PrivVal(30); y = PrivVal(9)
    before = structure()
    try:
        r = guarded(pub)(body)(x, y)
        if r is not None or ran or structure() != before:
            fail("guarded(%r): body of a public false condition ran / left traces" % pub)
    except RuntimeError as e:
        # unchanged tree: "unreachable code"; nothing may have run or been emitted either
        if ran or structure() != before: fail("guarded(%r): raised after running the body" % pub)
    clean_state("guarded(public false)")
reset()
try:
    guarded(2)(lambda: None)()
    fail("guarded(2) accepted")
except RuntimeError: pass
clean_state("guarded(2)")
reset()
try:
    guarded(PrivVal(2))(lambda: None)()
    fail("guarded(PrivVal(2)) accepted")
except RuntimeError: pass
clean_state("guarded(PrivVal(2))")

# nesting: all kinds x all values; the inner body's assertion must only count when every guard is true
def mk(kind, v):
    if kind == "bool": return PrivValBool(v)
    if kind == "lc": return PrivValBool(v).lc
    return bool(v)
structs = {}
for (k1, k2) in itertools.product(("bool", "lc", "pub"), repeat=2):
    for (v1, v2, x0) in itertools.product((0, 1), (0, 1), (3, 4, -2, 1000)):
        if k1 == "pub" and not v1: continue
        if k2 == "pub" and not v2: continue
        if v1 and v2 and x0 != 3: continue
        reset(); ran.clear()
        x = PrivVal(x0)
        g1 = mk(k1, v1); g2 = mk(k2, v2)
        def inner():
            ran.append(2)
            x.assert_eq(3); x.assert_range(0, 5)
            return x + 1
        def outer():
            ran.append(1)
            t = x * x
            return guarded(g2)(inner)() + t
        what = "nested guarded %s=%d %s=%d x=%d" % (k1, v1, k2, v2, x0)
        try:
            r = guarded(g1)(outer)()
        except Exception as e:
            fail(what + ": raised " + repr(e)); continue
        clean_state(what)
        if ran != [1, 2]: fail(what + ": bodies ran " + str(ran))
        if v1 and v2 and r.value != x0 + 1 + x0 * x0: fail(what + ": wrong value")
        if unsat(): fail(what + ": unsatisfied constraints %s" % unsat()[:5])
        structs.setdefault((k1, k2), {}).setdefault(structure(), what)
for k, s in structs.items():
    if len(s) != 1: fail("nested guarded %s: constraint system depends on secrets: %s" % (k, list(s.values())))
if structs.get(("bool", "bool"), {}).keys() != structs.get(("lc", "lc"), {}).keys():
    fail("nested guarded: LinCombBool and LinComb conditions give different constraint systems")

# exceptions propagate and leave no guard behind (active, inactive, nested, public)
class Boom(Exception): pass
def boom(): raise Boom()
for mkc in (lambda: PrivValBool(1), lambda: PrivValBool(0), lambda: PrivVal(1), lambda: PrivVal(0), lambda: True):
    reset()
    try:
        guarded(mkc())(boom)()
        fail("exception swallowed by guarded")
    except Boom: pass
    clean_state("guarded(raising body)")
    reset()
    try:
        guarded(PrivValBool(1))(lambda: guarded(mkc())(boom)())()
        fail("exception swallowed by nested guarded")
    except Boom: pass
    clean_state("nested guarded(raising body)")
    reset()
    try:
        if_then_else(PrivValBool(0), PrivVal(1), boom)
        fail("exception swallowed by lazy if_then_else")
    except Boom: pass
    clean_state("if_then_else(raising lazy branch)")

# ---------------------------------------------------------------- 5: brute force over small witnesses
CAND = [v % P for v in range(-6, 7)]

def brute(privs):
    """ all assignments of the private wires from CAND that satisfy every constraint (public wires as recorded) """
    sols = []
    for vals in itertools.product(CAND, repeat=len(privs)):
        assign = dict(zip(privs, vals))
        if not unsat(assign): sols.append(assign)
    return sols

# (a) x public;  if c: assert x == 3
for x0 in range(0, 6):
    reset()
    x = PubVal(x0); c = PrivValBool(0)
    guarded(c)(lambda: x.assert_eq(3))()
    privs = [-(i + 1) for i in range(len(be.privvals))]
    if len(privs) > 3: fail("brute (a): unexpectedly many wires"); continue
    sols = brute(privs)
    cw = list(c.lc.lc.lc.keys())[0]
    cs = sorted(set(s[cw] for s in sols))
    want = [0, 1] if x0 == 3 else [0]
    if cs != want: fail("brute (a) x=%d: satisfiable with c in %s, native control flow allows %s" % (x0, cs, want))

# (b) x, out public;  out = (x+1 with assert x == 3) if c else x+2
for x0 in range(1, 5):
    for out0 in range(2, 8):
        reset()
        x = PubVal(x0); c = PrivValBool(0)
        r = if_then_else(c, lambda: (x.assert_eq(3), x + 1)[1], lambda: x + 2)
        out = PubVal(out0)
        rt.ignore_errors(True)
        (r - out).assert_zero()
        rt.ignore_errors(False)
        privs = [-(i + 1) for i in range(len(be.privvals))]
        if len(privs) > 4: fail("brute (b): unexpectedly many wires"); break
        sols = brute(privs)
        cw = list(c.lc.lc.lc.keys())[0]
        cs = sorted(set(s[cw] for s in sols))
        want = sorted(set(([0] if out0 == x0 + 2 else []) + ([1] if (x0 == 3 and out0 == 4) else [])))
        if cs != want: fail("brute (b) x=%d out=%d: satisfiable with c in %s, native allows %s" % (x0, out0, cs, want))

print("selections checked:", nsel)
if failures:
    print("%d check(s) FAILED" % len(failures))
    sys.exit(1)
print("P.check: property C09 held in all cases")
sys.exit(0)
