"""
P.check.py - exercises LinComb division (the "lifted quotient" design) and, more
broadly, every operator, and checks property C04 on EVERY LinComb object that is
constructed during the run:

      value  ==  <lc , recorded witness>      (mod p)

The snarkjs backend is used because it is pure Python and keeps the witness
(pubvals / privvals) and the constraints in plain lists, so linear combinations
can be evaluated here.

Besides C04 the division scenarios also check
  * quo * divisor == dividend (mod p)   (the result really is the field quotient)
  * quo == dividend // divisor whenever the divisor divides the dividend
  * a ValueError is raised exactly when it does not and errors are not ignored
  * every constraint the backend received is satisfied by the recorded witness
    (with the new design also on the error path of LinComb / LinComb)
  * the shape of the circuit (number of constraints / wires) does not depend on
    the values

Exit status 0: everything held.  Non-zero: something did not (details printed).
"""
import os
import sys
import math
import itertools

os.environ["PYSNARK_BACKEND"] = "snarkjs"

import pysnark.runtime as rt
import pysnark.snarkjsbackend as be

rt.autoprove = False
if rt.backend is not be:
    print("could not select the snarkjs backend")
    sys.exit(2)

from pysnark.runtime import LinComb, PrivVal, PubVal, ConstVal, guarded, ignore_errors
from pysnark.boolean import LinCombBool, PrivValBool
from pysnark.fixedpoint import LinCombFxp, PrivValFxp
from pysnark.branching import if_then_else

P = be.get_modulus()

# ---------------------------------------------------------------- bookkeeping

created = []
_orig_init = LinComb.__init__

def _recording_init(self, *args, **kwargs):
    _orig_init(self, *args, **kwargs)
    created.append(self)

LinComb.__init__ = _recording_init

failures = []
nchecked = 0

def fail(msg):
    failures.append(msg)
    if len(failures) <= 25:
        print("FAIL:", msg)

def wire(k):
    if k == 0: return 1
    if k > 0: return be.pubvals[k - 1]
    return be.privvals[-k - 1]

def ev(lc):
    return sum(c * wire(k) for (k, c) in lc.lc.items()) % P

def reset():
    del created[:]
    del be.constraints[:]
    del be.privvals[:]
    del be.pubvals[:]

def check_c04(tag):
    """ every LinComb constructed since reset(): value congruent to its lc on the witness """
    global nchecked
    for x in created:
        nchecked += 1
        if not isinstance(x.value, int):
            fail("%s: non-integer value %r" % (tag, x.value))
        elif (x.value - ev(x.lc)) % P != 0:
            fail("%s: value %d but wire expression evaluates to %d" % (tag, x.value, ev(x.lc)))

def check_constraints(tag):
    for (v, w, y) in be.constraints:
        if (ev(v) * ev(w) - ev(y)) % P != 0:
            fail("%s: recorded constraint not satisfied by recorded witness" % tag)
            return

MODES = ["plain", "ignore", "guard1", "guard0", "guard1-ignore", "guard1-guard0", "guard0-guard1"]

def ignoring(mode):
    return mode in ("ignore", "guard0", "guard1-ignore", "guard1-guard0", "guard0-guard1")

def run(mode, fn):
    """ runs fn() in the given mode; returns (result, exception) """
    reset()
    old_ignore = ignore_errors()
    res = exc = None
    try:
        if "ignore" in mode: ignore_errors(True)
        guards = [int(part[-1]) for part in mode.split("-") if part.startswith("guard")]
        wrapped = fn
        if len(guards) == 2:
            inner = wrapped
            g_in = guards[1]
            wrapped = lambda: guarded(PrivVal(g_in))(inner)()
        try:
            if guards:
                res = guarded(PrivVal(guards[0]))(wrapped)()
            else:
                res = wrapped()
        except (ValueError, AssertionError, ZeroDivisionError, OverflowError) as e:
            exc = e
    finally:
        ignore_errors(old_ignore)
        if rt.guard is not None or LinComb.ONE is not LinComb.ONE_SAFE:
            fail("guard state not restored after mode " + mode)
    return (res, exc)

# ------------------------------------------------- 1. the helper on its own

helper = getattr(rt, "_lifted_quotient", None)
if helper is not None:
    vals = list(range(-70, 71)) + [P - 1, P, P + 1, -P, 2 * P + 3, 2 ** 200 + 12345, -(2 ** 130) - 1]
    divs = [d for d in range(-45, 46) if d != 0] + [2 ** 31 - 1, -(2 ** 61 - 1), P - 1, P + 1, 2 ** 300 + 1]
    for (v, d) in itertools.product(vals, divs):
        (quo, lift) = helper(v, d)
        if math.gcd(d, P) != 1:
            continue
        if quo * d != v + lift * P: fail("helper: identity broken for %d / %d" % (v, d))
        if not (0 <= lift < abs(d)): fail("helper: lift out of range for %d / %d" % (v, d))
        if (lift == 0) != (v % d == 0): fail("helper: lift==0 does not mean divisible for %d / %d" % (v, d))
        if v % d == 0 and quo != v // d: fail("helper: not the integer quotient for %d / %d" % (v, d))
    for v in [0, P, 5 * P, 7, -3]:    # divisors that are zero in the field
        for d in [P, -P, 3 * P]:
            (quo, lift) = helper(v, d)
            if v % d == 0:
                if (quo, lift) != (v // d, 0): fail("helper: exact quotient by a multiple of p")
            elif (quo, lift) != (0, None): fail("helper: expected (0, None) for %d / %d" % (v, d))

# ------------------------------------------------- 2. division, exhaustively

A = list(range(-14, 15)) + [P - 1, P, P + 5, -P - 3, 2 ** 70 + 1, 3 * P + 7, (P - 1) // 2, 360360, -720720]
D = [d for d in range(-13, 14) if d != 0] + [2 ** 20 + 1, -(2 ** 33 + 7), P - 2, P + 2, 256, P, -2 * P]

KINDS = {
    # name: (builder of the quotient, function giving the plain dividend)
    "priv/int":      (lambda a, d: PrivVal(a) / d,              lambda a: a),
    "pub/int":       (lambda a, d: PubVal(a) / d,               lambda a: a),
    "derived/int":   (lambda a, d: (PrivVal(a) * 3 + 1) / d,    lambda a: 3 * a + 1),
    "priv/priv":     (lambda a, d: PrivVal(a) / PrivVal(d),     lambda a: a),
    "int/priv":      (lambda a, d: a / PrivVal(d),              lambda a: a),
    "priv/derived":  (lambda a, d: PrivVal(a) / (PrivVal(d - 1) + 1), lambda a: a),
    "product/priv":  (lambda a, d: (PrivVal(a) * PrivVal(d)) / PrivVal(d), lambda a: None),
}

shapes = {}
nscen = 0
for kind, (build, dividend) in KINDS.items():
    for mode in MODES:
        for (a, d) in itertools.product(A, D):
            nscen += 1
            tag = "%s %s a=%d d=%d" % (kind, mode, a, d)
            (res, exc) = run(mode, lambda: build(a, d))
            check_c04(tag)
            num = dividend(a)
            if num is None: num = a * d
            if exc is not None:
                if isinstance(exc, ZeroDivisionError):
                    if d % P != 0: fail(tag + ": unexpected ZeroDivisionError")
                elif not isinstance(exc, ValueError):
                    fail(tag + ": unexpected exception " + repr(exc))
                elif num % d == 0 or ignoring(mode):
                    fail(tag + ": raised although it should not: " + str(exc))
                continue
            if not isinstance(res, LinComb):
                fail(tag + ": did not return a LinComb")
                continue
            # (a divisor that is zero in the field admits no quotient, so in unguarded
            #  ignore-errors mode the constraint cannot hold by nature; same as before the change)
            if math.gcd(d, P) == 1 or num % d == 0: check_constraints(tag)
            if num % d == 0:
                if res.value != num // d: fail(tag + ": exact quotient expected, got %d" % res.value)
            else:
                if not ignoring(mode): fail(tag + ": inexact division went through unnoticed")
                if math.gcd(d, P) == 1:
                    k = res.value * d - num
                    if k % P != 0 or not (0 < k // P < abs(d)):
                        fail(tag + ": reported value %d is not the minimal lift" % res.value)
            if math.gcd(d, P) == 1 and (res.value * d - num) % P != 0:
                fail(tag + ": reported value is not the field quotient")
            if math.gcd(d, P) == 1 and (ev(res.lc) * d - num) % P != 0:
                fail(tag + ": wire expression is not the field quotient")
            shapes.setdefault((kind, mode), set()).add((len(be.constraints), len(be.privvals), len(be.pubvals)))

for key, shp in shapes.items():
    if len(shp) != 1:
        fail("circuit shape of %s depends on the values: %s" % (key, sorted(shp)))

# fixed-point numbers divide through floor division, but make sure a LinCombFxp wrapped
# around a quotient is consistent too
for mode in MODES:
    for (a, d) in itertools.product(range(-6, 7), [1, 2, 3, -4, 5]):
        (res, exc) = run(mode, lambda: LinCombFxp(PrivVal(a) / d) * 3 + LinCombFxp(PrivVal(a) / PrivVal(d), False))
        check_c04("fxp-wrap %s a=%d d=%d" % (mode, a, d))

# ------------------------------------------------- 3. everything else, small domains

rt.bitlength = 5

def unary_ops(x):
    yield lambda: -x
    yield lambda: abs(x)
    yield lambda: ~x
    yield lambda: x ** 3
    yield lambda: x >> 1
    yield lambda: x << 2
    yield lambda: x.check_zero()
    yield lambda: x.check_nonzero()
    yield lambda: x.check_positive()
    yield lambda: x.to_bits()
    yield lambda: 2 ** x
    yield lambda: x.val()
    yield lambda: (x.assert_positive(), x)[1]

def binary_ops(x, y):
    yield lambda: x + y
    yield lambda: x - y
    yield lambda: x * y
    yield lambda: x / y
    yield lambda: y / x
    yield lambda: x // y
    yield lambda: x % y
    yield lambda: divmod(x, y)
    yield lambda: x ** y
    yield lambda: x << y
    yield lambda: x >> y
    yield lambda: x & y
    yield lambda: x | y
    yield lambda: x ^ y
    yield lambda: x == y
    yield lambda: x != y
    yield lambda: x < y
    yield lambda: x >= y
    yield lambda: if_then_else(x >= y, x / y, y)
    yield lambda: if_then_else(x == y, lambda: x / (y + 1), lambda: (x + 1) / y)
    yield lambda: (x * y) / y
    yield lambda: (x.assert_lt(y), x - y)[1]

SMALL = [-3, -1, 0, 1, 2, 5, 12]
for mode in MODES:
    for a in SMALL:
        for i in range(len(list(unary_ops(None)))):
            (res, exc) = run(mode, lambda: list(unary_ops(PrivVal(a)))[i]())
            check_c04("unary#%d %s a=%d" % (i, mode, a))
    for (a, b) in itertools.product(SMALL, SMALL):
        nbin = len(list(binary_ops(None, None)))
        for i in range(nbin):
            for rhs in ("priv", "int"):
                mk = (lambda: PrivVal(b)) if rhs == "priv" else (lambda: b)
                (res, exc) = run(mode, lambda: list(binary_ops(PrivVal(a), mk()))[i]())
                check_c04("binary#%d/%s %s a=%d b=%d" % (i, rhs, mode, a, b))

# Booleans and fixed point
for mode in MODES:
    for (a, b) in itertools.product([0, 1], [0, 1]):
        def boolprog():
            x = PrivValBool(a); y = PrivValBool(b)
            return [x & y, x | y, x ^ y, ~x, x & 1, x ^ 1, x | 0, x + y, x * y, x ** y, x == y, x.if_else(PrivVal(7), PrivVal(9)) / 3]
        (res, exc) = run(mode, boolprog)
        check_c04("bool %s %d %d" % (mode, a, b))
    for (a, b) in itertools.product([-1.5, 0.0, 0.25, 2.0], [-2.0, 0.5, 3.0]):
        def fxpprog():
            x = PrivValFxp(a); y = PrivValFxp(b)
            return [x + y, x - y, x * y, x / y, x // y, x % y, x * 2, x / 2, x * 1.5, x ** 2, x < y, abs(x), x + PrivVal(1)]
        (res, exc) = run(mode, fxpprog)
        check_c04("fxp %s %r %r" % (mode, a, b))

print("scenarios with a division: %d, LinComb objects checked: %d, failures: %d" % (nscen, nchecked, len(failures)))
sys.exit(1 if failures else 0)
