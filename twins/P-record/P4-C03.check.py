#!/usr/bin/env python
"""
Evidence program for change P (LinCombBool(): declaration emitted unguarded,
Python constants accepted without a constraint).

Run as   PYTHONPATH=<tree> /venv/bin/python P.check.py   from an empty directory.

A recording backend over the small prime field F_97 is installed in place of
pysnark.nobackend, so every wire, its recorded value and every constraint
(v, w, y  meaning  <v>*<w> = <y>) is available.  Checked, for property C03
("assertions and declared types are enforced inside the circuit"):

 A  every way of declaring a value Boolean (LinCombBool(x), _ensurebool(x), b&x,
    b|x, b^x, b==x, b.assert_eq(x) ..., PrivValBool, PubValBool), in every
    context (no guard, guard, negated guard, nested guards, lazy if_then_else
    branches, taken and not taken, errors ignored or not):
      - accepted calls: the recorded witness satisfies every constraint;
      - exhaustive search over ALL 97 values of the operand wire, all guard
        assignments and all auxiliary witnesses: the system is satisfiable for
        operand 0 and 1 (any guard) and UNsatisfiable for every other operand
        value when the guards are on;
      - a non-Boolean operand value is rejected at run time in every mode
        (that is what makes the unguarded constraint complete);
      - the constraint system does not depend on the values traced with.
 B  constants: LinCombBool(c) for c in 0, 1, False, True adds no wire and no
    constraint, behaves like the Python constant in &,|,^,~ and in all six
    assertions (accepted iff the Python relation holds; by exhaustive search the
    circuit is satisfiable for exactly those values of the other operand);
    other constants are refused.   (Skipped on a tree without that feature.)
 C  users of Boolean declarations inside branches: to_bits(n), assert_positive(n),
    PackIntMod.pack, assert_lt/le/gt/ge/eq/ne/zero/nonzero/range: for operand
    values on both sides of the relation (boundaries included), guards on/off:
      - run-time acceptance == Python relation (guard on), always accepted in
        a branch that is not taken, recorded witness satisfies everything;
      - exhaustive search with the operand wires fixed: guards on ->
        satisfiable iff the relation is true; guard off -> satisfiable.
 D  random nested programs mixing all of the above: recorded witness satisfies
    every constraint, values agree with plain Python.

Exit status 0 iff the property held in all cases.
"""
import os, sys, types, random, itertools

MOD = 97
BL = 3          # runtime.bitlength used throughout (2**(BL+1) << MOD: no wrap-around)

# ----------------------------------------------------------------- recording backend
class LC:
    __slots__ = ("t",)
    def __init__(self, t=None):
        self.t = {k: c % MOD for k, c in (t or {}).items() if c % MOD}
    def __add__(self, o):
        r = dict(self.t)
        for k, c in o.t.items(): r[k] = r.get(k, 0) + c
        return LC(r)
    def __neg__(self): return LC({k: -c for k, c in self.t.items()})
    def __sub__(self, o): return self + (-o)
    def __mul__(self, k):
        if not isinstance(k, int): raise TypeError("LC * " + str(type(k)))
        return LC({v: c * k for v, c in self.t.items()})
    def key(self): return tuple(sorted(self.t.items()))

rec = types.ModuleType("pysnark.nobackend")
rec.wit = [1]          # wire 0 is the constant one
rec.pub = set()
rec.cons = []
def _privval(val):
    rec.wit.append(val % MOD); return LC({len(rec.wit) - 1: 1})
def _pubval(val):
    rec.wit.append(val % MOD); rec.pub.add(len(rec.wit) - 1); return LC({len(rec.wit) - 1: 1})
rec.privval = _privval
rec.pubval = _pubval
rec.zero = lambda: LC()
rec.one = lambda: LC({0: 1})
rec.fieldinverse = lambda v: pow(v % MOD, -1, MOD)
rec.get_modulus = lambda: MOD
rec.add_constraint = lambda v, w, y: rec.cons.append((v, w, y))
rec.prove = lambda: None
sys.modules["pysnark.nobackend"] = rec
os.environ["PYSNARK_BACKEND"] = "nobackend"

import pysnark.runtime as rt
from pysnark.runtime import LinComb, PrivVal, PubVal, ConstVal, guarded, ignore_errors
from pysnark.boolean import LinCombBool, PrivValBool, PubValBool
from pysnark.branching import if_then_else
from pysnark.pack import PackIntMod
assert rt.backend is rec, "recording backend not picked up"
rt.autoprove = False

def fresh():
    rec.wit[:] = [1]; rec.pub.clear(); rec.cons.clear()
    rt.guard = None; rt._ignore_errors = False
    LinComb.ONE = LinComb.ONE_SAFE
    rt.bitlength = BL

def ev(lc, w):
    return sum(c * w[k] for k, c in lc.t.items()) % MOD

def failing(w=None, cons=None):
    w = rec.wit if w is None else w
    cons = rec.cons if cons is None else cons
    return [i for i, (a, b, c) in enumerate(cons) if ev(a, w) * ev(b, w) % MOD != ev(c, w)]

def shape():
    return tuple((a.key(), b.key(), c.key()) for (a, b, c) in rec.cons)

def var(x):
    """wire index of a value that is a single fresh wire"""
    lc = x.lc if isinstance(x, LinComb) else x.lc.lc
    (k, c), = lc.t.items()
    assert c == 1
    return k

def solvable(fixed, cons=None, n=None):
    """Is there an assignment of all wires, extending `fixed`, satisfying all constraints?
       Complete search over F_97: constraints with a single unassigned wire restrict that
       wire's candidates (all 97 values are tried against them); the wire with the fewest
       candidates is branched on; a wire no such constraint mentions is tried with all 97 values."""
    cons = list(rec.cons) if cons is None else cons
    n = len(rec.wit) if n is None else n
    cvars = [sorted({k for lc in c for k in lc.t} - {0}) for c in cons]
    w = [None] * n
    w[0] = 1
    for k, v in fixed.items(): w[k] = v % MOD
    def split(lc, t):
        a0 = 0
        for k, c in lc.t.items():
            if k != t: a0 += c * w[k]
        return a0 % MOD, lc.t.get(t, 0)
    def go():
        cands = {}
        for ci, (a, b, c) in enumerate(cons):
            un = None; cnt = 0
            for k in cvars[ci]:
                if w[k] is None:
                    cnt += 1; un = k
                    if cnt > 1: break
            if cnt == 0:
                if ev(a, w) * ev(b, w) % MOD != ev(c, w): return False
            elif cnt == 1:
                a0, a1 = split(a, un); b0, b1 = split(b, un); c0, c1 = split(c, un)
                dom = cands.get(un, range(MOD))
                new = [t for t in dom if (a0 + a1 * t) * (b0 + b1 * t) % MOD == (c0 + c1 * t) % MOD]
                if not new: return False
                cands[un] = new
        if cands:
            t = min(cands, key=lambda k: len(cands[k])); dom = cands[t]
        else:
            t = next((k for k in range(1, n) if w[k] is None), None)
            if t is None: return True
            dom = range(MOD)
        for val in dom:
            w[t] = val
            if go(): return True
        w[t] = None
        return False
    return go()

problems = []
counts = {}
def bad(msg):
    problems.append(msg)
    if len(problems) <= 40: print("VIOLATION:", msg)
def tick(k, n=1): counts[k] = counts.get(k, 0) + n

# ----------------------------------------------------------------- contexts
# a context runs `body` under some guards; gv are the values of the condition bits;
# it returns [(wire of condition bit, value for which the body is live)]
def ctx_plain(body, gv):
    body(); return []
def ctx_guard(body, gv):
    g = PrivValBool(gv[0]); guarded(g.lc)(body)(); return [(var(g), 1)]
def ctx_notguard(body, gv):
    g = PrivValBool(gv[0]); guarded((~g).lc)(body)(); return [(var(g), 0)]
def ctx_nested(body, gv):
    g1 = PrivValBool(gv[0]); g2 = PrivValBool(gv[1])
    guarded(g1.lc)(lambda: guarded(g2.lc)(body)())()
    return [(var(g1), 1), (var(g2), 1)]
def ctx_ite_then(body, gv):
    c = PrivValBool(gv[0]); if_then_else(c, lambda: (body(), 0)[1], 0); return [(var(c), 1)]
def ctx_ite_else(body, gv):
    c = PrivValBool(gv[0]); if_then_else(c, 0, lambda: (body(), 0)[1]); return [(var(c), 0)]
def ctx_ite_nested(body, gv):
    c1 = PrivValBool(gv[0]); c2 = PrivValBool(gv[1])
    if_then_else(c1, 0, lambda: if_then_else(c2, lambda: (body(), 0)[1], 0))
    return [(var(c1), 0), (var(c2), 1)]
CONTEXTS = [("plain", ctx_plain, 0), ("guard", ctx_guard, 1), ("~guard", ctx_notguard, 1),
            ("nested", ctx_nested, 2), ("ite-then", ctx_ite_then, 1), ("ite-else", ctx_ite_else, 1),
            ("ite-nested", ctx_ite_nested, 2)]

def live(gspec, gv):
    return all(gv[i] == on for i, (_, on) in enumerate(gspec))

# ----------------------------------------------------------------- A: declarations
# each declaration gets the operand x (a LinComb made outside the guard) and a bit b
DECLS = [
    ("LinCombBool(x)",      lambda x, b: LinCombBool(x)),
    ("_ensurebool(x)",      lambda x, b: LinCombBool._ensurebool(x)),
    ("b & x",               lambda x, b: b & x),
    ("b | x",               lambda x, b: b | x),
    ("b ^ x",               lambda x, b: b ^ x),
    ("x & b (rand)",        lambda x, b: b.__rand__(x)),
    ("b == x",              lambda x, b: b == x),
    ("b != x",              lambda x, b: b != x),
    ("b <= x",              lambda x, b: b <= x),
    ("if_then_else(LinCombBool(x),..)", lambda x, b: if_then_else(LinCombBool(x), PrivVal(5), PrivVal(7))),
]

def section_A():
    for (cname, ctx, ng) in CONTEXTS:
        for (dname, decl) in DECLS:
            for ign in (False, True):
                ref = None
                for gv in itertools.product((0, 1), repeat=ng):
                    for xv in (0, 1):
                        for bv in (0, 1):
                            fresh(); ignore_errors(ign)
                            x = PrivVal(xv); b = PrivValBool(bv)
                            try:
                                gspec = ctx(lambda: decl(x, b), list(gv))
                            except Exception as e:
                                bad("A %s in %s ign=%s g=%s x=%d b=%d: rejected a Boolean value: %r" % (dname, cname, ign, gv, xv, bv, e)); continue
                            tick("A accepted")
                            f = failing()
                            if f: bad("A %s in %s ign=%s g=%s x=%d b=%d: recorded witness violates constraints %s" % (dname, cname, ign, gv, xv, bv, f))
                            if rt.guard is not None or rt._ignore_errors != ign or LinComb.ONE is not LinComb.ONE_SAFE:
                                bad("A %s in %s: guard state not restored" % (dname, cname))
                            if ref is None: ref = (shape(), var(x), var(b), gspec, list(rec.cons), len(rec.wit))
                            elif ref[0] != shape(): bad("A %s in %s: constraint system depends on the values" % (dname, cname))
                if ign or ref is None: continue      # same circuit with errors ignored (just compared); search once
                _, xi, bi, gspec, cons, n = ref
                for gv in itertools.product((0, 1), repeat=ng):
                    fixed0 = {gi: g for (gi, _), g in zip(gspec, gv)}
                    on = live(gspec, gv)
                    for xval in range(MOD):
                        fixed = dict(fixed0); fixed[xi] = xval
                        s = solvable(fixed, cons, n)
                        tick("A searches")
                        if xval in (0, 1) and not s:
                            bad("A %s in %s g=%s: no witness at all for the Boolean operand %d" % (dname, cname, gv, xval))
                        if xval not in (0, 1) and on and s:
                            bad("A %s in %s g=%s: operand %d is not a bit but the constraints are satisfiable" % (dname, cname, gv, xval))
                        if xval not in (0, 1) and not on: tick("A dead-branch non-bit operand: " + ("satisfiable" if s else "unsatisfiable"))
    # fresh witnesses / inputs declared Boolean inside the contexts
    for (cname, ctx, ng) in CONTEXTS:
        for (dname, mk) in (("PrivValBool", PrivValBool), ("PubValBool", PubValBool)):
            ref = None
            for gv in itertools.product((0, 1), repeat=ng):
                for v in (0, 1, False, True):
                    fresh()
                    out = []
                    gspec = ctx(lambda: out.append(mk(v)), list(gv))
                    if failing(): bad("A %s(%r) in %s g=%s: recorded witness violates constraints" % (dname, v, cname, gv))
                    if out[0].lc.value != int(v): bad("A %s(%r): value %r" % (dname, v, out[0].lc.value))
                    tick("A accepted")
                    if ref is None: ref = (shape(), var(out[0]), gspec, list(rec.cons), len(rec.wit))
                    elif ref[0] != shape(): bad("A %s in %s: constraint system depends on the values" % (dname, cname))
            _, xi, gspec, cons, n = ref
            for gv in itertools.product((0, 1), repeat=ng):
                fixed0 = {gi: g for (gi, _), g in zip(gspec, gv)}
                for xval in range(MOD):
                    fixed = dict(fixed0); fixed[xi] = xval
                    s = solvable(fixed, cons, n); tick("A searches")
                    if xval in (0, 1) and not s: bad("A %s in %s g=%s: value %d has no witness" % (dname, cname, gv, xval))
                    if xval not in (0, 1) and live(gspec, gv) and s: bad("A %s in %s g=%s: non-bit %d satisfiable" % (dname, cname, gv, xval))
    # non-Boolean values are refused whatever the mode (this is what the unguarded constraint relies on)
    for (cname, ctx, ng) in CONTEXTS:
        for gv in itertools.product((0, 1), repeat=ng):
            for ign in (False, True):
                for xv in (2, -1, 96, 97, 98, 255):
                    for (dname, decl) in DECLS[:8] + [("PrivValBool(v)", lambda x, b: PrivValBool(x.value)), ("PubValBool(v)", lambda x, b: PubValBool(x.value))]:
                        fresh(); ignore_errors(ign)
                        x = PrivVal(xv); b = PrivValBool(1)
                        try:
                            ctx(lambda: decl(x, b), list(gv))
                            bad("A %s in %s g=%s ign=%s accepted the non-Boolean value %d" % (dname, cname, gv, ign, xv))
                        except ValueError:
                            tick("A non-bit refused")
                        finally:
                            rt.guard = None

# ----------------------------------------------------------------- B: constants
PYREL = {"eq": lambda a, b: a == b, "ne": lambda a, b: a != b, "lt": lambda a, b: a < b,
         "le": lambda a, b: a <= b, "gt": lambda a, b: a > b, "ge": lambda a, b: a >= b}

def section_B():
    fresh()
    try:
        LinCombBool(1)
    except RuntimeError:
        print("B: this tree does not accept Python constants in LinCombBool(); section skipped")
        return
    for c in (0, 1, False, True):
        fresh()
        k = LinCombBool(c)
        if len(rec.wit) != 1 or rec.cons: bad("B LinCombBool(%r) allocated wires / constraints" % (c,))
        if k.lc.value != int(c) or k.lc.lc.key() != (ConstVal(int(c)).lc.key()): bad("B LinCombBool(%r) is not the constant" % (c,))
        if (~k).lc.value != 1 - int(c): bad("B ~LinCombBool(%r)" % (c,))
        for (cname, ctx, ng) in CONTEXTS:
            for gv in itertools.product((0, 1), repeat=ng):
                fresh(); out = []
                ctx(lambda: out.append(LinCombBool(c)), list(gv))
                if failing() or out[0].lc.value != int(c) or out[0].lc.lc.key() != ConstVal(int(c)).lc.key():
                    bad("B LinCombBool(%r) in %s g=%s" % (c, cname, gv))
        for bv in (0, 1):
            for opn, op, py in (("&", lambda a, b: a & b, lambda a, b: a & b), ("|", lambda a, b: a | b, lambda a, b: a | b),
                                ("^", lambda a, b: a ^ b, lambda a, b: a ^ b)):
                for swap in (False, True):
                    fresh(); b = PrivValBool(bv); k = LinCombBool(c)
                    r = op(k, b) if swap else op(b, k)
                    if failing() or r.lc.value != py(bv, int(c)): bad("B %s %s const %r" % (bv, opn, c))
                    tick("B ops")
        for rel in PYREL:
            ref = None
            for bv in (0, 1):
                for ign in (False, True):
                    fresh(); ignore_errors(ign)
                    b = PrivValBool(bv); k = LinCombBool(c)
                    want = PYREL[rel](bv, int(c))
                    try:
                        getattr(b, "assert_" + rel)(k); acc = True
                    except AssertionError:
                        acc = False
                    if not ign and acc != want: bad("B bit %d assert_%s const %r: accepted=%s" % (bv, rel, c, acc))
                    if ign and not acc: bad("B assert_%s raised with errors ignored" % rel)
                    if acc and want and failing(): bad("B bit %d assert_%s const %r: true, accepted, recorded witness fails" % (bv, rel, c))
                    if acc and not want and not failing(): bad("B bit %d assert_%s const %r: false but recorded witness satisfies" % (bv, rel, c))
                    if acc:
                        if ref is None: ref = (shape(), var(b), list(rec.cons), len(rec.wit))
                        elif ref[0] != shape(): bad("B assert_%s: circuit depends on values" % rel)
                    tick("B assertions")
            _, bi, cons, n = ref
            for bval in range(MOD):
                s = solvable({bi: bval}, cons, n); tick("B searches")
                want = bval in (0, 1) and PYREL[rel](bval, int(c))
                if s != want: bad("B x.assert_%s(LinCombBool(%r)): operand %d satisfiable=%s, relation=%s" % (rel, c, bval, s, want))
    for c in (2, -1, 97, 98):
        fresh()
        try: LinCombBool(c); bad("B LinCombBool(%r) accepted" % (c,))
        except ValueError: tick("B refused")
    for c in (2.5, 1.0, "1", None, [1]):
        fresh()
        try: LinCombBool(c); bad("B LinCombBool(%r) accepted" % (c,))
        except RuntimeError: tick("B refused")

# ----------------------------------------------------------------- C: n-bit declarations and assertions in branches
VALS = [-9, -8, -2, -1, 0, 1, 2, 3, 6, 7, 8, 9, 15, 16]
def asserts():
    """(name, arity, body(ops...), python relation(values...))  -- relation incl. the width the call applies"""
    fits = lambda d, n=BL: 0 <= d < (1 << n)
    L = []
    for n in (0, 1, 2, 3, 4):
        L.append(("to_bits(%d)" % n, 1, (lambda n: lambda x: x.to_bits(n))(n), (lambda n: lambda x: fits(x, n))(n)))
        L.append(("assert_positive(%d)" % n, 1, (lambda n: lambda x: x.assert_positive(n))(n), (lambda n: lambda x: fits(x, n))(n)))
    L.append(("to_bits()", 1, lambda x: x.to_bits(), lambda x: fits(x)))
    L.append(("assert_positive()", 1, lambda x: x.assert_positive(), lambda x: fits(x)))
    for m in (1, 2, 5, 8, 11):
        L.append(("PackIntMod(%d).pack" % m, 1, (lambda m: lambda x: PackIntMod(m).pack(x))(m), (lambda m: lambda x: fits(x, (m - 1).bit_length()))(m)))
    L.append(("assert_zero", 1, lambda x: x.assert_zero(), lambda x: x == 0))
    L.append(("assert_nonzero", 1, lambda x: x.assert_nonzero(), lambda x: x != 0))
    L.append(("assert_eq", 2, lambda x, y: x.assert_eq(y), lambda x, y: x == y))
    L.append(("assert_ne", 2, lambda x, y: x.assert_ne(y), lambda x, y: x != y))
    L.append(("assert_lt", 2, lambda x, y: x.assert_lt(y), lambda x, y: x < y and fits(y - x - 1)))
    L.append(("assert_le", 2, lambda x, y: x.assert_le(y), lambda x, y: x <= y and fits(y - x)))
    L.append(("assert_gt", 2, lambda x, y: x.assert_gt(y), lambda x, y: x > y and fits(x - y - 1)))
    L.append(("assert_ge", 2, lambda x, y: x.assert_ge(y), lambda x, y: x >= y and fits(x - y)))
    L.append(("assert_range", 3, lambda x, y, z: x.assert_range(y, z), lambda x, y, z: y <= x < z and fits(x - y) and fits(z - x - 1)))
    return L

def section_C():
    rnd = random.Random(3)
    for (aname, ar, body, rel) in asserts():
        if ar == 1: tuples = [(v,) for v in VALS]
        elif ar == 2: tuples = [(a, b) for a in VALS[::2] + [7, 8] for b in (-2, 0, 1, 7, 8, 9)]
        else: tuples = [(a, b, c) for a in (-1, 0, 1, 3, 7, 8) for b in (-1, 0, 2) for c in (0, 1, 4, 8, 9, 10)]
        for (cname, ctx, ng) in CONTEXTS:
            ref = None
            for gv in itertools.product((0, 1), repeat=ng):
                for vals in tuples:
                    for ign in (False, True):
                        fresh(); ignore_errors(ign)
                        ops = [PrivVal(v) for v in vals]
                        want = rel(*vals)
                        try:
                            gspec = ctx(lambda: body(*ops), list(gv)); acc = True
                        except (AssertionError, ValueError) as e:
                            acc = False; rt.guard = None
                        tick("C calls")
                        if ref is None and acc: ref = (shape(), [var(o) for o in ops], gspec, list(rec.cons), len(rec.wit))
                        if not acc:
                            # must be a live, error-checking call on a false relation
                            if ign or want: bad("C %s%s in %s g=%s ign=%s: rejected (relation %s)" % (aname, vals, cname, gv, ign, want))
                            continue
                        on = live(gspec, gv)
                        if ref[0] != shape(): bad("C %s in %s: constraint system depends on the values" % (aname, cname))
                        if on and not ign and not want: bad("C %s%s in %s g=%s: false relation accepted" % (aname, vals, cname, gv))
                        f = failing()
                        if (want or not on) and f: bad("C %s%s in %s g=%s ign=%s: accepted, %s, but recorded witness violates %s" % (aname, vals, cname, gv, ign, "true" if want else "dead branch", f))
                        if on and not want and not f: bad("C %s%s in %s g=%s: relation false, guards on, yet recorded witness satisfies everything" % (aname, vals, cname, gv))
            # exhaustive search on the circuit, operand wires and guards fixed
            _, ois, gspec, cons, n = ref
            sub = tuples if len(tuples) <= 30 else rnd.sample(tuples, 30)
            for gv in itertools.product((0, 1), repeat=ng):
                fixed0 = {gi: g for (gi, _), g in zip(gspec, gv)}
                on = live(gspec, gv)
                for vals in sub:
                    fixed = dict(fixed0)
                    for oi, v in zip(ois, vals): fixed[oi] = v
                    s = solvable(fixed, cons, n); tick("C searches")
                    if on and s != bool(rel(*vals)): bad("C %s%s in %s g=%s: satisfiable=%s but relation=%s" % (aname, vals, cname, gv, s, rel(*vals)))
                    if not on and not s: bad("C %s%s in %s g=%s: branch not taken but no witness exists" % (aname, vals, cname, gv))

# ----------------------------------------------------------------- D: random programs
def section_D():
    rnd = random.Random(11)
    for it in range(400):
        fresh()
        ign_outer = rnd.random() < 0.15
        ignore_errors(ign_outer)
        expect_fail = [False]
        def block(depth, alive):
            for _ in range(rnd.randint(1, 3)):
                k = rnd.randint(0, 9)
                a, b2 = rnd.randint(0, 1), rnd.randint(0, 1)
                if k == 0:
                    r = PrivValBool(a) & PrivVal(b2)
                    if r.lc.value != (a & b2): bad("D and")
                elif k == 1:
                    r = PrivValBool(a) ^ LinCombBool._ensurebool(PrivVal(b2))
                    if r.lc.value != (a ^ b2): bad("D xor")
                elif k == 2:
                    v = rnd.randint(0, 7); bits = PrivVal(v).to_bits()
                    if [x.lc.value for x in bits] != [(v >> i) & 1 for i in range(BL)]: bad("D to_bits")
                elif k == 3:
                    v = rnd.randint(-3, 12)
                    if alive and not ign_outer and not 0 <= v < 8: v = v % 8
                    if alive and not 0 <= v < 8: expect_fail[0] = True
                    PrivVal(v).assert_positive()
                elif k == 4:
                    u, v = rnd.randint(0, 6), rnd.randint(0, 6)      # v-u-1 has to fit BL bits for check_positive
                    r = PrivVal(u) < PrivVal(v)
                    if alive and r.lc.value != int(u < v): bad("D lt")
                elif k == 5:
                    u, v = rnd.randint(0, 7), rnd.randint(0, 7)
                    if alive and not ign_outer and not u <= v: u, v = v, u
                    if alive and not u <= v: expect_fail[0] = True
                    PrivVal(u).assert_le(PrivVal(v))
                elif k == 6:
                    want = a != b2
                    if alive and not ign_outer and not want: b2 = 1 - a
                    if alive and a == b2: expect_fail[0] = True
                    PrivValBool(a).assert_ne(PrivVal(b2))
                elif k == 7:
                    r = PubValBool(a) | PrivValBool(b2)
                    if r.lc.value != (a | b2): bad("D or")
                    if depth < 3:
                        c = rnd.randint(0, 1)
                        if_then_else(PrivValBool(c), lambda: (block(depth + 1, alive and c == 1), 0)[1], lambda: (block(depth + 1, alive and c == 0), 0)[1])
                elif k == 8 and depth < 3:
                    c = rnd.randint(0, 1)
                    g = PrivValBool(c)
                    guarded(g.lc)(lambda: block(depth + 1, alive and c == 1))()
                elif k == 9:
                    m = rnd.choice([2, 3, 5, 8]); v = rnd.randint(0, m - 1)
                    bits = PackIntMod(m).pack(PrivVal(v))
                    if sum(x.lc.value << i for i, x in enumerate(bits)) != v: bad("D pack")
        try:
            block(0, True)
        except Exception as e:
            bad("D program %d raised %r" % (it, e)); continue
        f = failing()
        if expect_fail[0] and not f: bad("D program %d: a live assertion was false but the recorded witness satisfies everything" % it)
        if not expect_fail[0] and f: bad("D program %d: recorded witness violates constraints %s" % (it, f))
        tick("D programs"); tick("D constraints", len(rec.cons))

section_A()
section_B()
section_C()
section_D()
for k in sorted(counts): print("%-55s %d" % (k, counts[k]))
if problems:
    print("FAILED: %d violations of C03" % len(problems))
    sys.exit(1)
print("OK: property C03 held in all cases")
