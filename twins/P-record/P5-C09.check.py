# Check for change P (property C09): oblivious if/elif/else, while, for and lazy selection compute what
# native control flow computes, with satisfied constraints that do not depend on the branches taken.
#
# Part A: generated programs (all nestings of if/elif/else, while+break, for+break, lazy selection, list
#         updates, variables first defined inside all branches), rendered once with the block API and once
#         with native Python control flow, run on ALL secret inputs.  A recording backend checks that every
#         emitted constraint holds for the witness and that the constraint list is the same for all inputs.
# Part B: soundness by brute force over a small field: for small programs ALL assignments of ALL wires that
#         satisfy the recorded constraints are enumerated; in each of them the output wire must carry what
#         the native program computes from the values on the input wires.
#
# Exits 0 iff everything was observed to hold.

import sys, types, random, itertools, traceback

# ---------------------------------------------------------------- recording backend
BIG = 21888242871839275222246405745257275088548364400416034343698204186575808495617
rec = types.ModuleType("pysnark.nobackend")
rec.P = BIG
rec.nwires = 1          # wire 0 is the constant one
rec.values = [1]
rec.constraints = []

class LC:
    def __init__(self, d): self.d = d
    def __add__(self, other):
        d = dict(self.d)
        for k, v in other.d.items():
            d[k] = (d.get(k, 0) + v) % rec.P
            if d[k] == 0: del d[k]
        return LC(d)
    def __mul__(self, c):
        return LC({k: v*c % rec.P for k, v in self.d.items() if v*c % rec.P})
    def __neg__(self): return self*(-1)
    def __sub__(self, other): return self+(-other)
    def ev(self, vals): return sum(c*vals[k] for k, c in self.d.items()) % rec.P
    def key(self): return tuple(self.d.items())

def _newwire(val):
    rec.values.append(val)
    rec.nwires += 1
    return LC({rec.nwires-1: 1})

rec.privval = _newwire
rec.pubval = _newwire
rec.zero = lambda: LC({})
rec.one = lambda: LC({0: 1})
rec.fieldinverse = lambda v: pow(v % rec.P, -1, rec.P) if v % rec.P else 0
rec.get_modulus = lambda: rec.P
rec.add_constraint = lambda v, w, y: rec.constraints.append((v, w, y))
rec.prove = lambda: None

def reset(p=BIG):
    rec.P = p
    rec.nwires = 1
    rec.values = [1]
    rec.constraints = []

import pysnark
sys.modules["pysnark.nobackend"] = rec
import pysnark.runtime
assert pysnark.runtime.backend is rec, "recording backend not picked up"
pysnark.runtime.autoprove = False
from pysnark.runtime import PrivVal, LinComb
from pysnark.boolean import PrivValBool, LinCombBool
from pysnark.branching import BranchingValues, if_then_else, _if, _elif, _else, _endif, _range, _while, \
    _endwhile, _endfor, _breakif

failures = []
def fail(msg):
    failures.append(msg)
    if len(failures) <= 25: print("FAIL:", msg)

def unsatisfied():
    vals = rec.values
    return [i for i, (v, w, y) in enumerate(rec.constraints) if (v.ev(vals)*w.ev(vals) - y.ev(vals)) % rec.P]

def structure():
    return [(v.key(), w.key(), y.key()) for (v, w, y) in rec.constraints]

def plain(v):
    if isinstance(v, list): return [plain(x) for x in v]
    if isinstance(v, LinCombBool): return v.lc.value
    if isinstance(v, LinComb): return v.value
    return int(v)

def clean_runtime():
    """ the library's global guard state must be back to normal after every program """
    ok = pysnark.runtime.guard is None and not pysnark.runtime.ignore_errors() and \
         pysnark.runtime.LinComb.ONE is pysnark.runtime.LinComb.ONE_SAFE
    pysnark.runtime.guard = None
    pysnark.runtime.ignore_errors(False)
    pysnark.runtime.LinComb.ONE = pysnark.runtime.LinComb.ONE_SAFE
    return ok

# ---------------------------------------------------------------- part A: program generator
class Native:
    """ plays the role of BranchingValues in the native rendering """
    pass

MAXIT = 2
NPROGRAMS = 120
MAXCONSTRAINTS = 6000

class Gen:
    def __init__(self, rnd):
        self.rnd = rnd
        self.uid = 0

    def fresh(self, pre):
        self.uid += 1
        return pre + str(self.uid)

    # conditions: (oblivious text, native text, usable in if_then_else)
    def cond(self, pubs, blockonly=True):
        r = self.rnd
        opts = ["a<2", "a==b", "b>=a", "a!=0", "_.c<=b", "_.c==a", "b>1", "_.c<2", "a+b==3", "_.c!=b+1"]
        for p in pubs: opts += [p+"==b", p+"<a", p+"!=a"]
        if blockonly and r.random() < 0.2:
            k = r.choice(["a", "b", "(a+b)"])
            # a plain LinComb bit as condition (the examples do this with PrivVal(0)/PrivVal(1))
            return ("BIT(%s)" % k, "BIT(%s)" % k)
        c = r.choice(opts)
        return (c, c)

    def expr(self, pubs, depth):
        r = self.rnd
        v = r.choice(["_.x", "_.y", "_.c", "_.l[0]", "_.l[1]", "a", "b"] + pubs)
        w = r.choice(["_.x", "_.y", "a", "b", "1", "2"] + pubs)
        form = r.randrange(8)
        if form == 0: return (v+"+1",)*2
        if form == 1: return (v+"+"+w,)*2
        if form == 2: return (v+"-"+w,)*2
        if form == 3: return ("2*"+v,)*2
        if form == 4: return ("a*b+"+v,)*2
        if form == 5: return (str(r.randrange(5)),)*2
        if form == 6 and depth < 2:
            c = self.cond(pubs, blockonly=False)
            e1, e2 = self.expr(pubs, depth+1), self.expr(pubs, depth+1)
            return ("if_then_else(%s, lambda: %s, lambda: %s)" % (c[0], e1[0], e2[0]),
                    "((%s) if (%s) else (%s))" % (e1[1], c[1], e2[1]))
        return (v+"+"+w+"*0+"+w,)*2

    def assign(self, pubs, ind):
        r = self.rnd
        tgt = r.choice(["_.x", "_.x", "_.y", "_.y", "_.l[0]", "_.l[1]"])
        e = self.expr(pubs, 0)
        if r.random() < 0.15: return ([ind+"_.c = _.c+1"], [ind+"_.c = _.c+1"])   # the compared counter stays small
        return ([ind+tgt+" = "+e[0]], [ind+tgt+" = "+e[1]])

    def block(self, pubs, ind, depth, n, inloop=False):
        ob, na = [], []
        for _i in range(n):
            o, m = self.stmt(pubs, ind, depth)
            ob += o; na += m
        return ob, na

    def stmt(self, pubs, ind, depth):
        r = self.rnd
        kind = r.choice(["assign"]*3 + (["if"]*3 + ["while", "for", "for2"] if depth < 3 else []) + (["newvar"] if depth == 0 else []))
        I = ind + "    "
        if kind == "assign": return self.assign(pubs, ind)
        if kind == "if":
            nbr = r.choice([1, 1, 2, 2, 3, 4])
            haselse = r.random() < 0.5
            ob, na = [], []
            for k in range(nbr):
                c = self.cond(pubs)
                bo, bn = self.block(pubs, I, depth+1, r.choice([1, 1, 2]))
                if k == 0:
                    ob += [ind+"if _if(%s):" % c[0]]; na += [ind+"if %s:" % c[1]]
                else:
                    ob += [ind+"if _elif(lambda: %s):" % c[0]]; na += [ind+"elif %s:" % c[1]]
                ob += bo; na += bn
            if haselse:
                bo, bn = self.block(pubs, I, depth+1, r.choice([1, 2]))
                ob += [ind+"if _else():"] + bo; na += [ind+"else:"] + bn
            ob += [ind+"_endif()"]
            return ob, na
        if kind == "newvar":
            # a variable that is first defined inside the branches (all of them, with else)
            nm = self.fresh("_.n")
            nbr = r.choice([1, 2, 3])
            ob, na = [], []
            for k in range(nbr):
                c = self.cond(pubs); e = self.expr(pubs, 0)
                if k == 0:
                    ob += [ind+"if _if(%s):" % c[0]]; na += [ind+"if %s:" % c[1]]
                else:
                    ob += [ind+"if _elif(lambda: %s):" % c[0]]; na += [ind+"elif %s:" % c[1]]
                ob += [I+nm+" = "+e[0]]; na += [I+nm+" = "+e[1]]
            e = self.expr(pubs, 0)
            ob += [ind+"if _else():", I+nm+" = "+e[0], ind+"_endif()", ind+"_.y = _.y+"+nm]
            na += [ind+"else:", I+nm+" = "+e[1], ind+"_.y = _.y+"+nm]
            return ob, na
        if kind == "while":
            k = self.fresh("k")
            c = self.cond(pubs + [k])
            b1o, b1n = self.block(pubs + [k], I, depth+1, r.choice([1, 2]))
            ob = [ind+k+" = 0", ind+"while _while(%s) and %s<%d:" % (c[0], k, MAXIT)] + b1o
            na = [ind+k+" = 0", ind+"while (%s) and %s<%d:" % (c[1], k, MAXIT)] + b1n
            if r.random() < 0.6:
                bc = self.cond(pubs + [k])
                ob += [I+"_breakif(%s)" % bc[0]]; na += [I+"if %s: break" % bc[1]]
                b2o, b2n = self.block(pubs + [k], I, depth+1, 1)
                ob += b2o; na += b2n
            ob += [I+k+" += 1", ind+"_endwhile()"]; na += [I+k+" += 1"]
            return ob, na
        # for loops: secret bound, public maximum
        i = self.fresh("i")
        if kind == "for":
            bnd = r.choice(["a", "b"])
            chk = r.choice(["", ", checkstopmax=True"])
            hdo = "for %s in _range(%s, max=3%s):" % (i, bnd, chk); hdn = "for %s in range(%s):" % (i, bnd)
        else:
            bnd = r.choice(["a+1", "b+1", "a+b+1"])
            hdo = "for %s in _range(1, %s, max=%d):" % (i, bnd, 7 if bnd == "a+b+1" else 4)
            hdn = "for %s in range(1, %s):" % (i, bnd)
        b1o, b1n = self.block(pubs + [i], I, depth+1, r.choice([1, 2]))
        ob = [ind+hdo] + b1o; na = [ind+hdn] + b1n
        if r.random() < 0.5:
            bc = self.cond(pubs + [i])
            ob += [I+"_breakif(%s)" % bc[0]]; na += [I+"if %s: break" % bc[1]]
            b2o, b2n = self.block(pubs + [i], I, depth+1, 1)
            ob += b2o; na += b2n
        ob += [ind+"_endfor()"]
        return ob, na

    def program(self):
        ob, na = self.block([], "", 0, self.rnd.choice([2, 3, 4]))
        return "\n".join(ob), "\n".join(na)

def run_oblivious(src, av, bv):
    reset()
    _ = BranchingValues()
    a, b = PrivVal(av), PrivVal(bv)
    _.x = PrivVal(1); _.y = 2; _.c = PrivVal(0); _.l = [PrivVal(5), 0]
    env = dict(_=_, a=a, b=b, BIT=lambda v: PrivVal(v.value & 1), if_then_else=if_then_else, _if=_if, _elif=_elif,
               _else=_else, _endif=_endif, _range=_range, _while=_while, _endwhile=_endwhile, _endfor=_endfor,
               _breakif=_breakif)
    try:
        exec(compile(src, "<oblivious>", "exec"), env)
        if len(_.stack): raise RuntimeError("unclosed blocks")
        return {k: plain(v) for k, v in _.vals.items()}
    finally:
        _.stack.clear()

def run_native(src, av, bv):
    _ = Native()
    _.x = 1; _.y = 2; _.c = 0; _.l = [5, 0]
    env = dict(_=_, a=av, b=bv, BIT=lambda v: v & 1)
    exec(compile(src, "<native>", "exec"), env)
    return {k: plain(v) for k, v in vars(_).items()}

def check_program(ob, na, dom, tag):
    ref = None
    for (av, bv) in dom:
        try:
            got = run_oblivious(ob, av, bv)
        except Exception as e:
            clean_runtime()
            fail("%s a=%d b=%d: oblivious program raised %s: %s\n%s" % (tag, av, bv, type(e).__name__, e, ob))
            return
        want = run_native(na, av, bv)
        if got != want:
            fail("%s a=%d b=%d: oblivious %s, native %s\n%s" % (tag, av, bv, got, want, ob)); return
        if not clean_runtime():
            fail("%s a=%d b=%d: guard state not restored" % (tag, av, bv)); return
        bad = unsatisfied()
        if bad:
            fail("%s a=%d b=%d: %d constraints do not hold (first %d)\n%s" % (tag, av, bv, len(bad), bad[0], ob)); return
        st = structure()
        if ref is None: ref = st
        elif st != ref:
            fail("%s a=%d b=%d: constraints depend on the secret inputs\n%s" % (tag, av, bv, ob)); return

def part_a():
    dom = [(av, bv) for av in range(4) for bv in range(4)]
    n = 0; seed = 0
    while n < NPROGRAMS:
        seed += 1
        g = Gen(random.Random(seed))
        ob, na = g.program()
        if "_if(" not in ob and "_range(" not in ob and "_while(" not in ob and "if_then_else" not in ob: continue
        try:
            run_oblivious(ob, 3, 2)
        except Exception: pass        # reported by check_program
        clean_runtime()
        if len(rec.constraints) > MAXCONSTRAINTS: continue     # keep the running time of this check reasonable
        check_program(ob, na, dom, "A/gen%d" % seed)
        n += 1
    # the way the examples find their BranchingValues: from the caller's locals, conditions as plain LinCombs
    def viaframe(c1, c2, xv):
        reset()
        __ = BranchingValues()
        __.x = PrivVal(xv); __.z = 40
        if _if(PrivVal(c1)):
            __.x = __.x*3
            if _if(PrivVal(c2)): __.z = 100
            if _else(): __.z = __.x+0
            _endif()
        if _elif(lambda: PrivVal(c2)):
            __.x = __.x+7
        _endif()
        return plain(__.x), plain(__.z)
    for c1, c2, xv in itertools.product([0, 1], [0, 1], [0, 5]):
        want = (xv*3, 100 if c2 else xv*3) if c1 else ((xv+7, 40) if c2 else (xv, 40))
        got = viaframe(c1, c2, xv)
        if got != want or unsatisfied(): fail("A/viaframe %s: got %s want %s" % ((c1, c2, xv), got, want))
        clean_runtime()
    # wrong condition values are refused
    for bad in [PrivVal(2), 2, "x"]:
        reset()
        _ = BranchingValues(); _.x = 1
        try:
            _if(bad, ctx=_); _.stack.clear(); clean_runtime()
            fail("A/non-Boolean condition %r accepted" % (bad,))
        except (ValueError, TypeError, RuntimeError): pass
    return n

# ---------------------------------------------------------------- part B: brute force over a small field
def solutions(p):
    """ all assignments of wires 1..n over F_p satisfying all recorded constraints (depth first, checking
        every constraint as soon as its last wire is assigned) """
    n = rec.nwires
    byw = [[] for _i in range(n)]
    for (v, w, y) in rec.constraints:
        byw[max([0] + list(v.d) + list(w.d) + list(y.d))].append((v, w, y))
    vals = [1] + [0]*(n-1)
    for (v, w, y) in byw[0]:
        if (v.ev(vals)*w.ev(vals) - y.ev(vals)) % p: return
    def rec_(k):
        if k == n:
            yield list(vals); return
        for x in range(p):
            vals[k] = x
            if all((v.ev(vals)*w.ev(vals) - y.ev(vals)) % p == 0 for (v, w, y) in byw[k]):
                yield from rec_(k+1)
        vals[k] = 0
    yield from rec_(1)

def wire(lc):
    (k, c), = lc.lc.d.items() if isinstance(lc, LinComb) else lc.lc.lc.d.items()
    assert c == 1
    return k

def brute(tag, p, build, native, witnesses):
    """ build(*w) runs the oblivious program on input values w and returns (input LinCombs, output values);
        native(*w) gives the outputs as a list of ints; witnesses: the honest inputs to try """
    nsol = 0; shapes = set(); seen = set()
    for w in witnesses:
        reset(p)
        try:
            ins, outs = build(*w)
        except Exception as e:
            clean_runtime(); fail("%s %s: raised %s: %s" % (tag, w, type(e).__name__, e)); return
        clean_runtime()
        outs = [o if isinstance(o, LinComb) else (o.lc if isinstance(o, LinCombBool) else LinComb.ZERO+o) for o in outs]
        if unsatisfied(): fail("%s %s: honest witness does not satisfy the constraints" % (tag, w)); return
        if [o.value % p for o in outs] != [x % p for x in native(*w)]:
            fail("%s %s: oblivious %s native %s" % (tag, w, [o.value % p for o in outs], native(*w))); return
        shapes.add(repr(structure()))
        if len(shapes) > 1: fail("%s: constraints depend on secret inputs" % tag); return
        if nsol: continue      # the constraint system is the same for all inputs: enumerate its solutions once
        iw = [wire(i) for i in ins]
        for sol in solutions(p):
            nsol += 1
            inp = tuple(sol[k] for k in iw)
            seen.add(inp)
            want = [x % p for x in native(*inp)]
            got = [o.lc.ev(sol) for o in outs]
            if got != want:
                fail("%s: wires %s satisfy all constraints with inputs %s but output %s, native %s" % (tag, sol, inp, got, want)); return
    return nsol, seen

def part_b():
    tot = 0
    P5 = 5
    bits = [0, 1]
    # ---- if / elif / else chains with 1..4 branches, with and without else; conditions as LinCombBool inputs
    for nbr in [1, 2, 3, 4]:
        for haselse in [False, True]:
            def build(x0, *cs, nbr=nbr, haselse=haselse):
                _ = BranchingValues()
                x = PrivVal(x0); c = [PrivValBool(ci) for ci in cs]
                _.x = x; _.y = 3
                if _if(c[0], ctx=_): _.x = _.x+1
                for k in range(1, nbr):
                    if _elif(lambda: c[k], ctx=_): _.x = _.x*(k+1); _.y = _.y+k
                if haselse:
                    if _else(ctx=_): _.y = _.x+_.y
                _endif(ctx=_)
                return [x]+c, [_.x, _.y]
            def native(x0, *cs, nbr=nbr, haselse=haselse):
                x, y = x0, 3
                if any(ci not in (0, 1) for ci in cs): return [None, None]   # excluded by the constraints
                for k in range(nbr):
                    if cs[k]:
                        if k == 0: x = x+1
                        else: x = x*(k+1); y = y+k
                        break
                else:
                    if haselse: y = x+y
                return [x, y]
            r = brute("B/if%d%s" % (nbr, "e" if haselse else ""), P5, build, native,
                      [(x0,)+cs for x0 in [0, 3] for cs in itertools.product(bits, repeat=nbr)])
            if r is None: continue
            if len(r[1]) != P5*2**nbr: fail("B/if%d: only %d input combinations admit a witness" % (nbr, len(r[1])))
            tot += r[0]
    # ---- the same with plain LinComb conditions: they must be forced to be bits
    def build(x0, c1, c2):
        _ = BranchingValues()
        x, a, b = PrivVal(x0), PrivVal(c1), PrivVal(c2)
        _.x = x
        if _if(a, ctx=_): _.x = _.x+1
        if _elif(lambda: b, ctx=_): _.x = _.x+2
        if _else(ctx=_): _.x = _.x+3
        _endif(ctx=_)
        return [x, a, b], [_.x]
    def native(x0, c1, c2):
        if c1 not in bits or c2 not in bits: return [None]
        return [x0+1 if c1 else (x0+2 if c2 else x0+3)]
    r = brute("B/lincombcond", P5, build, native, [(2, c1, c2) for c1 in bits for c2 in bits])
    if r is not None:
        if len(r[1]) != P5*4: fail("B/lincombcond: inputs admitting a witness: %d" % len(r[1]))
        tot += r[0]
    # ---- variable first defined in the branches
    def build(c1, c2):
        _ = BranchingValues()
        a, b = PrivValBool(c1), PrivValBool(c2)
        if _if(a, ctx=_): _.n = 1
        if _elif(lambda: b, ctx=_): _.n = 2
        if _else(ctx=_): _.n = 4
        _endif(ctx=_)
        return [a, b], [_.n]
    r = brute("B/newvar", P5, build, lambda c1, c2: [1 if c1 else (2 if c2 else 4)], list(itertools.product(bits, bits)))
    if r is not None: tot += r[0]
    # ---- nested if inside if (guards are and-ed bitwise by the runtime: keep that small)
    oldbl = pysnark.runtime.bitlength
    pysnark.runtime.bitlength = 1
    def build(x0, c1, c2):
        _ = BranchingValues()
        x, a, b = PrivVal(x0), PrivValBool(c1), PrivValBool(c2)
        _.x = x
        if _if(a, ctx=_):
            _.x = _.x+1
            if _if(b, ctx=_): _.x = _.x*2
            if _else(ctx=_): _.x = _.x*3
            _endif(ctx=_)
        if _else(ctx=_):
            _.x = _.x+2
        _endif(ctx=_)
        return [x, a, b], [_.x]
    r = brute("B/nested", P5, build, lambda x0, c1, c2: [((x0+1)*(2 if c2 else 3)) if c1 else x0+2],
              [(x0, c1, c2) for x0 in [1, 4] for c1 in bits for c2 in bits])
    pysnark.runtime.bitlength = oldbl
    if r is not None: tot += r[0]
    # ---- while with break conditions (conditions are input bits)
    def build(x0, w0, w1, b0, b1):
        _ = BranchingValues()
        x = PrivVal(x0); w = [PrivValBool(w0), PrivValBool(w1)]; b = [PrivValBool(b0), PrivValBool(b1)]
        _.x = x; _.y = 0
        k = 0
        while _while(w[min(k, 1)], ctx=_) and k < 2:
            _.x = _.x+1
            _breakif(b[k], ctx=_)
            _.y = _.y+_.x
            k += 1
        _endwhile(ctx=_)
        return [x]+w+b, [_.x, _.y]
    def native(x0, w0, w1, b0, b1):
        x, y, k = x0, 0, 0
        w, b = [w0, w1], [b0, b1]
        while w[min(k, 1)] and k < 2:
            x = x+1
            if b[k]: break
            y = y+x
            k += 1
        return [x, y]
    r = brute("B/while", P5, build, native, [(1,)+t for t in itertools.product(bits, repeat=4)])
    if r is not None:
        if len(r[1]) != P5*16: fail("B/while: inputs admitting a witness: %d" % len(r[1]))
        tot += r[0]
    # ---- for with secret bound, with/without break, with/without the check that the bound is within max
    for brk in [False, True]:
        for chk in [False, True]:
            MAX = 3
            def build(s0, x0, b0, brk=brk, chk=chk):
                _ = BranchingValues()
                s, x, b = PrivVal(s0), PrivVal(x0), PrivValBool(b0)
                _.x = x; _.n = 0
                for i in _range(s, max=MAX, ctx=_, checkstopmax=chk):
                    _.n = _.n+1
                    if brk and i == 1: _breakif(b, ctx=_)
                    _.x = _.x*2+i
                _endfor(ctx=_)
                return [s, x, b], [_.x, _.n]
            def native(s0, x0, b0, brk=brk, chk=chk):
                x, n = x0, 0
                for i in range(min(s0, MAX)):      # without the check, the loop is capped by the public maximum
                    n = n+1
                    if brk and i == 1 and b0: break
                    x = x*2+i
                return [x, n]
            P7 = 7
            r = brute("B/for%s%s" % ("b" if brk else "", "c" if chk else ""), P7, build, native,
                      [(s0, 1, b0) for s0 in range(MAX+1) for b0 in bits])
            if r is None: continue
            # with the check, a bound above the maximum admits no witness, unless the loop was left by a break
            # before the maximum was reached (then range(bound) and range(max) give the same)
            bounds = sorted(set(s for (s, x, b) in r[1] if not (brk and b)))
            if bounds != (list(range(MAX+1)) if chk else list(range(P7))):
                fail("B/for: bounds admitting a witness: %s (break=%s, check=%s)" % (bounds, brk, chk))
            tot += r[0]
    # ---- lazily evaluated selection nested in a block
    def build(x0, c1, c2):
        _ = BranchingValues()
        x, a, b = PrivVal(x0), PrivValBool(c1), PrivValBool(c2)
        _.x = x
        if _if(a, ctx=_):
            _.x = if_then_else(b, lambda: _.x*_.x, lambda: _.x+1)
        _endif(ctx=_)
        return [x, a, b], [_.x]
    pysnark.runtime.bitlength = 1
    r = brute("B/lazy", P5, build, lambda x0, c1, c2: [(x0*x0 if c2 else x0+1) if c1 else x0],
              [(x0, c1, c2) for x0 in [2, 3] for c1 in bits for c2 in bits])
    pysnark.runtime.bitlength = oldbl
    if r is not None: tot += r[0]
    return tot

if __name__ == "__main__":
    try:
        n = part_a()
        print("part A: %d generated programs x 16 secret inputs compared with native control flow" % n)
        m = part_b()
        print("part B: %d satisfying wire assignments enumerated, all with the native result" % m)
    except Exception:
        traceback.print_exc()
        failures.append("exception")
    if failures:
        print("%d FAILURES" % len(failures))
        sys.exit(1)
    print("OK")
    sys.exit(0)
