# Evidence program for property C15 (secret-index array access reads and writes
# exactly one element).  Run as  PYTHONPATH=<tree> /venv/bin/python P.check.py
#
# It checks the PROPERTY, not equality with an older implementation:
#  (1) completeness / values : for every in-range index the call does not raise,
#      the values it returns (reads) / leaves in the array (writes) are those of
#      plain Python list semantics, and every emitted constraint holds on the
#      recorded witness;
#  (2) obliviousness : the emitted constraint list (and the linear combinations
#      of the results) is literally identical for every index value, in range or
#      (with ignore_errors) out of range;
#  (3) out of range : without ignore_errors the access raises IndexError; with
#      ignore_errors it emits the same circuit and the recorded witness violates
#      at least one constraint; inside a branch that is not taken it neither
#      raises nor spoils the proof;
#  (4) soundness : the constraint system recorded ONCE is solved (unit
#      propagation over the prime field, which only ever derives forced values)
#      for every index value of a large candidate set (in range, just outside,
#      negative, huge, random field elements) with the inputs fixed and all other
#      wires unknown: it must be satisfiable exactly for the in-range indices and
#      then force the result wires to the Python-semantics values.

import os, sys, random, itertools
os.environ["PYSNARK_BACKEND"] = "snarkjs"

import pysnark.runtime as rt
rt.autoprove = False
from pysnark.runtime import PrivVal, LinComb, ignore_errors, guarded
from pysnark.boolean import LinCombBool
from pysnark.branching import if_then_else
from pysnark.array import Array, ArrayRow
import pysnark.snarkjsbackend as be

assert rt.backend is be, "snarkjs backend not active"
P = be.snarkjsp
rnd = random.Random(15)
stats = dict(scenarios=0, runs=0, solves=0, constraints=0, sat=0, unsat=0, stuck=0)

def fail(msg):
    print("FAIL:", msg)
    sys.exit(1)

# ----------------------------------------------------------------------------
# recording
# ----------------------------------------------------------------------------
def flatten(x):
    if isinstance(x, Array): return [z for y in x.arr for z in flatten(y)]
    if isinstance(x, (list, tuple)): return [z for y in x for z in flatten(y)]
    if isinstance(x, LinCombBool): return [x.lc]
    return [x]

def terms(lc):
    """ coefficient dict of a runtime LinComb or of a backend linear combination """
    return (lc.lc.lc if isinstance(lc, LinComb) else lc.lc).items()

def lckey(lc):
    return tuple(sorted((k, v % P) for (k, v) in terms(lc) if v % P))

def record(prog, inputs, ign=False):
    """ runs prog on fresh secret inputs; returns (exception, outputs, constraints, witness) """
    del be.privvals[:]; del be.pubvals[:]; del be.constraints[:]
    assert rt.guard is None and LinComb.ONE is LinComb.ONE_SAFE
    ignore_errors(ign)
    try:
        wires = [PrivVal(v) for v in inputs]
        try:
            outs = flatten(prog(*wires)); exc = None
        except IndexError as e:
            outs = None; exc = e
    finally:
        ignore_errors(False)
    if rt.guard is not None or LinComb.ONE is not LinComb.ONE_SAFE:
        fail("guard state not restored")
    cons = list(be.constraints)
    wit = {0: 1}
    for i, v in enumerate(be.pubvals): wit[i + 1] = v % P
    for i, v in enumerate(be.privvals): wit[-(i + 1)] = v % P
    stats["runs"] += 1; stats["constraints"] += len(cons)
    return exc, outs, cons, wit

def structure(outs, cons):
    return (tuple(lckey(o) if isinstance(o, LinComb) else ("int", o) for o in outs),
            tuple((lckey(a), lckey(b), lckey(c)) for (a, b, c) in cons))

def evalfull(lc, wit):
    return sum(v * wit[k] for (k, v) in terms(lc)) % P

def violated(cons, wit):
    return [i for i, (a, b, c) in enumerate(cons)
            if (evalfull(a, wit) * evalfull(b, wit) - evalfull(c, wit)) % P]

# ----------------------------------------------------------------------------
# solver: unit propagation; derives only forced values
# ----------------------------------------------------------------------------
def part(lc, asg):
    c = 0; u = {}
    for k, v in terms(lc):
        v %= P
        if not v: continue
        if k == 0: c += v
        elif k in asg: c += v * asg[k]
        else: u[k] = (u.get(k, 0) + v) % P
    return c % P, {k: v for k, v in u.items() if v}

def bits_rule(u, const, booleans):
    """ sum(u[k]*b_k) + const = 0 with all b_k known to be bits and the coefficients a common
        multiple of distinct powers of two: the solution is unique if there is one.
        Returns None (rule does not apply), False (no solution) or {wire: bit} """
    if not all(k in booleans for k in u): return None
    signed = lambda v: v if v < P // 2 else v - P
    s = min((signed(v) for v in u.values()), key=abs)
    inv = pow(s % P, -1, P)
    cof = {k: v * inv % P for k, v in u.items()}
    if not all(v < 2 ** 64 and v & (v - 1) == 0 for v in cof.values()): return None
    if len(set(cof.values())) != len(cof): return None
    t = -const * inv % P
    if t > sum(cof.values()): return False
    sol = {k: 1 if t & v else 0 for k, v in cof.items()}
    if sum(v for k, v in cof.items() if sol[k]) != t: return False
    return sol

def solve(cons, fixed):
    """ unit propagation. Returns (status, forced partial assignment):
        'unsat' - the constraints contradict the fixed wires;
        'sat'   - every constraint is satisfied by the forced values, whatever the other wires are;
        'stuck' - no contradiction derived, some constraints left undecided (happens inside branches
                  that are not taken, where bit decompositions are not forced to be unique) """
    asg = dict(fixed); asg.pop(0, None)
    pending = list(cons); booleans = set()
    while pending:
        progress = False; nxt = []
        for con in pending:
            (a, au), (b, bu), (c, cu) = (part(x, asg) for x in con)
            if au and bu:
                if not cu and c == 0 and a == 0 and b == 1 and len(au) == 1 and list(au.values()) == [1] \
                        and bu == {k: P - 1 for k in au}:
                    booleans.update(au); progress = True   # w*(1-w)=0
                else:
                    nxt.append(con)
                continue
            if au: a, au, b, bu = b, bu, a, au
            const = (a * b - c) % P; u = {}
            for k, v in bu.items(): u[k] = (u.get(k, 0) + a * v) % P
            for k, v in cu.items(): u[k] = (u.get(k, 0) - v) % P
            u = {k: v for k, v in u.items() if v}
            if not u:
                if const: return 'unsat', asg
                progress = True
            elif len(u) == 1:
                (k, v), = u.items()
                asg[k] = (-const * pow(v, -1, P)) % P
                if k in booleans and asg[k] not in (0, 1): return 'unsat', asg
                progress = True
            else:
                sol = bits_rule(u, const, booleans)
                if sol is None: nxt.append(con)
                elif sol is False: return 'unsat', asg
                else: asg.update(sol); progress = True
        pending = nxt
        if pending and not progress: return 'stuck', asg
    for k in booleans:
        if k in asg and asg[k] not in (0, 1): return 'unsat', asg
    return 'sat', asg

def forced(o, asg):
    if not isinstance(o, LinComb): return o % P
    c, u = part(o, asg)
    if u: fail("result wire not determined by the constraints")
    return c

# ----------------------------------------------------------------------------
# scenario driver
# ----------------------------------------------------------------------------
def weird_indices(n):
    s = set(range(-3, n + 4)) | {P - 1, P - 2, P - n, (P + 1) // 2, 2 ** 16, 2 ** 16 - 1, -2 ** 15, 2 ** 200 % P}
    s |= {rnd.randrange(P) for _ in range(3)}
    return sorted(x % P for x in s)

def scenario(name, prog, ref, fixed_inputs, index_ranges, guards=0):
    """
    prog(*wires) -> results;  inputs = fixed_inputs + indices (+ guards bits, last)
    ref(fixed, idx, g) -> list of ints, or None if an index used on a taken path is outside
    index_ranges: the array length each index ranges over
    """
    stats["scenarios"] += 1
    k = len(fixed_inputs); ni = len(index_ranges)
    small = [range(-2, n + 3) for n in index_ranges]
    structs = set(); base = None
    for g in itertools.product((0, 1), repeat=guards):
        for idx in itertools.product(*small):
            inp = list(fixed_inputs) + list(idx) + list(g)
            want = ref(list(fixed_inputs), list(idx), list(g))
            exc, outs, cons, wit = record(prog, inp)
            if want is None:
                if exc is None: fail(name + ": out-of-range index %s did not raise" % (idx,))
                exc, outs, cons, wit = record(prog, inp, ign=True)
                if exc is not None: fail(name + ": raised although errors are ignored")
                if not violated(cons, wit): fail(name + ": out-of-range index %s provable on recorded witness" % (idx,))
            else:
                if exc is not None: fail(name + ": valid access %s %s raised %r" % (idx, g, exc))
                got = [o.value if isinstance(o, LinComb) else o for o in outs]
                if got != want: fail(name + ": values %s != %s for index %s guards %s" % (got, want, idx, g))
                if violated(cons, wit): fail(name + ": recorded witness violates constraints, index %s guards %s" % (idx, g))
                if base is None: base = (outs, cons)
            structs.add(structure(outs, cons))
    if len(structs) != 1: fail(name + ": circuit depends on the index value (%d shapes)" % len(structs))
    if base is None: fail(name + ": no valid run")
    outs, cons = base
    cands = [weird_indices(n) for n in index_ranges]
    if ni > 1:  # keep the product small: all small ones, plus a sample of weird ones
        combos = set(itertools.product(*[[x % P for x in r] for r in small]))
        combos |= {tuple(rnd.choice(c) for c in cands) for _ in range(40)}
    else:
        combos = set(itertools.product(*cands))
    for g in itertools.product((0, 1), repeat=guards):
        for idx in sorted(combos):
            sidx = [x if x < P // 2 else x - P for x in idx]
            want = ref(list(fixed_inputs), sidx, list(g))  # signed representative; huge ones are out of range
            fixed = {-(i + 1): v % P for i, v in enumerate(list(fixed_inputs) + list(idx) + list(g))}
            status, asg = solve(cons, fixed)
            stats["solves"] += 1; stats[status] += 1
            if status == 'stuck' and (want is None or all(g)):
                fail(name + ": solver stuck, index %s guards %s" % (sidx, g))
            if want is None:
                if status != 'unsat': fail(name + ": SOUNDNESS: out-of-range index %s guards %s satisfiable" % (sidx, g))
            else:
                if status == 'unsat': fail(name + ": valid index %s guards %s unsatisfiable" % (sidx, g))
                got = [forced(o, asg) for o in outs]
                if got != [w % P for w in want]:
                    fail(name + ": SOUNDNESS: constraints force %s, expected %s (index %s)" % (got, want, sidx))

def inr(i, n): return 0 <= i < n

# ----------------------------------------------------------------------------
# scenarios
# ----------------------------------------------------------------------------
def contents(n, kind, vals, wires):
    """ kind: 'c' constants, 's' secrets, 'm' mixed """
    return [wires[j] if (kind == 's' or (kind == 'm' and j % 2)) else vals[j] for j in range(n)]

for n in range(1, 7):
    for kind in "csm":
        vals = [rnd.randrange(-50, 50) for _ in range(n)]
        # read
        scenario("read1d n=%d %s" % (n, kind),
                 lambda *w, n=n, kind=kind, vals=vals: [Array(contents(n, kind, vals, w))[w[n]]],
                 lambda f, i, g, n=n: [f[i[0]]] if inr(i[0], n) else None,
                 vals, [n])
        # write, constant and secret value
        for vk in "cs":
            def prog(*w, n=n, kind=kind, vals=vals, vk=vk):
                a = Array(contents(n, kind, vals, w))
                a[w[n + 1]] = w[n] if vk == 's' else 77
                return a
            def ref(f, i, g, n=n, vk=vk):
                if not inr(i[0], n): return None
                l = f[:n]; l[i[0]] = f[n] if vk == 's' else 77; return l
            scenario("write1d n=%d %s %s" % (n, kind, vk), prog, ref, vals + [rnd.randrange(-50, 50)], [n])

# one-element tuple index, LinCombBool contents
scenario("read1d tuple", lambda a, b, c, x: [Array([a, b, c])[(x,)]],
         lambda f, i, g: [f[i[0]]] if inr(i[0], 3) else None, [4, -5, 6], [3])
scenario("read1d bools", lambda a, b, x: [Array([LinCombBool(a), LinCombBool(b), 1])[x]],
         lambda f, i, g: [(f + [1])[i[0]]] if inr(i[0], 3) else None, [1, 0], [3])

# two-dimensional
for (r, c) in [(1, 1), (1, 3), (2, 2), (3, 2), (2, 4)]:
    for kind in "cs":
        vals = [rnd.randrange(-50, 50) for _ in range(r * c)]
        def mk(w, r=r, c=c, kind=kind, vals=vals):
            src = w if kind == 's' else vals
            return Array([Array([src[i * c + j] for j in range(c)]) for i in range(r)])
        rows = lambda f, r=r, c=c: [f[i * c:(i + 1) * c] for i in range(r)]
        nm = " %dx%d %s" % (r, c, kind)
        scenario("readrow" + nm, lambda *w, mk=mk, r=r, c=c: mk(w)[w[r * c]],
                 lambda f, i, g, r=r, rows=rows: rows(f)[i[0]] if inr(i[0], r) else None, vals, [r])
        scenario("readel" + nm, lambda *w, mk=mk, r=r, c=c: [mk(w)[w[r * c], w[r * c + 1]]],
                 lambda f, i, g, r=r, c=c, rows=rows: [rows(f)[i[0]][i[1]]] if inr(i[0], r) and inr(i[1], c) else None, vals, [r, c])
        scenario("readel[][]" + nm, lambda *w, mk=mk, r=r, c=c: [mk(w)[w[r * c]][w[r * c + 1]]],
                 lambda f, i, g, r=r, c=c, rows=rows: [rows(f)[i[0]][i[1]]] if inr(i[0], r) and inr(i[1], c) else None, vals, [r, c])
        scenario("readel pub,sec" + nm, lambda *w, mk=mk, r=r, c=c: [mk(w)[r - 1, w[r * c]]],
                 lambda f, i, g, r=r, c=c, rows=rows: [rows(f)[r - 1][i[0]]] if inr(i[0], c) else None, vals, [c])
        scenario("readel sec,pub" + nm, lambda *w, mk=mk, r=r, c=c: [mk(w)[w[r * c], c - 1]],
                 lambda f, i, g, r=r, c=c, rows=rows: [rows(f)[i[0]][c - 1]] if inr(i[0], r) else None, vals, [r])
        def wprog(*w, mk=mk, r=r, c=c):
            a = mk(w); a[w[r * c + 1], w[r * c + 2]] = w[r * c]; return a
        def wref(f, i, g, r=r, c=c, rows=rows):
            if not (inr(i[0], r) and inr(i[1], c)): return None
            m = rows(f); m[i[0]][i[1]] = f[r * c]; return [x for row in m for x in row]
        scenario("writeel" + nm, wprog, wref, vals + [rnd.randrange(99)], [r, c])
        def wrprog(*w, mk=mk, r=r, c=c):
            a = mk(w); a[w[r * c + 1]] = Array([w[r * c]] + [9] * (c - 1)); return a
        def wrref(f, i, g, r=r, c=c, rows=rows):
            if not inr(i[0], r): return None
            m = rows(f); m[i[0]] = [f[r * c]] + [9] * (c - 1); return [x for row in m for x in row]
        scenario("writerow" + nm, wrprog, wrref, vals + [rnd.randrange(99)], [r])

# returned rows are copies that cannot be written through
row = Array([Array([1, 2]), Array([3, 4])])[PrivVal(1)]
if not isinstance(row, ArrayRow): fail("row of a matrix should be an ArrayRow")
try:
    row[0] = 5; fail("write through a returned row accepted")
except TypeError: pass

# sequences of reads and writes on the same array (two secret indices)
for trial in range(12):
    n = rnd.randrange(1, 6)
    vals = [rnd.randrange(-20, 20) for _ in range(n)]
    ops = [(rnd.choice("rw"), rnd.randrange(2), rnd.randrange(100)) for _ in range(rnd.randrange(2, 6))]
    kind = rnd.choice("csm")
    def prog(*w, n=n, ops=ops, kind=kind, vals=vals):
        a = Array(contents(n, kind, vals, w)); res = []
        for (op, which, v) in ops:
            if op == 'r': res.append(a[w[n + which]])
            else: a[w[n + which]] = v + (res[-1] if res else 0)
        return res + [a]
    def ref(f, i, g, n=n, ops=ops):
        if not all(inr(i[which], n) for (_, which, _) in ops): return None
        a = f[:n]; res = []
        for (op, which, v) in ops:
            if op == 'r': res.append(a[i[which]])
            else: a[i[which]] = v + (res[-1] if res else 0)
        return res + a
    used = {which for (_, which, _) in ops}
    if used != {0, 1}: continue
    scenario("sequence %d" % trial, prog, ref, vals, [n, n])

# guards: lazy branches of if_then_else, and @guarded, with the guard bit as last input
for n in (1, 3, 4):
    for kind in "cs":
        vals = [rnd.randrange(-50, 50) for _ in range(n)]
        def prog(*w, n=n, kind=kind, vals=vals):
            a = Array(contents(n, kind, vals, w))
            c = LinCombBool(w[n + 1])
            return [if_then_else(c, lambda: a[w[n]], lambda: LinComb.ONE_SAFE * 1234)]
        def ref(f, i, g, n=n):
            if not g[0]: return [1234]
            return [f[i[0]]] if inr(i[0], n) else None
        scenario("lazy read n=%d %s" % (n, kind), prog, ref, vals, [n], guards=1)
        def prog(*w, n=n, kind=kind, vals=vals):
            a = Array(contents(n, kind, vals, w)); b = Array(a)
            c = LinCombBool(w[n + 1])
            def wr(): b[w[n]] = 55; return list(b.arr)
            return if_then_else(c, wr, lambda: list(a.arr))
        def ref(f, i, g, n=n):
            if not g[0]: return f[:n]
            if not inr(i[0], n): return None
            l = f[:n]; l[i[0]] = 55; return l
        scenario("lazy write n=%d %s" % (n, kind), prog, ref, vals, [n], guards=1)
        # nested guards, two-dimensional access in the inner one
        def prog(*w, n=n, kind=kind, vals=vals):
            m = Array([Array(contents(n, kind, vals, w)), Array([1] * n)])
            c1 = LinCombBool(w[n + 2]); c2 = LinCombBool(w[n + 3])
            inner = lambda: if_then_else(c2, lambda: m[w[n], w[n + 1]], lambda: LinComb.ONE_SAFE * 2)
            return [if_then_else(c1, inner, lambda: LinComb.ONE_SAFE * 3)]
        def ref(f, i, g, n=n):
            if not g[0]: return [3]
            if not g[1]: return [2]
            if not (inr(i[0], 2) and inr(i[1], n)): return None
            return [[f[:n], [1] * n][i[0]][i[1]]]
        scenario("nested lazy n=%d %s" % (n, kind), prog, ref, vals, [2, n], guards=2)

# empty arrays: no index is valid
for ign in (False, True):
    for v in (-1, 0, 1):
        for op in "rw":
            ignore_errors(ign)
            try:
                if op == 'r': Array([])[PrivVal(v)]
                else: Array([])[PrivVal(v)] = 1
                ignore_errors(False)
                fail("secret index into empty array accepted")
            except IndexError:
                pass
            except Exception as e:
                # an unrelated crash is not a proof either, but report an IndexError as the contract
                if "P_CHECK_STRICT" in os.environ: fail("empty array: %r" % e)
            finally:
                ignore_errors(False)

# wrong index types are still rejected
for bad in ("a", 1.5, None):
    try:
        Array([1, 2])[bad]; fail("bad index type accepted")
    except TypeError: pass

print("C15 held: %(scenarios)d scenarios, %(runs)d recorded runs, %(constraints)d constraints evaluated on their witness, "
      "%(solves)d solver runs (%(sat)d sat, %(unsat)d unsat, %(stuck)d undecided inside untaken branches)" % stats)
sys.exit(0)
