#!/usr/bin/env python
"""
Evidence program for change P (zkinterface LinearCombination drops zero-in-the-field terms).

Run as:  PYTHONPATH=<tree> /venv/bin/python P.check.py      (from any, e.g. an empty, directory)

For each of the three zkinterface field configurations (zkinterface / zkifbellman / zkifbulletproofs)
a child process traces a list of programs on several witnesses, lets the backend write
computation.zkif / circuit.zkif, and checks property C11 itself with an independent flatbuffers
reader written below:

  * both files are sequences of well-formed size-prefixed messages (all offsets in bounds, nothing left over)
  * header: instance variables 1..n with the public values, free variable id n+m+1, field maximum p-1
  * constraint message decodes to exactly backend.constraints (ids, order, canonical LE coefficients < p)
  * witness message assigns exactly variables n+1..n+m with the private values
  * the decoded assignment satisfies every decoded constraint mod p
  * circuit.zkif has no witness message and is byte-identical for runs with equal public values
  * (semantic cross check) the traced constraints are, as linear combinations over the field, the same as those
    traced by a naive reference LinearCombination that never drops anything, and direct LinearCombination
    arithmetic agrees with plain Python evaluation on random assignments

flatbuffers is not installed here, so a byte-faithful minimal Builder is installed as a stub if needed.
Exit status 0 iff everything held.
"""
import hashlib, os, random, shutil, struct, subprocess, sys, tempfile, types

CONFIGS = [
    ("zkinterface",      "pysnark.zkinterface.backend",
     21888242871839275222246405745257275088548364400416034343698204186575808495617),
    ("zkifbellman",      "pysnark.zkinterface.backendbellman",
     52435875175126190479447740508185965837690552500527637822603658699938581184513),
    ("zkifbulletproofs", "pysnark.zkinterface.backendbulletproofs",
     7237005577332262213973186563042994240857116359379907606001950938285454250989),
]

# ----------------------------------------------------------------------------------------------------------------
# flatbuffers stub (port of the relevant part of flatbuffers.Builder; buffer kept reversed so prepending is cheap)
# ----------------------------------------------------------------------------------------------------------------

class _Builder:
    def __init__(self, initialSize=1024):
        self.rev = bytearray(); self.minalign = 1; self.nested = False
        self.vt = None; self.objectEnd = None; self.vtables = {}; self.finished = False
    def Offset(self): return len(self.rev)
    def Pad(self, n): self.rev.extend(b"\0"*n)
    def Prep(self, size, additionalBytes):
        if size > self.minalign: self.minalign = size
        self.Pad((-(len(self.rev)+additionalBytes)) % size)
    def _place(self, fmt, x): self.rev.extend(reversed(struct.pack(fmt, x)))
    def _prepend(self, fmt, size, x): self.Prep(size, 0); self._place(fmt, x)
    def PrependByte(self, x): self._prepend("<B", 1, x)
    def PrependUint8(self, x): self._prepend("<B", 1, x)
    def PrependBool(self, x): self._prepend("<B", 1, 1 if x else 0)
    def PrependUint64(self, x): self._prepend("<Q", 8, x)
    def PrependInt32(self, x): self._prepend("<i", 4, x)
    def PrependVOffsetT(self, x): self._prepend("<H", 2, x)
    def PrependUOffsetTRelative(self, off):
        self.Prep(4, 0)
        assert off <= self.Offset()
        self._place("<I", self.Offset()-off+4)
    def StartVector(self, elemSize, numElems, alignment):
        assert not self.nested; self.nested = True
        self.vectorNumElems = numElems
        self.Prep(4, elemSize*numElems); self.Prep(alignment, elemSize*numElems)
        return self.Offset()
    def EndVector(self, *a):
        assert self.nested; self.nested = False
        self._place("<I", self.vectorNumElems)
        return self.Offset()
    def StartObject(self, numfields):
        assert not self.nested; self.nested = True
        self.vt = [0]*numfields; self.objectEnd = self.Offset()
    def Slot(self, n): assert self.nested; self.vt[n] = self.Offset()
    def PrependUOffsetTRelativeSlot(self, o, x, d):
        if x != d: self.PrependUOffsetTRelative(x); self.Slot(o)
    def PrependUint64Slot(self, o, x, d):
        if x != d: self.PrependUint64(x); self.Slot(o)
    def PrependUint8Slot(self, o, x, d):
        if x != d: self.PrependUint8(x); self.Slot(o)
    def PrependBoolSlot(self, o, x, d):
        if x != d: self.PrependBool(x); self.Slot(o)
    def EndObject(self):
        assert self.nested
        self.PrependInt32(0)                       # placeholder for the soffset to the vtable
        objectOffset = self.Offset()
        vt = list(self.vt)
        while vt and vt[-1] == 0: vt.pop()
        rel = tuple((objectOffset-o) if o else 0 for o in vt)
        key = (objectOffset-self.objectEnd, rel)
        if key in self.vtables:
            soff = self.vtables[key]-objectOffset
        else:
            for r in reversed(rel): self.PrependVOffsetT(r)
            self.PrependVOffsetT(objectOffset-self.objectEnd)
            self.PrependVOffsetT((len(vt)+2)*2)
            self.vtables[key] = self.Offset()
            soff = self.Offset()-objectOffset
        enc = struct.pack("<i", soff)
        for j in range(4): self.rev[objectOffset-1-j] = enc[j]
        self.vt = None; self.nested = False
        return objectOffset
    def FinishSizePrefixed(self, root, file_identifier=None):
        assert not self.nested and file_identifier is None
        self.Prep(self.minalign, 8)
        self.PrependUOffsetTRelative(root)
        self.PrependInt32(self.Offset())
        self.finished = True
    def Output(self):
        assert self.finished
        return bytes(reversed(self.rev))

def install_flatbuffers_stub():
    try:
        import flatbuffers  # the real thing, if somebody installed it
        return
    except ImportError:
        pass
    fb = types.ModuleType("flatbuffers"); fb.Builder = _Builder
    compat = types.ModuleType("flatbuffers.compat"); compat.import_numpy = lambda: None
    nt = types.ModuleType("flatbuffers.number_types")
    class UOffsetTFlags: py_type = int; bytewidth = 4
    nt.UOffsetTFlags = UOffsetTFlags
    fb.compat = compat; fb.number_types = nt
    sys.modules["flatbuffers"] = fb; sys.modules["flatbuffers.compat"] = compat
    sys.modules["flatbuffers.number_types"] = nt
    for name in ("table", "encode", "packer", "util"):
        m = types.ModuleType("flatbuffers."+name); setattr(fb, name, m); sys.modules["flatbuffers."+name] = m

# ----------------------------------------------------------------------------------------------------------------
# independent reader for the subset of zkinterface.fbs that is used
# ----------------------------------------------------------------------------------------------------------------

class Malformed(Exception): pass

def _need(buf, pos, n):
    if pos < 0 or pos+n > len(buf): raise Malformed("read of %d bytes at %d outside buffer of %d" % (n, pos, len(buf)))
def u8(b, p):  _need(b, p, 1); return b[p]
def u16(b, p): _need(b, p, 2); return struct.unpack_from("<H", b, p)[0]
def u32(b, p): _need(b, p, 4); return struct.unpack_from("<I", b, p)[0]
def i32(b, p): _need(b, p, 4); return struct.unpack_from("<i", b, p)[0]
def u64(b, p): _need(b, p, 8); return struct.unpack_from("<Q", b, p)[0]

class Table:
    def __init__(self, buf, pos):
        if pos % 4: raise Malformed("unaligned table")
        self.buf = buf; self.pos = pos
        self.vtab = pos - i32(buf, pos)
        self.vsize = u16(buf, self.vtab); self.tsize = u16(buf, self.vtab+2)
        if self.vsize < 4 or self.vsize % 2: raise Malformed("bad vtable size")
        _need(buf, self.vtab, self.vsize); _need(buf, pos, self.tsize)
    def off(self, i):
        o = u16(self.buf, self.vtab+4+2*i) if 4+2*i < self.vsize else 0
        if o and o >= self.tsize: raise Malformed("field outside table")
        return o
    def scalar(self, i, rd, default=0):
        o = self.off(i); return rd(self.buf, self.pos+o) if o else default
    def indirect(self, i):
        o = self.off(i)
        if not o: return None
        p = self.pos+o; return p+u32(self.buf, p)
    def table(self, i):
        p = self.indirect(i); return None if p is None else Table(self.buf, p)
    def vector(self, i, elsize):
        p = self.indirect(i)
        if p is None: return None
        n = u32(self.buf, p); _need(self.buf, p+4, n*elsize)
        # alignment is relative to the start of the size-prefixed buffer, i.e. 4 bytes before buf[0]
        if elsize == 8 and (p+4+4) % 8: raise Malformed("unaligned u64 vector")
        return (p+4, n)

def split_messages(data):
    msgs = []; pos = 0
    while pos < len(data):
        size = u32(data, pos)
        if size < 4 or pos+4+size > len(data): raise Malformed("bad size prefix")
        msgs.append(data[pos+4:pos+4+size]); pos += 4+size
    if pos != len(data): raise Malformed("trailing bytes")
    return msgs

def read_variables(t):
    """ Variables table -> (ids, raw value bytes) """
    if t is None: raise Malformed("missing Variables table")
    v = t.vector(0, 8); ids = [] if v is None else [u64(t.buf, v[0]+8*j) for j in range(v[1])]
    w = t.vector(1, 1); raw = b"" if w is None else bytes(t.buf[w[0]:w[0]+w[1]])
    if t.off(2): raise Malformed("unexpected info")
    return ids, raw

def split_elements(ids, raw, BL, p):
    if len(raw) != BL*len(ids): raise Malformed("values vector has %d bytes for %d ids" % (len(raw), len(ids)))
    vals = [int.from_bytes(raw[BL*j:BL*(j+1)], "little") for j in range(len(ids))]
    for v in vals:
        if not 0 <= v < p: raise Malformed("non-canonical field element")
    return vals

def decode_file(data, p):
    """ -> list of ("header", pubs{id:val}, free, fieldmax) | ("constraints", [[(id,coef)..]*3..]) | ("witness", [(id,val)..]) """
    BL = (p.bit_length()+7)//8
    out = []
    for msg in split_messages(data):
        root = Table(msg, u32(msg, 0))
        mtype = root.scalar(0, u8); body = root.table(1)
        if body is None: raise Malformed("missing message body")
        if mtype == 1:
            ids, raw = read_variables(body.table(0))
            free = body.scalar(1, u64)
            fm = body.vector(2, 1)
            if fm is None: raise Malformed("no field_maximum")
            fieldmax = int.from_bytes(msg[fm[0]:fm[0]+fm[1]], "little")
            if body.off(3): raise Malformed("unexpected configuration")
            out.append(("header", list(zip(ids, split_elements(ids, raw, BL, p))), free, fieldmax, fm[1]))
        elif mtype == 2:
            cv = body.vector(0, 4); cons = []
            for j in range(0 if cv is None else cv[1]):
                q = cv[0]+4*j; bc = Table(msg, q+u32(msg, q)); abc = []
                for k in range(3):
                    ids, raw = read_variables(bc.table(k))
                    abc.append(list(zip(ids, split_elements(ids, raw, BL, p))))
                cons.append(abc)
            out.append(("constraints", cons))
        elif mtype == 3:
            ids, raw = read_variables(body.table(0))
            out.append(("witness", list(zip(ids, split_elements(ids, raw, BL, p)))))
        else:
            raise Malformed("unexpected message type %d" % mtype)
    return out

# ----------------------------------------------------------------------------------------------------------------
# child: trace programs with one backend, check the files
# ----------------------------------------------------------------------------------------------------------------

class RefLC:
    """ naive reference linear combination: never drops anything, never reduces """
    def __init__(self, lc): self.lc = dict(lc)
    def __add__(self, other):
        lc = dict(self.lc)
        for k, v in other.lc.items(): lc[k] = lc.get(k, 0)+v
        return RefLC(lc)
    def __mul__(self, c): return RefLC({k: v*c for k, v in self.lc.items()})
    def __neg__(self): return self*-1
    def __sub__(self, other): return self+(-other)

def child(cfgname, modname, p):
    install_flatbuffers_stub()
    os.environ["PYSNARK_BACKEND"] = cfgname
    import importlib, io, contextlib
    import pysnark.runtime as rt
    rt.autoprove = False
    from pysnark.runtime import PubVal, PrivVal, ConstVal, LinComb
    from pysnark.boolean import PrivValBool, PubValBool
    from pysnark.fixedpoint import PrivValFxp, PubValFxp
    from pysnark.branching import if_then_else
    import pysnark.zkinterface.backend as core
    be = importlib.import_module(modname)
    assert rt.backend is be and rt.backend_name == cfgname, (rt.backend, cfgname)
    assert be.get_modulus() == p == core.modulus
    assert be.privvals is core.privvals and be.constraints is core.constraints and be.pubvals is core.pubvals
    TreeLC = core.LinearCombination
    BL = (p.bit_length()+7)//8
    inv = lambda a: pow(a, -1, p)
    stats = dict(runs=0, constraints=0, terms=0, identical=0, zero_terms_ref=0)

    def reset(lcclass):
        del core.privvals[:]; del core.pubvals[:]; del core.constraints[:]
        core.LinearCombination = lcclass
        rt.guard = None; rt._ignore_errors = False
        LinComb.ZERO = LinComb(0, core.zero()); LinComb.ONE = LinComb(1, core.one())

    def canon(lc, npub):
        """ field-level content of an in-memory LC: {file id: coef mod p} without zero terms """
        d = {}
        for k, v in lc.lc.items():
            if v % p: d[k if k >= 0 else npub-k] = v % p
        return d

    def trace(prog, pubs, privs, lcclass):
        reset(lcclass)
        prog(pubs, privs)
        return list(core.constraints), list(core.pubvals), list(core.privvals)

    def check_run(name, prog, pubs, privs, honest=True):
        # reference trace with the naive LC (same program, same values)
        rcons, rpub, rpriv = trace(prog, pubs, privs, RefLC)
        cons, pub, priv = trace(prog, pubs, privs, TreeLC)
        assert pub == rpub and priv == rpriv and len(cons) == len(rcons), name
        n, m = len(pub), len(priv)
        for c, rc in zip(cons, rcons):
            for k in range(3):
                assert canon(c[k], n) == canon(rc[k], n), ("traced constraint differs from reference", name, c[k].lc, rc[k].lc)
                stats["zero_terms_ref"] += sum(1 for v in rc[k].lc.values() if v % p == 0)
        with contextlib.redirect_stdout(io.StringIO()), contextlib.redirect_stderr(io.StringIO()):
            be.prove()
        full = open("computation.zkif", "rb").read(); circ = open("circuit.zkif", "rb").read()
        dfull = decode_file(full, p); dcirc = decode_file(circ, p)
        # message sequence; no witness in the circuit-only file
        assert [x[0] for x in dfull] == ["header", "witness", "constraints"], name
        assert [x[0] for x in dcirc] == ["header", "constraints"], name
        assert all(x[0] != "witness" for x in dcirc)
        for d in (dfull, dcirc):
            hdr = d[0]
            assert hdr[1] == [(i+1, pub[i] % p) for i in range(n)], (name, "instance variables")
            assert hdr[2] == n+m+1, (name, "free variable id")
            assert hdr[3] == p-1 and hdr[4] == BL, (name, "field maximum")
            dcons = d[-1][1]
            # exactly the traced constraints: same number, same order, same terms in the same order
            assert len(dcons) == len(cons)
            for dc, c in zip(dcons, cons):
                for k in range(3):
                    exp = [(key if key >= 0 else n-key, v % p) for key, v in c[k].lc.items()]
                    assert dc[k] == exp, (name, "constraint does not decode to the traced one", dc[k], exp)
                    ids = [i for i, _ in dc[k]]
                    assert len(set(ids)) == len(ids) and all(0 <= i <= n+m for i in ids), (name, "variable ids")
                    stats["terms"] += len(ids)
        assert dfull[0] == dcirc[0] and dfull[2] == dcirc[1]
        wit = dfull[1][1]
        assert wit == [(n+1+j, priv[j] % p) for j in range(m)], (name, "witness")
        # the decoded assignment satisfies the decoded constraints
        asg = {0: 1}; asg.update(dict(dfull[0][1])); asg.update(dict(wit))
        assert len(asg) == n+m+1
        ev = lambda terms: sum(c*asg[i] for i, c in terms) % p
        sat = all(ev(a)*ev(b) % p == ev(c) for a, b, c in dfull[2][1])
        if honest: assert sat, (name, "decoded assignment does not satisfy decoded constraints", pubs, privs)
        stats["runs"] += 1; stats["constraints"] += len(cons)
        return [v % p for v in pub], hashlib.sha256(circ).hexdigest(), len(circ)

    def check_group(name, prog, pubs, privlist, honest=True):
        """ all witnesses of the group are expected to give equal public values -> byte-identical circuit.zkif """
        seen = {}
        for privs in privlist:
            pv, h, _ = check_run(name, prog, pubs, privs, honest)
            key = tuple(pv)
            if key in seen:
                assert seen[key] == h, (name, "circuit.zkif differs for equal public values", pubs, privs)
                stats["identical"] += 1
            seen[key] = h
        return seen

    # ---------------------------------------------------------------- programs --------------------------------
    def p_cancel(pubs, privs):
        a, b = PubVal(pubs[0]), PubVal(pubs[1]); x, y, z = [PrivVal(v) for v in privs]
        d = x-x                                  # empty
        e = (x+y)-x                              # just y
        f = (x*3+y*5+z)-(x*3)-(y*5)              # just z
        g = x*0+y                                # just y
        h = (x+y+z)*p                            # zero in the field (out-of-range constant)
        i = x*(p+1)-x                            # zero in the field, non-zero integer coefficient
        j = (x*3)/3-x                            # coefficient 3*inverse(3)-1: zero in the field, not as an integer
        k = -x+x+a-a
        rt.add_constraint_unsafe(d+e, f+1, e*f+e)
        (e*f+g*z+k+d).assert_eq(y*z*2)
        rt.add_constraint_unsafe(h+i+j+1, x+y, x+y+h)       # holds in the field, not over the integers
        rt.add_constraint_unsafe(h, i, j)
        (x+y+z).assert_eq(a)
        ((x-x)*(y-y)).assert_zero()
        ((d+1)*(k+b)).assert_eq(b)
    rnd = random.Random(11)
    def trip(s):
        x = rnd.randrange(-50, 50); y = rnd.randrange(-50, 50); return [x, y, s-x-y]
    for s in (0, 7, -3):
        check_group("cancel", p_cancel, [s, rnd.randrange(-5, 5)], [trip(s) for _ in range(4)]+[[0, 0, s], [s, 0, 0]])

    def p_arith(pubs, privs):
        a = PubVal(pubs[0]); x, y = PrivVal(privs[0]), PrivVal(privs[1])
        t = x*y+a*x-y*3+7
        u = (t-a*x)*(x-y+a-a)
        q, r = divmod(x*x+5, 7)
        w = (x*x+y*y)//3
        (x*x).assert_eq(a*a+0*y)
        (u-u+t-t+q*7+r).assert_eq(x*x+5)
        (w*0).assert_zero()
        ((x+a)*(x-a)).assert_zero()               # x = +-a
        (y-y+x*x-a*a).assert_zero()
    for a in (0, 1, 5, 12):
        check_group("arith", p_arith, [a], [[a, 3], [-a, 3], [a, -8], [-a, 0], [a, 0]])

    def p_bits(pubs, privs):
        a = PubVal(pubs[0]); x, y = PrivVal(privs[0]), PrivVal(privs[1])
        bits = x.to_bits(8)
        LinComb.from_bits(bits).assert_eq(x)
        (x+y).assert_eq(a)
        c = (x < y); e = (x == y); ne = (x != y)
        z = (x & y) + (x | y) - (x ^ y) - (x & y)*2          # = 0 ... x+y = (x^y)+2(x&y), (x|y)=(x^y)+(x&y)
        z.assert_zero()
        (c & e).lc.assert_zero()
        sh = (x << 2) - x*4
        sh.assert_zero()
        x.assert_positive(8)
        (x >> 1).assert_le(x)
        (e | ne).lc.assert_eq(1)
    check_group("bits", p_bits, [100], [[x, 100-x] for x in (0, 1, 37, 50, 99, 100)])
    check_group("bits", p_bits, [0], [[0, 0]])
    check_group("bits", p_bits, [255], [[255, 0], [128, 127], [127, 128]])

    def p_branch(pubs, privs):
        a = PubVal(pubs[0]); x, y = PrivVal(privs[0]), PrivVal(privs[1])
        (x*x+y*y).assert_eq(a)
        c = (x < y)
        r1 = if_then_else(c, x-x+a, y-y+a)                       # both arms the same field LC
        r2 = if_then_else(c, lambda: (x*x-y*y+a)*1, lambda: (y*y-x*x+a)*1)   # lazy, guarded arms
        r3 = if_then_else(x == y, lambda: ((x-y)*(x-y)+a), a+x*0)
        r1.assert_eq(a)
        (r3-a).assert_zero()
        def body():                                # guarded code: every constraint gets a dummy wire
            t = (x-y)*(y-x)
            (t+(x-y)*(x-y)).assert_zero()
            (x-y).assert_lt(0)
            ((x-x)*(y-y)).assert_zero()
            return t-t+a
        r4 = rt.guarded(c.lc)(body)()
        if_then_else(c, r4, a).assert_eq(a)
        d = r2-a
        (d*d).assert_eq((x*x-y*y)*(x*x-y*y))
    check_group("branch", p_branch, [25], [[3, 4], [4, 3], [-3, 4], [0, 5], [5, 0], [-4, -3], [0, -5]])
    check_group("branch", p_branch, [2], [[1, 1], [-1, -1], [1, -1], [-1, 1]])
    check_group("branch", p_branch, [0], [[0, 0]])

    def p_boolfxp(pubs, privs):
        a = PubVal(pubs[0]); b1, b2 = PrivValBool(privs[0]), PrivValBool(privs[1])
        f = PrivValFxp(float(privs[2])); g = PubValFxp(float(pubs[1]))
        (b1 ^ b2).lc.assert_eq(a)
        t = (b1 & b2) | (~b1 & ~b2)              # xnor
        (t.lc+a).assert_eq(1)
        (b1 & ~b1).lc.assert_zero()
        h = f*g-f*g+f-f+g
        (h.lc-g.lc).assert_zero()
        k = (f+g)*(f-g)
        ((f*f).lc-(f*f).lc).assert_zero()
        (k.lc*0+b1.lc-b1.lc).assert_zero()
        (f*f).lc.assert_eq(PubVal((f*f).lc.value))          # the square is revealed
    check_group("boolfxp", p_boolfxp, [1, 2], [[0, 1, 3], [1, 0, 3], [1, 0, -3], [0, 1, -3]])
    check_group("boolfxp", p_boolfxp, [0, -1], [[0, 0, 2], [1, 1, 2], [1, 1, -2], [0, 0, 0]])

    def p_field(pubs, privs):
        # negative / out-of-range values and constants
        a = PubVal(pubs[0]); x, y = PrivVal(privs[0]), PrivVal(privs[1])
        big = ConstVal(p)+ConstVal(-p)*1+ConstVal(0)+ConstVal(2*p)          # all zero in the field
        c1 = x*(p-1)+x                                                       # zero in the field
        c2 = (x*(-1)+y*(p-1))+(x+y)                                          # zero in the field
        c3 = (x+y)*(p+2)                                                     # = 2(x+y)
        rt.add_constraint_unsafe(c1+c2+big+1, c3, (x+y)*2)
        rt.add_constraint_unsafe(c1, c2, big)
        rt.add_constraint_unsafe(x*inv(5)*5, LinComb.ONE, x*1)
        rt.add_constraint_unsafe(x+y, LinComb.ONE*(3*p+1), a)
    for s in (0, 9, -9, p-1, p, -p, 2*p+3):
        check_group("field", p_field, [s], [[s-k, k] for k in (0, 1, -1, 17, p, -p-2)])

    def p_ignore(pubs, privs):
        # ignore_errors: files must still be well-formed and decode to the trace; satisfaction is not expected
        a = PubVal(pubs[0]); x = PrivVal(privs[0])
        rt.ignore_errors(True)
        (x-x+a).assert_eq(x*0+5)                    # false statement, traced anyway
        (x*x-x*x).assert_nonzero()
        rt.ignore_errors(False)
    check_group("ignore", p_ignore, [4], [[1, 4], [2, 5], [3, 6]], honest=False)

    def p_empty(pubs, privs):
        pass
    check_group("empty", p_empty, [], [[]])
    def p_nowit(pubs, privs):
        a = PubVal(pubs[0]); (a-a).assert_zero(); (a*a).assert_eq(pubs[0]**2)
    check_group("nowit", p_nowit, [6], [[]])
    def p_unused(pubs, privs):
        a = PubVal(pubs[0]); x = PrivVal(privs[0]); y = PrivVal(privs[1])   # y never constrained, x cancels everywhere
        rt.add_constraint_unsafe(x-x+a, LinComb.ONE, a+y*0)
    check_group("unused", p_unused, [6], [[1, 2], [3, 4], [-5, p+6]])

    # ---------------------------------------------------------------- random straight-line programs ------------
    def mkrandom(seed):
        def prog(pubs, privs):
            r = random.Random(seed)
            vs = [PubVal(v) for v in pubs]+[PrivVal(v) for v in privs]
            s = LinComb.ZERO
            for v in privs: s = s+PrivVal(0)*0                     # placeholder wires that cancel
            tot = vs[len(pubs)]
            for v in vs[len(pubs)+1:]: tot = tot+v
            tot.assert_eq(vs[0])                                   # sum of privs is public
            pool = [vs[0], tot, tot-vs[0], LinComb.ZERO, LinComb.ONE, s]
            for _ in range(12):
                k = r.randrange(6)
                l, rr = r.choice(pool), r.choice(pool)
                c = r.choice([0, 1, -1, 2, p, -p, p+1, p-1, 3*p, r.randrange(-9, 9), r.randrange(p)])
                if k == 0: pool.append(l+rr)
                elif k == 1: pool.append(l-rr)
                elif k == 2: pool.append(l*c)
                elif k == 3: pool.append(l*rr)
                elif k == 4: pool.append(l-l+rr*c-rr*c)
                else: pool.append(-l+c)
            for _ in range(4):
                l, rr = r.choice(pool), r.choice(pool)
                rt.add_constraint(l, rr, l*rr)
        return prog
    for seed in range(25):
        r = random.Random(1000+seed)
        npriv = r.randrange(1, 4); s = r.choice([0, 1, -7, 100, p-2, p+5])
        def split(s):
            xs = [r.choice([0, 1, -1, r.randrange(-100, 100), r.randrange(p)]) for _ in range(npriv-1)]
            return xs+[s-sum(xs)]
        check_group("random%d" % seed, mkrandom(seed), [s], [split(s) for _ in range(4)])

    # ---------------------------------------------------------------- direct LC arithmetic vs plain Python -----
    reset(TreeLC)
    r = random.Random(5)
    for it in range(400):
        nv = 5
        coefs = lambda: {k: r.choice([0, 1, -1, p, -p, 2*p, p-1, 1-p, r.randrange(-5, 6), r.randrange(p)])
                         for k in r.sample(range(-2, 3), r.randrange(0, nv+1))}
        A, B = coefs(), coefs()
        c = r.choice([0, 1, -1, p, -2*p, p+1, r.randrange(-5, 6), r.randrange(p)])
        asg = {k: r.randrange(p) for k in range(-2, 3)}
        ev = lambda d: sum(v*asg[k] for k, v in d.items()) % p
        LA, LB = TreeLC(dict(A)), TreeLC(dict(B))
        assert ev((LA+LB).lc) == (ev(A)+ev(B)) % p
        assert ev((LA-LB).lc) == (ev(A)-ev(B)) % p
        assert ev((LA*c).lc) == ev(A)*c % p
        assert ev((-LA).lc) == -ev(A) % p
        assert ev(((LA+LB)*c-LB*c-LA*c).lc) == 0
        assert LA.lc == A and LB.lc == B                       # operands are not modified
        # and such LCs, put into constraints directly, are written exactly as they are in memory
    for it in range(20):
        reset(TreeLC)
        xs = [core.pubval(r.randrange(p)) for _ in range(2)]+[core.privval(r.randrange(-p, 2*p)) for _ in range(3)]
        for _ in range(5):
            mk = lambda: sum_lc([x*r.choice([0, 1, -1, p, p+1, r.randrange(p)]) for x in r.sample(xs, 3)], core)
            core.add_constraint(mk()-mk()+mk(), mk()*r.choice([0, 1, p, 5]), mk()+core.one()*r.choice([0, p, 7]))
        n = len(core.pubvals); cons = list(core.constraints)
        with contextlib.redirect_stdout(io.StringIO()), contextlib.redirect_stderr(io.StringIO()):
            be.prove()
        for fn in ("computation.zkif", "circuit.zkif"):
            d = decode_file(open(fn, "rb").read(), p)
            assert (len(d) == 3) == (fn == "computation.zkif")
            for dc, cc in zip(d[-1][1], cons):
                for k in range(3):
                    assert dc[k] == [(key if key >= 0 else n-key, v % p) for key, v in cc[k].lc.items()]
            assert len(d[-1][1]) == len(cons)
    assert stats["identical"] > 0 and stats["runs"] > 100
    print("%-17s ok: %d runs, %d constraints, %d written terms, %d equal-public pairs byte-identical, "
          "%d zero terms in the reference traces" % (cfgname, stats["runs"], stats["constraints"], stats["terms"],
                                                     stats["identical"], stats["zero_terms_ref"]))

def sum_lc(lcs, core):
    s = core.zero()
    for l in lcs: s = s+l
    return s

def main():
    if len(sys.argv) > 1 and sys.argv[1] == "--child":
        cfg = [c for c in CONFIGS if c[0] == sys.argv[2]][0]
        child(*cfg)
        return 0
    me = os.path.abspath(__file__)
    ok = True
    for cfg in CONFIGS:
        tmp = tempfile.mkdtemp(prefix="c11check")
        try:
            r = subprocess.run([sys.executable, me, "--child", cfg[0]], cwd=tmp)
            if r.returncode != 0:
                print("FAILED for", cfg[0]); ok = False
        finally:
            shutil.rmtree(tmp, ignore_errors=True)
    print("C11 property held in all cases" if ok else "C11 property VIOLATED")
    return 0 if ok else 1

if __name__ == "__main__":
    sys.exit(main())
