# P.check.py -- evidence for C02 (soundness: constraints determine every result uniquely from its
# operands; results typed boolean are forced to 0 or 1) on the changed if_then_else.
#
#   PYTHONPATH=<tree> /venv/bin/python P.check.py          (from an empty directory; writes nothing)
#
# For several thousand calls of if_then_else (all combinations of condition kinds and branch kinds,
# lists / tuples / nesting, lazy branches, live and dead guards, ignore_errors, Array writes through a
# secret index) the program records the constraints emitted on the snarkjs backend and checks
#
#   (H) the recorded (honest) witness satisfies every emitted constraint over the snarkjs field,
#   (V) the value of the result wire is the plain Python value  t if c else f,
#   (T) the result is typed LinCombBool exactly when it is documented to be, and the typing costs
#       no constraint,
#   (U) AUX mode: operand wires fixed, ALL assignments of the wires the call allocates with values in
#       [-W, W] are enumerated (backtracking): every satisfying one gives the honest result,
#   (B) FULL mode (small cases): ALL wires of the scenario, operand wires included, range over [-W, W];
#       in every satisfying assignment the result wire equals select(c, t, f) evaluated on THAT
#       assignment, and a result typed LinCombBool carries 0 or 1.  This is the direct statement of
#       "typed boolean => forced to 0 or 1" for the LinCombBool(ret, False) the change introduces.
#
# Finally the value / type part is repeated under PYSNARK_BACKEND=nobackend in a child process.
# exit 0 iff everything held.

import os, sys, itertools, subprocess

NOBACKEND = "--nobackend" in sys.argv
os.environ["PYSNARK_BACKEND"] = "nobackend" if NOBACKEND else "snarkjs"

import pysnark.runtime as rt
rt.autoprove = False          # nothing is written to disk
import pysnark.fixedpoint as fx
from pysnark.runtime import PrivVal, PubVal, LinComb, guarded, ignore_errors
from pysnark.boolean import LinCombBool, PrivValBool, PubValBool
from pysnark.fixedpoint import LinCombFxp, PrivValFxp
from pysnark.branching import if_then_else
from pysnark.array import Array

if not NOBACKEND:
    import pysnark.snarkjsbackend as be
    MOD = be.snarkjsp

rt.bitlength = 3
fx.resolution = 1
SC = 1 << fx.resolution
W = 16           # AUX mode: wires range over [-W, W]
WF = 7           # FULL mode: wires range over [-WF, WF]

problems = []
stats = {"calls": 0, "aux": 0, "full": 0, "assignments": 0}
def bad(msg):
    problems.append(msg)
    if len(problems) > 40:
        finish()

def finish():
    if problems:
        print("C02 check FAILED (%d problems):" % len(problems))
        for p in problems[:40]: print("  - " + p)
        sys.exit(1)
    print("ok%s: %d if_then_else calls; %d exhaustive aux-wire searches, %d exhaustive all-wire searches, %d satisfying assignments inspected"
          % (" (nobackend)" if NOBACKEND else "", stats["calls"], stats["aux"], stats["full"], stats["assignments"]))
    sys.exit(0)

# does this tree have the change?  (the program is also meaningful, minus (T), lists/tuples, on the old tree)
_probe = if_then_else(PrivValBool(1), PrivValBool(0), PrivValBool(1))
TYPED = isinstance(_probe, LinCombBool)

# ---------------------------------------------------------------------------------------- recorder
def mark():
    if NOBACKEND: return (rt.num_constraints, 0, 0)
    return (len(be.constraints), len(be.privvals), len(be.pubvals))

def honest_witness():
    w = {0: 1}
    for i, v in enumerate(be.pubvals):  w[i + 1] = v % MOD
    for i, v in enumerate(be.privvals): w[-(i + 1)] = v % MOD
    return w

def ev(lc, w):
    return sum(c * w[k] for (k, c) in lc.lc.items()) % MOD

def holds(con, w):
    return (ev(con[0], w) * ev(con[1], w) - ev(con[2], w)) % MOD == 0

def keys_of(con):
    return set(con[0].lc) | set(con[1].lc) | set(con[2].lc)

def signed(v):
    v %= MOD
    return v if v <= MOD // 2 else v - MOD

def wires_between(m1, m2):
    return [-(i + 1) for i in range(m1[1], m2[1])] + [i + 1 for i in range(m1[2], m2[2])]

def search(cons, fixed, free, window, hw, visit, budget):
    """ calls visit(assignment) for every assignment of `free` over `window` (plus each wire's honest
        value, e.g. a field inverse) that satisfies `cons`, the wires in `fixed` keeping their values.
        Returns (number of satisfying assignments, honest one among them), or None when the search
        space left after propagation exceeds `budget` (nothing is visited then) """
    dom = {k: list(window) + ([hw[k]] if hw[k] not in window else []) for k in free}
    ckeys = [keys_of(c) for c in cons]
    changed = True
    while changed:                       # a constraint with one undecided wire filters that wire's domain
        changed = False
        for c, ks in zip(cons, ckeys):
            und = [k for k in ks if k in dom and len(dom[k]) > 1]
            if len(und) != 1: continue
            k = und[0]
            w = dict(fixed)
            for k2 in ks:
                if k2 in dom and k2 != k: w[k2] = dom[k2][0]
            keep = []
            for v in dom[k]:
                w[k] = v
                if holds(c, w): keep.append(v)
            if len(keep) != len(dom[k]):
                dom[k] = keep; changed = True
                if not keep: return (0, False)
    size = 1
    for k in free: size *= len(dom[k])
    if size > budget: return None
    pos = {k: i for i, k in enumerate(free)}
    ready = [[] for _ in free]
    for c, ks in zip(cons, ckeys):
        fr = [pos[k] for k in ks if k in pos]
        if not fr:
            if not holds(c, fixed): return (0, False)
        else:
            ready[max(fr)].append(c)
    count = [0, False]
    nodes = [0]
    w = dict(fixed)
    class TooLarge(Exception): pass
    def rec(i):
        nodes[0] += 1
        if nodes[0] > 1500000: raise TooLarge()
        if i == len(free):
            count[0] += 1
            if all(w[k] == hw[k] for k in free): count[1] = True
            visit(w); return
        k = free[i]
        for v in dom[k]:
            w[k] = v
            if all(holds(c, w) for c in ready[i]): rec(i + 1)
        del w[k]
    try:
        rec(0)
    except TooLarge:
        return None
    return tuple(count)

WINDOW = None if NOBACKEND else [v % MOD for v in range(-W, W + 1)]
WINDOW_FULL = None if NOBACKEND else [v % MOD for v in range(-WF, WF + 1)]

# ------------------------------------------------------------------------------ values as functions
class _Expr(LinCombBool):
    """ reference-only value: a function of the assignment plus a python value; counts as a bit for is_bit() """
    def __init__(self, fn, val): self.fn = fn; self.val = val

def raw(v):
    """ v -> (function from an assignment to the field value of v's wire, python value) """
    if isinstance(v, _Expr): return v.fn, v.val
    if isinstance(v, LinCombBool): return (lambda w: ev(v.lc.lc, w)), v.lc.value
    if isinstance(v, LinCombFxp):  return (lambda w: ev(v.lc.lc, w)), v.lc.value
    if isinstance(v, LinComb):     return (lambda w: ev(v.lc, w)), v.value
    if isinstance(v, (int, bool)): return (lambda w: int(v) % MOD if not NOBACKEND else int(v)), int(v)
    raise TypeError(v)

def _AND(x, y):
    (xf, xv), (yf, yv) = raw(x), raw(y)
    return _Expr(lambda w: xf(w) * yf(w) % MOD, xv * yv)
def _NOT(x):
    xf, xv = raw(x)
    return _Expr(lambda w: (1 - xf(w)) % MOD, 1 - xv)
def _SEL(c, x, y):
    (cf, cv), (xf, xv), (yf, yv) = raw(c), raw(x), raw(y)
    return _Expr(lambda w: xf(w) if cf(w) == 1 else yf(w), xv if cv else yv)

def is_bit(v):
    return isinstance(v, LinCombBool) or (isinstance(v, int) and (v == 0 or v == 1))

def flat(x):
    if isinstance(x, (list, tuple)):
        for y in x: yield from flat(y)
    else:
        yield x

# ------------------------------------------------------------------------------------ the main check
def check(label, mk_operands, op, select, full_limit=8, live=None, expect_typed=None, aux_budget=3000000, full_budget=60000):
    """
    mk_operands() -> tuple of operand objects;  op(*operands) -> result (scalar or nested list/tuple)
    select(*operands) -> reference structure of (c, t, f) triples matching the result's leaves
    live: optional function (assignment) -> bool; FULL-mode claims are only made where it is true
    """
    m0 = mark()
    operands = mk_operands()
    m1 = mark()
    try:
        res = op(*operands)
    except Exception as e:
        bad("%s: raised %r" % (label, e)); return None
    m2 = mark()
    stats["calls"] += 1

    leaves = list(flat(res))
    refs = list(select(*operands))
    if len(leaves) != len(refs):
        bad("%s: result has %d leaves, expected %d" % (label, len(leaves), len(refs))); return res

    checks = []    # (result fn, expected fn, typed)
    for leaf, (c, t, f) in zip(leaves, refs):
        cf, cv = raw(c); tf, tv = raw(t); ff, fv = raw(f)
        fxp = isinstance(leaf, LinCombFxp)
        ts = 1 if (not fxp or isinstance(t, LinCombFxp)) else SC
        fs = 1 if (not fxp or isinstance(f, LinCombFxp)) else SC
        lf, lv = raw(leaf)
        want = tv * ts if cv else fv * fs
        if lv != want: bad("%s: (V) value %r, expected %r" % (label, lv, want))
        typed = isinstance(leaf, LinCombBool)
        if TYPED and expect_typed is not False:
            should = (not isinstance(c, (int, bool))) and t is not f and (isinstance(t, LinCombBool) or isinstance(f, LinCombBool)) and is_bit(t) and is_bit(f)
            if isinstance(c, (int, bool)) or t is f: should = isinstance((t if cv else f), LinCombBool)
            if typed != should: bad("%s: (T) result typed %s, expected LinCombBool=%s" % (label, type(leaf).__name__, should))
        checks.append((lf, (lambda w, cf=cf, tf=tf, ff=ff, ts=ts, fs=fs: (tf(w) * ts if cf(w) == 1 else ff(w) * fs) % MOD), typed, cf))
    if NOBACKEND: return res

    cons_op = be.constraints[m1[0]:m2[0]]
    cons_all = be.constraints[m0[0]:m2[0]]
    hw = honest_witness()
    for c in cons_all:
        if not holds(c, hw): bad("%s: (H) an emitted constraint does not hold on the honest witness" % label); return res

    # (U) operands fixed, the call's own wires free
    free = wires_between(m1, m2)
    fixed = {k: v for (k, v) in hw.items() if k not in free}
    state = {"bad": False}
    def visit_aux(s):
        if state["bad"]: return
        if live is not None and not live(s, operands): return
        for (lf, ef, typed, cf) in checks:
            # ef(s) is select(c, t, f) on the (fixed) operand wires; for lazy branches it also reads
            # the input wires allocated inside the branch, which are inputs rather than auxiliaries
            if lf(s) != ef(s) or (typed and lf(s) not in (0, 1)):
                state["bad"] = True
                bad("%s: (U) operands fixed but result %d instead of %d with aux wires %s" % (label, signed(lf(s)), signed(ef(s)), {k: signed(s[k]) for k in free}))
    r = search(cons_op, fixed, free, WINDOW, hw, visit_aux, aux_budget) if aux_budget else "skipped"
    if r is None:
        # only acceptable for a region whose guard is 0 on the honest witness: nothing is claimed there
        if live is None or live(hw, operands): bad("%s: (U) search space too large" % label)
    elif r != "skipped":
        stats["aux"] += 1; stats["assignments"] += r[0]
        if not r[1]: bad("%s: (U) honest assignment not found" % label)

    # (B) every wire of the scenario free
    free = wires_between(m0, m2)
    if len(free) <= full_limit:
        fixed = {k: v for (k, v) in hw.items() if k not in free}
        state = {"bad": False}
        def visit_full(s):
            if state["bad"]: return
            if live is not None and not live(s, operands): return
            for (lf, ef, typed, cf) in checks:
                r = lf(s)
                if cf(s) not in (0, 1):
                    state["bad"] = True; bad("%s: (B) condition wire not boolean in a satisfying assignment" % label); break
                if typed and r not in (0, 1):
                    state["bad"] = True; bad("%s: (B) result typed LinCombBool carries %d in satisfying assignment %s" % (label, signed(r), {k: signed(v) for k, v in s.items() if k in free})); break
                if r != ef(s):
                    state["bad"] = True; bad("%s: (B) result %d is not select(c,t,f)=%d in satisfying assignment %s" % (label, signed(r), signed(ef(s)), {k: signed(v) for k, v in s.items() if k in free})); break
        r = search(cons_all, fixed, free, WINDOW_FULL, hw, visit_full, full_budget)
        if r is None and full_budget > 60000: bad("%s: (B) search space too large" % label)
        if r is not None:
            stats["full"] += 1; stats["assignments"] += r[0]
            if not r[1]: bad("%s: (B) honest assignment not found" % label)
    return res

# ------------------------------------------------------------------------------------------ operands
COND = {
    "B0": lambda: PrivValBool(0), "B1": lambda: PrivValBool(1), "P1": lambda: PubValBool(1), "P0": lambda: PubValBool(0),
    "N0": lambda: ~PrivValBool(1), "A1": lambda: PrivValBool(1) & PrivValBool(1), "O0": lambda: PrivValBool(0) | PrivValBool(0),
    "C1": lambda: PrivVal(2) < PrivVal(3), "E0": lambda: PrivVal(2) == PrivVal(3),
    "i0": lambda: 0, "i1": lambda: 1, "T": lambda: True, "F": lambda: False,
}
VAL = {
    "B0": lambda: PrivValBool(0), "B1": lambda: PrivValBool(1), "P1": lambda: PubValBool(1),
    "N1": lambda: ~PrivValBool(0), "X1": lambda: PrivValBool(1) ^ PrivValBool(0), "C0": lambda: PrivVal(3) <= PrivVal(2),
    "b0": lambda: 0, "b1": lambda: 1, "T": lambda: True, "F": lambda: False,
    "L5": lambda: PrivVal(5), "L1": lambda: PrivVal(1), "L0": lambda: PubVal(0), "i7": lambda: 7, "i-3": lambda: -3,
    "X": lambda: PrivValFxp(1.5), "Xn": lambda: PrivValFxp(-2.0),
}

def scalar_cases():
    for (cn, cm), (tn, tm), (fn, fm) in itertools.product(COND.items(), VAL.items(), VAL.items()):
        label = "if_then_else(%s, %s, %s)" % (cn, tn, fn)
        check(label, lambda: (cm(), tm(), fm()), lambda c, t, f: if_then_else(c, t, f), lambda c, t, f: [(c, t, f)])

def cost_cases():
    # the typing itself is free: one constraint for a secret selection, none if both branches are public
    for tn, fn, want in [("B0", "B1", 1), ("B1", "b0", 1), ("T", "B0", 1), ("L5", "B1", 1), ("b1", "b0", 0), ("i7", "i-3", 0)]:
        c, t, f = PrivValBool(1), VAL[tn](), VAL[fn]()
        n0 = rt.num_constraints
        if_then_else(c, t, f)
        if rt.num_constraints - n0 != want: bad("cost of if_then_else(B1, %s, %s): %d constraints, expected %d" % (tn, fn, rt.num_constraints - n0, want))
    if TYPED:
        # ... and pays off: the selected bit can be used with the 1-constraint logic gates
        c, t, f, g = PrivValBool(1), PrivValBool(0), PrivValBool(1), PrivValBool(1)
        n0 = rt.num_constraints
        r = ~if_then_else(c, t, f) & g
        if not isinstance(r, LinCombBool) or r.lc.value != 1 or rt.num_constraints - n0 != 2:
            bad("follow-on logic on a selected bit: %r, %d constraints" % (r, rt.num_constraints - n0))

def same_object_cases():
    for tn in VAL:
        v = VAL[tn]()
        c = PrivValBool(1)
        if if_then_else(c, v, v) is not v: bad("if_then_else(c, v, v) is not v for %s" % tn)

def sequence_cases():
    if not TYPED: return
    mk = lambda: (PrivValBool(1), PrivValBool(0), PrivValBool(1), PrivVal(5), PrivValBool(1))
    # list of mixed leaves, nested tuple inside
    op = lambda c, a, b, x, d: if_then_else(c, [a, x, (1, b), True], [b, 7, (d, a), d])
    sel = lambda c, a, b, x, d: [(c, a, b), (c, x, 7), (c, 1, d), (c, b, a), (c, True, d)]
    for cv in (0, 1):
        mk2 = lambda cv=cv: (PrivValBool(cv), PrivValBool(0), PrivValBool(1), PrivVal(5), PrivValBool(1))
        res = check("sequence c=%d" % cv, mk2, op, sel, full_limit=12)
        if res is not None and not (isinstance(res, list) and isinstance(res[2], tuple) and len(res) == 4 and len(res[2]) == 2):
            bad("sequence: wrong shape %r" % (res,))
    res = check("tuple", lambda: (PrivValBool(0), PrivValBool(0), PrivValBool(1)), lambda c, a, b: if_then_else(c, (a, b), (b, a)), lambda c, a, b: [(c, a, b), (c, b, a)])
    if not isinstance(res, tuple): bad("tuple branches should give a tuple, got %r" % (res,))
    c = PrivValBool(1)
    for t, f in [([1, 2], [1]), ([1], [1, 2]), ((1, 2), (1, 2, 3)), ([1, 2], 5), ([PrivValBool(1)], PrivValBool(1)), ([], [1])]:
        n0 = rt.num_constraints
        try:
            r = if_then_else(c, t, f)
            bad("length mismatch %r / %r accepted: %r" % (t, f, r))
        except ValueError:
            if rt.num_constraints != n0: bad("length mismatch %r / %r emitted constraints before raising" % (t, f))
        except Exception as e:
            bad("length mismatch %r / %r raised %r instead of ValueError" % (t, f, e))
    if if_then_else(c, [], []) != []: bad("empty lists")
    if if_then_else(0, [1, 2], (3,)) != (3,): bad("public condition should return the branch as is")

def lazy_and_guard_cases():
    # lazy branches run under the guard c resp. ~c; bits made inside a branch are only constrained under that guard
    for cv, bv in itertools.product((0, 1), (0, 1)):
        # t = p & b with p allocated inside the (possibly dead) branch, f = ~b
        holder = {}
        def op(c, b):
            def tb():
                holder["p"] = PrivValBool(1)
                return holder["p"] & b
            return if_then_else(c, tb, lambda: ~b)
        def sel(c, b):
            return [(c, _AND(holder["p"], b), _NOT(b))]     # reference: select(c, p*b, 1-b)
        check("lazy c=%d b=%d" % (cv, bv), lambda cv=cv, bv=bv: (PrivValBool(cv), PrivValBool(bv)), op, sel, full_limit=12)

    for c1, c2 in itertools.product((0, 1), (0, 1)):
        # nested, inner condition allocated inside the outer branch
        holder = {}
        def op(c, a, b, d):
            def inner():
                holder["c2"] = PrivValBool(c2)
                return if_then_else(holder["c2"], a, b)
            return if_then_else(c, inner, d)
        def sel(c, a, b, d):
            return [(c, _SEL(holder["c2"], a, b), d)]
        check("nested c1=%d c2=%d" % (c1, c2), lambda c1=c1: (PrivValBool(c1), PrivValBool(1), PrivValBool(0), PrivValBool(1)), op, sel, full_limit=12)

    for gv, cv, bv in itertools.product((0, 1), (0, 1), (0, 1)):
        # the whole selection inside a guarded region (live and dead), one branch built from a bit that is
        # allocated (and hence only conditionally constrained) inside the region; claims only where the guard wire is 1
        holder = {}
        def op(g, c, a, b):
            def body():
                holder["p"] = PrivValBool(1)
                return if_then_else(c, a, holder["p"] & b)
            return guarded(g.lc)(body)()
        def sel(g, c, a, b):
            return [(c, a, _AND(holder["p"], b))]
        check("guarded g=%d c=%d b=%d" % (gv, cv, bv), lambda gv=gv, cv=cv, bv=bv: (PrivValBool(gv), PrivValBool(cv), PrivValBool(1), PrivValBool(bv)), op, sel,
              full_limit=12, live=(lambda s, ops: ev(ops[0].lc.lc, s) == 1), aux_budget=10**9, full_budget=10**9)
        # the same with a lazily evaluated branch: its guard is the conjunction of the region's guard and ~c
        holder2 = {}
        def op2(g, c, a, b):
            def fb():
                holder2["p"] = PrivValBool(1)
                return holder2["p"] & b
            return guarded(g.lc)(lambda: if_then_else(c, a, fb))()
        def sel2(g, c, a, b):
            return [(c, a, _AND(holder2["p"], b))]
        check("guarded+lazy g=%d c=%d b=%d" % (gv, cv, bv), lambda gv=gv, cv=cv, bv=bv: (PrivValBool(gv), PrivValBool(cv), PrivValBool(1), PrivValBool(bv)), op2, sel2,
              full_limit=0, live=(lambda s, ops: ev(ops[0].lc.lc, s) == 1), aux_budget=0)

    old = ignore_errors()
    ignore_errors(True)
    try:
        for cv in (0, 1):
            check("ignore_errors c=%d" % cv, lambda cv=cv: (PrivValBool(cv), PrivValBool(1), PrivValBool(0)), lambda c, a, b: if_then_else(c, a, b), lambda c, a, b: [(c, a, b)])
            check("ignore_errors mixed c=%d" % cv, lambda cv=cv: (PrivValBool(cv), PrivValBool(1), PrivVal(9)), lambda c, a, b: if_then_else(c, a, b), lambda c, a, b: [(c, a, b)])
    finally:
        ignore_errors(old)

def array_cases():
    # Array writes through a secret index go through if_then_else element by element
    for ix in range(3):
        holder = {}
        def op(i, a, b, c, v):
            arr = Array([a, b, c])
            arr[i] = v
            holder["arr"] = arr
            return list(arr.arr)
        def sel(i, a, b, c, v):
            old = [a, b, c]
            return [(_Expr(lambda w, k=k: 1 if ev(i.lc, w) == k else 0, 1 if i.value == k else 0), v, old[k]) for k in range(3)]
        res = check("Array[secret %d] = bit" % ix, lambda ix=ix: (PrivVal(ix), PrivValBool(1), PrivValBool(0), PrivValBool(1), PrivValBool(ix % 2)), op, sel, full_limit=0, expect_typed=False)
        if TYPED and res is not None and not all(isinstance(x, LinCombBool) for x in res):
            bad("Array of bits written through a secret index should stay an array of LinCombBool: %r" % (res,))

# ---------------------------------------------------------------------------------------------------
scalar_cases()
cost_cases()
same_object_cases()
sequence_cases()
lazy_and_guard_cases()
array_cases()

if not NOBACKEND and not problems:
    r = subprocess.run([sys.executable, os.path.abspath(__file__), "--nobackend"], capture_output=True, text=True)
    sys.stdout.write(r.stdout)
    if r.returncode != 0:
        bad("the nobackend run failed: " + r.stderr.strip()[-400:])
finish()
