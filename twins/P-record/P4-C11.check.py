#!/usr/bin/env python3
"""
Evidence program for property C11 (zkinterface files encode the traced circuit;
the verifier file has no witness), written for the change "store variable values
in reduced form" (P.patch.diff).

Run as   PYTHONPATH=<tree> /venv/bin/python P.check.py   from an empty directory.

For each of the three field configurations (zkinterface/bn128, zkifbellman/
bls12-381, zkifbulletproofs/curve25519) a worker process is started with that
PYSNARK_BACKEND.  The worker traces a collection of programs (plain arithmetic,
negative / out-of-range / huge values, division by constants, comparisons,
booleans, fixed point, if_then_else with lazy branches, nested guards, ignore_errors with violated assertions, public values allocated
after private ones, empty programs, random expression trees), lets the backend
write computation.zkif and circuit.zkif, and then checks THE PROPERTY on the
bytes of the files with a decoder that is independent of the library:

  * each file is a sequence of well-formed size-prefixed flatbuffers messages
    (all offsets inside the buffer, vtables consistent, nothing left over);
    computation.zkif = header, witness, constraints; circuit.zkif = header,
    constraints and NO witness message, and equals computation.zkif minus the
    witness message;
  * header: instance ids 1..n, values = the raw public values (recorded by a
    wrapper around pubval, before the backend sees them) reduced mod p, in
    canonical little-endian form; free_variable_id = n+m+1; field_maximum = p-1;
  * witness: ids n+1..n+m, values = the raw private values mod p, canonical;
  * constraints: as many as traced, each decoded linear combination equals the
    traced one (ids mapped, coefficients mod p), all coefficients canonical;
    each decoded linear combination evaluated on the decoded assignment equals
    the integer value the runtime tracked for that operand (mod p);
  * the decoded assignment satisfies every decoded constraint whenever the
    program is honest (and exactly the constraints the integers satisfy otherwise);
  * for hand-written small programs the decoded constraint list is compared
    with a literal expected list;
  * rerunning a program with the same public but different private values
    gives a byte-identical circuit.zkif.

flatbuffers is not installed here, so a minimal but byte-exact Builder is put
into sys.modules (the real package is used when it can be imported).

Exit status 0 iff the property held everywhere.
"""
import os, struct, subprocess, sys, tempfile, shutil, types, random

FIELDS = {
    "zkinterface":      21888242871839275222246405745257275088548364400416034343698204186575808495617,
    "zkifbellman":      52435875175126190479447740508185965837690552500527637822603658699938581184513,
    "zkifbulletproofs": 7237005577332262213973186563042994240857116359379907606001950938285454250989,
}

# --------------------------------------------------------------------------
# minimal flatbuffers.Builder (writes real flatbuffers; no vtable sharing)
# --------------------------------------------------------------------------
class _Builder:
    def __init__(self, initialSize=1024):
        self.rev = bytearray()      # the buffer, last byte first
        self.minalign = 1
        self.vt = None
        self.finished = False

    def Offset(self): return len(self.rev)

    def Prep(self, size, additional):
        if size > self.minalign: self.minalign = size
        self.rev.extend(b"\0" * ((-(len(self.rev) + additional)) % size))

    def _place(self, fmt, x): self.rev.extend(struct.pack(fmt, x)[::-1])
    def _prepend(self, fmt, size, x): self.Prep(size, 0); self._place(fmt, x)

    def PrependByte(self, x): self._prepend("<B", 1, x)
    PrependUint8 = PrependByte
    def PrependBool(self, x): self._prepend("<B", 1, 1 if x else 0)
    def PrependUint16(self, x): self._prepend("<H", 2, x)
    def PrependUint32(self, x): self._prepend("<I", 4, x)
    def PrependInt32(self, x): self._prepend("<i", 4, x)
    def PrependUint64(self, x): self._prepend("<Q", 8, x)
    def PrependInt64(self, x): self._prepend("<q", 8, x)

    def StartVector(self, elemSize, numElems, alignment):
        assert self.vt is None, "vector inside object"
        self.vecn = numElems
        self.Prep(4, elemSize * numElems)
        self.Prep(alignment, elemSize * numElems)
        return self.Offset()

    def EndVector(self, n=None):
        self._place("<I", self.vecn if n is None else n)
        return self.Offset()

    def CreateByteVector(self, x):
        self.StartVector(1, len(x), 1)
        self.rev.extend(bytes(x)[::-1])
        return self.EndVector()

    def PrependUOffsetTRelative(self, off):
        self.Prep(4, 0)
        assert 0 < off <= self.Offset()
        self._place("<I", self.Offset() - off + 4)

    def StartObject(self, numfields):
        assert self.vt is None
        self.vt = [0] * numfields
        self.objectEnd = self.Offset()

    def Slot(self, i): self.vt[i] = self.Offset()

    def PrependUOffsetTRelativeSlot(self, o, x, d):
        if x != d:
            self.PrependUOffsetTRelative(x); self.Slot(o)
    def PrependUint64Slot(self, o, x, d):
        if x != d: self.PrependUint64(x); self.Slot(o)
    def PrependUint8Slot(self, o, x, d):
        if x != d: self.PrependUint8(x); self.Slot(o)
    def PrependBoolSlot(self, o, x, d):
        if x != d: self.PrependBool(x); self.Slot(o)
    def PrependInt64Slot(self, o, x, d):
        if x != d: self.PrependInt64(x); self.Slot(o)

    def EndObject(self):
        self.PrependInt32(0)
        objectOffset = self.Offset()
        vt = list(self.vt)
        while vt and vt[-1] == 0: vt.pop()
        for f in reversed(vt):
            self.PrependUint16(objectOffset - f if f else 0)
        self.PrependUint16(objectOffset - self.objectEnd)
        self.PrependUint16((len(vt) + 2) * 2)
        self.rev[objectOffset - 4:objectOffset] = struct.pack("<i", self.Offset() - objectOffset)[::-1]
        self.vt = None
        return objectOffset

    def Finish(self, root, sizePrefix=False):
        self.Prep(self.minalign, 8 if sizePrefix else 4)
        self.PrependUOffsetTRelative(root)
        if sizePrefix: self._place("<I", self.Offset())
        self.finished = True
    def FinishSizePrefixed(self, root): self.Finish(root, True)

    def Output(self):
        assert self.finished
        return bytes(self.rev[::-1])


def install_flatbuffers():
    try:
        import flatbuffers          # noqa: F401  (the real thing, if present)
        return "real"
    except ImportError:
        pass
    fb = types.ModuleType("flatbuffers")
    fb.Builder = _Builder
    compat = types.ModuleType("flatbuffers.compat")
    compat.import_numpy = lambda: None
    nt = types.ModuleType("flatbuffers.number_types")
    class UOffsetTFlags: py_type = int
    nt.UOffsetTFlags = UOffsetTFlags
    fb.compat = compat; fb.number_types = nt
    sys.modules["flatbuffers"] = fb
    sys.modules["flatbuffers.compat"] = compat
    sys.modules["flatbuffers.number_types"] = nt
    return "stub"

# --------------------------------------------------------------------------
# independent decoder (raw flatbuffers, schema zkinterface.fbs)
# --------------------------------------------------------------------------
class Malformed(Exception): pass

class Buf:
    def __init__(self, b): self.b = b
    def need(self, pos, n):
        if pos < 0 or pos + n > len(self.b): raise Malformed("read of %d bytes at %d outside message of %d bytes" % (n, pos, len(self.b)))
    def u8(self, p):  self.need(p, 1); return self.b[p]
    def u16(self, p): self.need(p, 2); return struct.unpack_from("<H", self.b, p)[0]
    def u32(self, p): self.need(p, 4); return struct.unpack_from("<I", self.b, p)[0]
    def i32(self, p): self.need(p, 4); return struct.unpack_from("<i", self.b, p)[0]
    def u64(self, p): self.need(p, 8); return struct.unpack_from("<Q", self.b, p)[0]
    def field(self, tpos, i):
        """position of field i of the table at tpos, or None when absent"""
        vt = tpos - self.i32(tpos)
        vtsize = self.u16(vt); tsize = self.u16(vt + 2)
        if vtsize < 4 or vtsize % 2: raise Malformed("bad vtable size %d" % vtsize)
        self.need(vt, vtsize); self.need(tpos, tsize)
        if 4 + 2 * i >= vtsize: return None
        off = self.u16(vt + 4 + 2 * i)
        if off == 0: return None
        if off >= tsize: raise Malformed("field offset %d outside table of size %d" % (off, tsize))
        return tpos + off
    def indirect(self, pos): return pos + self.u32(pos)
    def vector(self, pos, elemsize):
        """(start, count) of the vector referenced from pos"""
        v = self.indirect(pos); n = self.u32(v)
        self.need(v + 4, n * elemsize)
        return v + 4, n

def split_messages(data):
    msgs = []; pos = 0
    while pos < len(data):
        if pos + 4 > len(data): raise Malformed("trailing garbage: %d bytes" % (len(data) - pos))
        size = struct.unpack_from("<I", data, pos)[0]
        if pos + 4 + size > len(data): raise Malformed("size prefix %d exceeds the file" % size)
        msgs.append(data[pos:pos + 4 + size]); pos += 4 + size
    return msgs

def decode_variables(B, tpos):
    """-> (ids, element size, list of raw element bytes)"""
    ids = []; elems = []; esize = None
    f = B.field(tpos, 0)
    if f is not None:
        start, n = B.vector(f, 8)
        ids = [B.u64(start + 8 * k) for k in range(n)]
    f = B.field(tpos, 1)
    if f is not None:
        start, n = B.vector(f, 1)
        if ids:
            if n % len(ids): raise Malformed("values length %d not a multiple of %d ids" % (n, len(ids)))
            esize = n // len(ids)
            elems = [bytes(B.b[start + k * esize:start + (k + 1) * esize]) for k in range(len(ids))]
        elif n: raise Malformed("values without ids")
    elif ids: raise Malformed("ids without values")
    return ids, esize, elems

def decode_message(msg):
    """msg includes its 4-byte size prefix. -> (kind, content)"""
    B = Buf(msg[4:])
    root = B.indirect(0)
    f = B.field(root, 0)
    mtype = B.u8(f) if f is not None else 0
    f = B.field(root, 1)
    if f is None: raise Malformed("root without message")
    t = B.indirect(f)
    if mtype == 1:
        out = {}
        f = B.field(t, 0); out["instance"] = decode_variables(B, B.indirect(f)) if f is not None else ([], None, [])
        f = B.field(t, 1); out["free"] = B.u64(f) if f is not None else 0
        f = B.field(t, 2)
        if f is None: raise Malformed("header without field_maximum")
        s, n = B.vector(f, 1); out["fieldmax"] = bytes(B.b[s:s + n])
        return "header", out
    if mtype == 2:
        cons = []
        f = B.field(t, 0)
        if f is not None:
            s, n = B.vector(f, 4)
            for k in range(n):
                c = B.indirect(s + 4 * k); abc = []
                for i in range(3):
                    g = B.field(c, i)
                    if g is None: raise Malformed("constraint %d lacks linear combination %d" % (k, i))
                    abc.append(decode_variables(B, B.indirect(g)))
                cons.append(abc)
        return "constraints", cons
    if mtype == 3:
        f = B.field(t, 0)
        return "witness", decode_variables(B, B.indirect(f)) if f is not None else ([], None, [])
    raise Malformed("unexpected message type %d" % mtype)

# --------------------------------------------------------------------------
# worker: trace programs under one configuration and check the files
# --------------------------------------------------------------------------
class Failure(Exception): pass

def worker(config):
    p = FIELDS[config]
    os.environ["PYSNARK_BACKEND"] = config
    fbkind = install_flatbuffers()
    import pysnark.runtime as rt
    rt.autoprove = False
    import pysnark.zkinterface.backend as core
    from pysnark.runtime import PrivVal, PubVal, ConstVal, LinComb
    from pysnark.boolean import PrivValBool, PubValBool
    from pysnark.fixedpoint import PrivValFxp, PubValFxp
    from pysnark.branching import if_then_else
    be = rt.backend
    if be.get_modulus() != p: raise Failure("%s: backend reports modulus %d" % (config, be.get_modulus()))
    BLEN = (p.bit_length() + 7) // 8

    # raw values / operands, recorded before the backend sees them
    rec = {"pub": [], "priv": [], "cons": [], "order": []}
    orig_pub, orig_priv = be.pubval, be.privval
    def pubval(v): rec["pub"].append(v); rec["order"].append("pub"); return orig_pub(v)
    def privval(v): rec["priv"].append(v); rec["order"].append("priv"); return orig_priv(v)
    be.pubval, be.privval = pubval, privval
    orig_acu = rt.add_constraint_unsafe
    def acu(v, w, y):
        rec["cons"].append((v.value, w.value, y.value, v.lc, w.lc, y.lc)); return orig_acu(v, w, y)
    rt.add_constraint_unsafe = acu

    def reset():
        del core.pubvals[:]; del core.privvals[:]; del core.constraints[:]
        for k in rec: del rec[k][:]
        rt.guard = None; rt.ignore_errors(False); LinComb.ONE = LinComb.ONE_SAFE
        for fn in ("computation.zkif", "circuit.zkif"):
            if os.path.exists(fn): os.remove(fn)

    devnull = open(os.devnull, "w")
    def prove():
        so, se = sys.stdout, sys.stderr
        sys.stdout = sys.stderr = devnull
        try: be.prove()
        finally: sys.stdout, sys.stderr = so, se
        return open("computation.zkif", "rb").read(), open("circuit.zkif", "rb").read()

    def elem(name, raw, what):
        if len(raw) != BLEN: raise Failure("%s: %s has %d bytes, expected %d" % (name, what, len(raw), BLEN))
        v = int.from_bytes(raw, "little")
        if v >= p: raise Failure("%s: %s = %d is not a canonical field element (p = %d)" % (name, what, v, p))
        return v

    def lcmap(name, dec, what):
        ids, esize, elems = dec
        if len(set(ids)) != len(ids): raise Failure("%s: %s repeats a variable id" % (name, what))
        return {i: elem(name, e, "%s coefficient of variable %d" % (what, i)) for i, e in zip(ids, elems)}

    def check(name, honest=True, expect=None):
        comp, circ = prove()
        n, m = len(rec["pub"]), len(rec["priv"])
        try:
            cm = split_messages(comp); vm = split_messages(circ)
            cd = [decode_message(x) for x in cm]; vd = [decode_message(x) for x in vm]
        except (Malformed, struct.error) as e:
            raise Failure("%s: malformed file: %s" % (name, e))
        if [k for k, _ in cd] != ["header", "witness", "constraints"]:
            raise Failure("%s: computation.zkif holds %s" % (name, [k for k, _ in cd]))
        if [k for k, _ in vd] != ["header", "constraints"]:
            raise Failure("%s: circuit.zkif holds %s (must be header, constraints, no witness)" % (name, [k for k, _ in vd]))
        if vm != [cm[0], cm[2]]:
            raise Failure("%s: circuit.zkif is not computation.zkif minus the witness message" % name)
        hdr, wit, cons = cd[0][1], cd[1][1], cd[2][1]
        # header
        ids, _, elems = hdr["instance"]
        if ids != list(range(1, n + 1)): raise Failure("%s: instance ids %s, expected 1..%d" % (name, ids, n))
        pubs = [elem(name, e, "value of instance variable %d" % i) for i, e in zip(ids, elems)]
        if pubs != [v % p for v in rec["pub"]]: raise Failure("%s: instance values %s differ from the public inputs %s mod p" % (name, pubs, rec["pub"]))
        if hdr["free"] != n + m + 1: raise Failure("%s: free_variable_id %d, expected %d" % (name, hdr["free"], n + m + 1))
        if hdr["fieldmax"] != (p - 1).to_bytes(BLEN, "little"): raise Failure("%s: field_maximum is not p-1" % name)
        # witness
        ids, _, elems = wit
        if ids != list(range(n + 1, n + m + 1)): raise Failure("%s: witness ids %s, expected %d..%d" % (name, ids, n + 1, n + m))
        privs = [elem(name, e, "value of witness variable %d" % i) for i, e in zip(ids, elems)]
        if privs != [v % p for v in rec["priv"]]: raise Failure("%s: witness values differ from the private values mod p" % name)
        assign = [1] + pubs + privs
        # constraints
        if len(cons) != len(rec["cons"]): raise Failure("%s: %d constraints in file, %d traced" % (name, len(cons), len(rec["cons"])))
        if len(core.constraints) != len(rec["cons"]): raise Failure("%s: backend holds %d constraints, %d traced" % (name, len(core.constraints), len(rec["cons"])))
        decoded = []
        for k, (abc, tr) in enumerate(zip(cons, rec["cons"])):
            maps = []
            for side in range(3):
                what = "constraint %d %s" % (k, "ABC"[side])
                mp = lcmap(name, abc[side], what)
                for i in mp:
                    if i > n + m: raise Failure("%s: %s uses unallocated variable %d" % (name, what, i))
                traced = {}
                for key, c in tr[3 + side].lc.items():
                    i = key if key >= 0 else n - key
                    traced[i] = c % p
                if mp != traced: raise Failure("%s: %s decodes to %s, traced %s" % (name, what, mp, traced))
                ev = sum(c * assign[i] for i, c in mp.items()) % p
                if ev != tr[side] % p:
                    raise Failure("%s: %s evaluates to %d on the decoded assignment, the runtime tracked %d" % (name, what, ev, tr[side] % p))
                maps.append({i: c for i, c in mp.items() if c})
            a, b, c = [sum(cf * assign[i] for i, cf in mp.items()) % p for mp in maps]
            sat = (a * b - c) % p == 0
            isat = (tr[0] * tr[1] - tr[2]) % p == 0
            if sat != isat: raise Failure("%s: constraint %d satisfied=%s in the file but %s on the tracked values" % (name, k, sat, isat))
            if honest and not sat: raise Failure("%s: decoded assignment violates decoded constraint %d" % (name, k))
            decoded.append(maps)
        if expect is not None and decoded != expect:
            raise Failure("%s: decoded constraints %s, expected %s" % (name, decoded, expect))
        return circ

    counts = {"programs": 0, "constraints": 0, "identical": 0}
    def run(name, prog, pub=(), priv=(), honest=True, expect=None, ignore=False):
        reset()
        if ignore: rt.ignore_errors(True)
        prog(*pub, *priv)
        circ = check(name, honest=honest, expect=expect)
        counts["programs"] += 1; counts["constraints"] += len(rec["cons"])
        return circ

    mode = {"reveal": True}
    def out(v):
        """reveal v as a public output, or (for same_circuit) pin it to a fresh private variable"""
        if mode["reveal"]: return v.val()
        while not isinstance(v, LinComb): v = v.lc
        (v - PrivVal(v.value)).assert_zero()

    def same_circuit(name, prog, pub, privs, **kw):
        """equal public values, different private values -> identical circuit.zkif"""
        ref = refpub = None
        mode["reveal"] = False
        try:
            for pv in privs:
                c = run("%s priv=%s" % (name, pv), prog, pub, pv, **kw)
                pubs = [v % p for v in rec["pub"]]
                if ref is None: ref, refpub = c, pubs
                elif pubs != refpub: raise RuntimeError("harness: public values differ in " + name)
                elif c != ref: raise Failure("%s: circuit.zkif differs between private inputs %s and %s" % (name, privs[0], pv))
                counts["identical"] += 1
        finally:
            mode["reveal"] = True

    M1 = p - 1
    # ---- hand-checked small programs ------------------------------------
    def cube(x): x = PubVal(x); (x * x * x).val()
    # vars: 1=x, 2=x*x (priv), 3=x^3 (priv), then .val(): PubVal -> id 2 public! ids: pub 1,2 ; priv 3,4
    run("cube", cube, (3,), expect=[
        [{1: 1}, {1: 1}, {3: 1}],
        [{3: 1}, {1: 1}, {4: 1}],
        [{}, {}, {4: 1, 2: M1}]])
    run("cube(-2)", cube, (-2,))
    run("cube(p+1)", cube, (p + 1,))

    def lin(a, b):
        a = PubVal(a); b = PrivVal(b)
        (3 * a - b / 2 + 7).assert_zero()
    inv2 = pow(2, -1, p)
    run("lin", lin, (1,), (20,), expect=[[{}, {}, {1: 3, 2: (-inv2) % p, 0: 7}]])

    def empty(): pass
    run("empty", empty)
    def onlypub(a, b): PubVal(a); PubVal(b)
    run("onlypub", onlypub, (5, -5))
    def onlypriv(a, b): PrivVal(a); PrivVal(b)
    run("onlypriv", onlypriv, (), (5, -5))

    # ---- value corner cases ---------------------------------------------
    corner = [0, 1, -1, 2, -2, 255, 256, -256, p - 1, p, p + 1, -p, -p - 1, 2 * p + 3, -(2 * p) - 3,
              (p - 1) // 2, (p + 1) // 2, 2 ** 255, 2 ** 256 - 1, 2 ** 256, 2 ** 300 + 17, -(2 ** 300), 3 ** 400]
    def mulsub(a, b, c):
        a = PubVal(a); b = PrivVal(b); c = PrivVal(c)
        t = a * b - c
        out(t * t + a)
        r = PubVal(7); s = PrivVal(-7)        # public allocated after private
        (r + s).assert_zero()
    rnd = random.Random(11)
    for a in corner:
        for b in (corner[rnd.randrange(len(corner))], rnd.randrange(-2 ** 260, 2 ** 260)):
            run("mulsub(%d,%d)" % (a, b), mulsub, (a,), (b, a - b))
    same_circuit("mulsub", mulsub, (12345,), [(1, 2), (-1, p), (2 ** 300, -5), (0, 0), (p - 1, -p)])

    # ---- division by constants, sums, negations (coefficients) ------------
    def coeffs(x, y, z):
        x = PrivVal(x); y = PrivVal(y); z = PubVal(z)
        s = sum([x, y, z])                      # constant term 0
        d = (x + y) - x                         # x with coefficient 0
        e = z - d
        f = -(s - e) * 3 - 5
        g = (x * 6) / 3 / 2 + x * M1 + x * p + x * (-p) + x * (2 ** 300)
        for k in range(8): g = g - 1 - x        # repeated subtraction
        out(f * g)
        out(0 - s); (-(x - x)).assert_zero(); out(z - sum([x, y]) + (x + y))
        h = x * 0 + y * 0; out(h * h); (-h).assert_zero()
    for (x, y, z) in [(6, 12, 3), (0, 0, 0), (-6, 6, -1), (6 * 7 ** 50, p, p - 1), (-2 ** 270 * 6, 2 ** 300, 2 ** 256)]:
        run("coeffs(%d,%d,%d)" % (x, y, z), lambda z_, x_, y_: coeffs(x_, y_, z_), (z,), (x, y))
    same_circuit("coeffs", lambda z_, x_, y_: coeffs(x_, y_, z_), (9,), [(6, 1), (-12, 2 ** 280), (0, 0)])

    # ---- comparisons, bits, booleans, fixed point --------------------------
    def cmp(a, b, c):
        a = PrivVal(a); b = PrivVal(b); c = PubVal(c)
        lt = a < b; ge = a >= c; eq = a == b; ne = a != c
        out(lt & ge | eq ^ ne)
        out(a & b); out(a ^ c); out(a >> 2); out(a % 7); out(a // 3)
        out(abs(a - b))
    for (a, b, c) in [(5, 9, 3), (9, 5, 9), (0, 0, 0), (100, 100, 7), (32767, 1, 32767)]:
        run("cmp", lambda c_, a_, b_: cmp(a_, b_, c_), (c,), (a, b))
    same_circuit("cmp", lambda c_, a_, b_: cmp(a_, b_, c_), (4,), [(5, 9), (9, 5), (4, 4), (0, 300)])

    def fxp(a, b):
        div = a >= 0 and b > 0        # the library's fixed-point division wants non-negative operands
        a = PrivValFxp(a); b = PubValFxp(b)
        out(a * b + a - b); out(a < b)
        if div: out(a / b)
    for (a, b) in [(1.5, 2.25), (-3.75, 0.5), (0.0, 7.0), (100.125, -2.5)]:
        run("fxp", lambda b_, a_: fxp(a_, b_), (b,), (a,))

    def boolean(a, b):
        a = PrivValBool(a); b = PubValBool(b)
        out(a & b); out(a | b); out(a ^ b); out(~a); out(a + b)
    for a in (0, 1):
        for b in (0, 1): run("boolean", lambda b_, a_: boolean(a_, b_), (b,), (a,))

    # ---- branching: lazy if_then_else, contexts, nested guards -------------
    def branch(c, x, y):
        c = PrivValBool(c); x = PrivVal(x); y = PubVal(y)
        def tb(): return (x * y + 1) / 1
        def fb(): r = x - y; out(r * r); return r * x * 5
        r = if_then_else(c, tb, fb)
        r2 = if_then_else(x < y, lambda: if_then_else(c, lambda: x * x, lambda: y * y), lambda: (x + 3) * y)
        out(r + r2)
    for c in (0, 1):
        for (x, y) in [(3, 4), (4, 3), (0, 0), (-5 % 2 ** 14, 5)]:
            run("branch", lambda y_, c_, x_: branch(c_, x_, y_), (y,), (c, x))
    same_circuit("branch", lambda y_, c_, x_: branch(c_, x_, y_), (10,), [(0, 1), (1, 1), (0, 20), (1, 12)])

    def ctx(a, b):
        a = PrivVal(a); b = PubVal(b)
        c1 = a < b; c2 = a == 3
        def inner():
            x = a * 2 * a + 1
            def inner2():
                y = x / 1 - b
                (y - y).assert_zero(); (a - 3).assert_zero()     # false when the guard is off
                return y
            return if_then_else(c2, inner2, lambda: x * x)
        r = if_then_else(c1, inner, lambda: (a - b) * (a - b))
        out(r)
    for (a, b) in [(3, 5), (2, 5), (5, 5), (9, 5), (0, 0)]:
        run("ctx", lambda b_, a_: ctx(a_, b_), (b,), (a,))
    same_circuit("ctx", lambda b_, a_: ctx(a_, b_), (5,), [(3,), (2,), (5,), (9,)])

    def guarded_div(c, a, b):
        c = PrivValBool(c); a = PrivVal(a); b = PrivVal(b)
        # the untaken branch divides by zero / unevenly: guard makes it satisfiable
        r = if_then_else(c, lambda: a / b, lambda: a * b)
        q = if_then_else(c, lambda: a / 3, lambda: a + 3)
        out(r + q)
    for (c, a, b) in [(1, 12, 4), (0, 12, 5), (0, 7, 5), (1, -9, 3), (0, 10, 3)]:
        run("guarded_div", guarded_div, (), (c, a, b))

    # ---- ignore_errors: violated assertions; file must mirror the trace ----
    def dishonest(a, b):
        a = PrivVal(a); b = PubVal(b)
        (a * a).assert_eq(b)
        out(a / 3); out(a / b)
        (a - b).assert_zero(); a.assert_nonzero(); (a - a).assert_nonzero()
        out(a < b)
    for (a, b) in [(3, 9), (3, 10), (4, 5), (0, 1), (-4, 16)]:
        run("dishonest", lambda b_, a_: dishonest(a_, b_), (b,), (a,), honest=False, ignore=True)

    # ---- random expression trees ------------------------------------------
    def randprog(seed):
        r = random.Random(seed)
        def prog():
            pool = []
            for _ in range(r.randrange(1, 5)):
                v = r.choice(corner) if r.random() < 0.4 else r.randrange(-1000, 1000)
                pool.append(PubVal(v) if r.random() < 0.4 else PrivVal(v))
            for _ in range(r.randrange(3, 14)):
                a, b = r.choice(pool), r.choice(pool)
                k = r.choice([0, 1, -1, 2, 3, -7, p - 1, p, p + 2, 2 ** 200, r.randrange(-50, 50)])
                op = r.randrange(9)
                if op == 0: pool.append(a + b)
                elif op == 1: pool.append(a - b)
                elif op == 2: pool.append(a * b)
                elif op == 3: pool.append(a * k)
                elif op == 4: pool.append(-a + k)
                elif op == 5 and k % p: pool.append((a * k) / k)
                elif op == 6: pool.append(k - a)
                elif op == 7: pool.append(sum([a, b, a]))
                elif op == 8:
                    pool.append(PubVal(r.randrange(-9, 9)) if r.random() < 0.5 else PrivVal(r.randrange(-9, 9)))
                if r.random() < 0.3: (pool[-1] - ConstVal(pool[-1].value)).assert_zero()
                if r.random() < 0.2: out(pool[-1])
            out(pool[-1] * pool[0])
        return prog
    for seed in range(120):
        run("random#%d" % seed, randprog(seed))

    # ---- representation introduced by the change (informational + safety) --
    reset()
    PrivVal(-1); PubVal(p + 5)
    reduced = core.privvals == [p - 1] and core.pubvals == [5]
    other = [q for q in FIELDS.values() if q != p][0]
    refused = False
    try: core.set_modulus(other)
    except RuntimeError: refused = True
    if core.get_modulus() != p:
        if reduced:      # reduced storage + field switched under it: values would be stale
            raise Failure("%s: set_modulus changed the field although reduced values are stored" % config)
        core.set_modulus(p)
    check("after set_modulus attempt")
    reset()
    print("%-17s ok: %d programs, %d constraints, %d circuit-file comparisons, flatbuffers=%s, values stored reduced=%s, late set_modulus refused=%s"
          % (config, counts["programs"], counts["constraints"], counts["identical"], fbkind, reduced, refused))


def main():
    if len(sys.argv) == 3 and sys.argv[1] == "--worker":
        try:
            worker(sys.argv[2])
        except Failure as e:
            print("PROPERTY C11 VIOLATED [%s]: %s" % (sys.argv[2], e))
            sys.exit(1)
        sys.exit(0)
    bad = 0
    for config in FIELDS:
        d = tempfile.mkdtemp(prefix="r8-C11-")
        try:
            r = subprocess.run([sys.executable, os.path.abspath(__file__), "--worker", config], cwd=d)
            if r.returncode != 0:
                print("worker for %s exited with %d" % (config, r.returncode)); bad += 1
        finally:
            shutil.rmtree(d, ignore_errors=True)
    if bad:
        print("FAILED in %d configuration(s)" % bad); sys.exit(1)
    print("property C11 held in all cases")

if __name__ == "__main__":
    main()
