# Evidence program for P (booleanity of library-computed bits is recorded unguarded).
#
#   PYTHONPATH=<tree> /venv/bin/python P.check.py          (from an empty directory)
#
# It records the constraint system and the witness with the snarkjs backend and checks
# property C07 itself on many guarded bodies that decompose values into bits (to_bits,
# check_positive and every operator built on them), with valid and invalid operands,
# both guard values at up to three nesting levels, lazy if_then_else branches and
# ignore_errors():
#
#   F1  a body under a false guard does not raise because of the values it meets
#   F2  every recorded constraint holds for the recorded witness (mod p)
#   F3  the value selected from the other branch is the expected one and its wires are
#       determined from the inputs by forward propagation through the constraints
#   T1  under true guards a body gives the same values / the same exception (type and
#       text) as the unguarded body, in normal mode and with ignore_errors(True)
#   T2  ... and the same enforcement: the recorded system is satisfied under true guards
#       exactly when the unguarded one is (violations recorded with ignore_errors(True))
#   T3  ... and a forged non-boolean bit (recomposition kept intact) cannot be repaired
#       by re-assigning the wires created inside the guard
#   N   the advertised constraint counts of the changed functions
#
# Exit status 0 iff everything held.

import os, sys, itertools
os.environ["PYSNARK_BACKEND"] = "snarkjs"

import pysnark.runtime as rt
import pysnark.snarkjsbackend as be
from pysnark.runtime import PrivVal, PubVal, LinComb, guarded, ignore_errors
from pysnark.boolean import LinCombBool, PrivValBool
from pysnark.branching import if_then_else

rt.autoprove = False
P = be.snarkjsp
BL = rt.bitlength

failures = []
nchecks = 0

def fail(msg):
    failures.append(msg)
    if len(failures) <= 40:
        print("FAIL:", msg)

def check(cond, msg):
    global nchecks
    nchecks += 1
    if not cond: fail(msg)

# ---------------------------------------------------------------- recording

def reset():
    del be.constraints[:]
    del be.privvals[:]
    del be.pubvals[:]
    rt.guard = None
    rt._ignore_errors = False
    LinComb.ONE = LinComb.ONE_SAFE
    rt.num_constraints = 0

def wval(k, priv=None, pub=None):
    priv = be.privvals if priv is None else priv
    pub = be.pubvals if pub is None else pub
    if k == 0: return 1
    return pub[k-1] if k > 0 else priv[-k-1]

def ev(lc, priv=None, pub=None):
    return sum(c*wval(k, priv, pub) for (k, c) in lc.lc.items()) % P

def violated(priv=None, pub=None):
    return [i for (i, (a, b, c)) in enumerate(be.constraints)
            if (ev(a, priv, pub)*ev(b, priv, pub) - ev(c, priv, pub)) % P != 0]

def wires(x):
    """ wires of a LinComb / LinCombBool / nested structure """
    if isinstance(x, LinCombBool): x = x.lc
    if isinstance(x, LinComb): return {k for (k, c) in x.lc.lc.items() if c % P != 0}
    if isinstance(x, (list, tuple)): return set().union(set(), *[wires(xi) for xi in x])
    return set()

def values(x):
    if isinstance(x, LinCombBool): return ("b", x.lc.value % P)
    if isinstance(x, LinComb): return ("i", x.value % P)
    if isinstance(x, (list, tuple)): return tuple(values(xi) for xi in x)
    if hasattr(x, "lc") and hasattr(x.lc, "value"): return ("f", x.lc.value % P)   # fixed point
    return ("o", x)

def consistent(x):
    """ the value a LinComb carries is the value of its linear combination on the witness """
    if isinstance(x, LinCombBool): x = x.lc
    if isinstance(x, LinComb): return ev(x.lc) == x.value % P
    if isinstance(x, (list, tuple)): return all(consistent(xi) for xi in x)
    return True

def determined(known):
    """ forward propagation: wires fixed by the constraints once the wires in known are """
    known = set(known) | {0} | set(range(1, len(be.pubvals)+1))
    def und(lc): return [k for (k, c) in lc.lc.items() if c % P != 0 and k not in known]
    changed = True
    while changed:
        changed = False
        for (a, b, c) in be.constraints:
            ua, ub, uc = und(a), und(b), und(c)
            if len(uc) == 1 and ((not ua and not ub) or (not ua and ev(a) == 0) or (not ub and ev(b) == 0)):
                known.add(uc[0]); changed = True
            elif not uc and not ua and ev(a) != 0 and len(ub) == 1:
                known.add(ub[0]); changed = True
            elif not uc and not ub and ev(b) != 0 and len(ua) == 1:
                known.add(ua[0]); changed = True
    return known

def is_determined(res, inputs):
    """ is the value of the linear combination res fixed by the constraints, given the inputs?
        (sufficient test: propagation, then the linear equations that constraints with one known
        factor impose on the remaining wires; res must lie in their row space) """
    if isinstance(res, LinCombBool): res = res.lc
    known = determined(inputs)
    target = {k: c % P for (k, c) in res.lc.lc.items() if c % P and k not in known}
    if not target: return True
    rows = []
    for (a, b, c) in be.constraints:
        for (f, g) in ((a, b), (b, a)):
            if all(k in known for k in f.lc if f.lc[k] % P):
                fv = ev(f)
                row = {}
                for (k, co) in g.lc.items():
                    if k not in known: row[k] = (row.get(k, 0) + fv*co) % P
                for (k, co) in c.lc.items():
                    if k not in known: row[k] = (row.get(k, 0) - co) % P
                row = {k: v for (k, v) in row.items() if v}
                if row: rows.append(row)
                break
    pivots = {}
    def reduce(row):
        row = dict(row)
        while row:
            k = min(row)
            if k not in pivots: return row
            f = row[k]
            for (k2, v2) in pivots[k].items():
                nv = (row.get(k2, 0) - f*v2) % P
                if nv: row[k2] = nv
                else: row.pop(k2, None)
        return row
    for row in rows:
        row = reduce(row)
        if row:
            k = min(row); inv = pow(row[k], -1, P)
            pivots[k] = {k2: v2*inv % P for (k2, v2) in row.items()}
    return not reduce(target)

# ---------------------------------------------------------------- bodies
# every body takes two secret inputs; all of them reach to_bits / check_positive

def b_tobits(x, y):    return x.to_bits()
def b_tobits4(x, y):   return x.to_bits(4)
def b_tobits20(x, y):  return (x+y).to_bits(20)
def b_chkpos(x, y):    return x.check_positive()
def b_chkpos5(x, y):   return (x-y).check_positive(5)
def b_asspos(x, y):    x.assert_positive(); return x
def b_asspos3(x, y):   y.assert_positive(3); return y
def b_lt(x, y):        return x < y
def b_le(x, y):        return x <= y
def b_gt(x, y):        return x > 3
def b_ge(x, y):        return x >= y
def b_asslt(x, y):     x.assert_lt(y); return x
def b_assle(x, y):     x.assert_le(7); return x
def b_assgt(x, y):     x.assert_gt(y); return y
def b_assge(x, y):     x.assert_ge(y, err="too small"); return y
def b_range(x, y):     x.assert_range(2, 9); return x
def b_and(x, y):       return x & y
def b_or(x, y):        return x | y
def b_xor(x, y):       return x ^ y
def b_inv(x, y):       return ~x
def b_shr(x, y):       return x >> 2
def b_abs(x, y):       return abs(x - y)
def b_divmod(x, y):    return list(divmod(x, y + (1 << 20)))     # divisor never 0
def b_mod(x, y):       return x % 5
def b_fdiv(x, y):      return x // 3
def b_pow(x, y):       return x ** y
def b_shl(x, y):       return x << y
def b_mix(x, y):
    bits = x.to_bits(6)
    s = LinComb.from_bits(bits[1:4])
    return [s, (s*y) < x, if_then_else(bits[0], lambda: (y >> 1), lambda: y.check_positive().lc)]
def b_nested(x, y):
    return if_then_else(x < y, lambda: (x & 5), lambda: if_then_else(y <= 3, lambda: y.to_bits(2)[1].lc, x))

BODIES = [b_tobits, b_tobits4, b_tobits20, b_chkpos, b_chkpos5, b_asspos, b_asspos3, b_lt, b_le, b_gt, b_ge,
          b_asslt, b_assle, b_assgt, b_assge, b_range, b_and, b_or, b_xor, b_inv, b_shr, b_abs, b_divmod,
          b_mod, b_fdiv, b_pow, b_shl, b_mix, b_nested]
SLOW = {b_pow, b_shl}

VALS = [0, 1, 2, 5, 8, 9, 15, 16, (1 << BL) - 1, 1 << BL, (1 << 40) + 3, -1, -5, -(1 << BL), -(1 << BL) - 1, -(1 << 33)]
PAIRS = [(x, y) for x in VALS for y in (0, 3, 1 << BL, -4)] + [(3, 3), (7, 7), (-5, -5), (12, 200), (200, 12)]
PAIRS_SLOW = [(0, 0), (2, 5), (3, 0), (7, 1), (-2, 3), (5, -1), (2, 1 << BL), (1 << 20, 2), (9, 15)]

def outcome(run):
    """ runs run() -> result structure; reports (exception | values, satisfied) """
    try:
        res = run()
    except Exception as e:
        return ("raise", type(e).__name__, str(e)), None, None
    return ("ok", values(res)), res, not violated()

def under(guards, fn):
    """ fn nested in guarded(g) for every guard wire of the list (outermost first) """
    for g in reversed(guards):
        fn = guarded(g)(fn)
    return fn

# ---------------------------------------------------------------- F1-F3: false guards

def false_guard_cases():
    n = 0
    for body in BODIES:
        for (xv, yv) in (PAIRS_SLOW if body in SLOW else PAIRS):
            for gv in ([(0,), (1, 0), (0, 1), (0, 0), (1, 0, 1)] if body not in SLOW else [(0,), (1, 0)]):
                for ie in (False, True):
                    if ie and (xv + yv) % 3: continue          # a third of the cases also with ignore_errors
                    reset()
                    ignore_errors(ie)
                    x, y, z = PrivVal(xv), PrivVal(yv), PrivVal(4242)
                    gs = [PrivVal(g) for g in gv]
                    inputs = wires([x, y, z] + gs)
                    out, res, sat = outcome(under(gs, lambda: body(x, y)))
                    tag = "%s x=%d y=%d guards=%s ie=%s" % (body.__name__, xv, yv, gv, ie)
                    check(out[0] == "ok", "F1 raised under a false guard: %s: %s" % (tag, out))
                    if out[0] != "ok": continue
                    check(sat, "F2 recorded witness violates constraints %s: %s" % (violated()[:5], tag))
                    check(consistent(res), "F2 value/wire mismatch: " + tag)
                    check(rt.guard is None and LinComb.ONE is LinComb.ONE_SAFE and ignore_errors() == ie,
                          "guard state not restored: " + tag)
                    n += 1
        # lazy branches: the false branch meets the values, the other branch is selected
        for (xv, yv) in (PAIRS_SLOW if body in SLOW else PAIRS[::3]):
            for cv in (0, 1):
                reset()
                x, y, z = PrivVal(xv), PrivVal(yv), PrivVal(4242)
                c = PrivValBool(cv)
                inputs = wires([x, y, z, c])
                def pick(r):
                    while isinstance(r, (list, tuple)): r = r[-1]
                    return r
                lazy = lambda: pick(body(x, y))
                run = (lambda: if_then_else(c, z, lazy)) if cv else (lambda: if_then_else(c, lazy, z))
                out, res, sat = outcome(run)
                tag = "lazy %s x=%d y=%d cond=%d" % (body.__name__, xv, yv, cv)
                check(out[0] == "ok", "F1 raised in an unselected lazy branch: %s: %s" % (tag, out))
                if out[0] != "ok": continue
                check(sat, "F2 recorded witness violates constraints %s: %s" % (violated()[:5], tag))
                check(values(res)[1] == 4242 and consistent(res), "F3 wrong selected value %s: %s" % (values(res), tag))
                check(is_determined(res, inputs), "F3 selected value not determined by the inputs: " + tag)
                n += 1
    # nested lazy selection, the inner results feed further guarded code
    for (xv, yv, c1, c2) in itertools.product([3, -7, 1 << 20, 0], [2, -1, 70000], (0, 1), (0, 1)):
        reset()
        x, y, z1, z2 = PrivVal(xv), PrivVal(yv), PrivVal(11), PrivVal(22)
        b1, b2 = PrivValBool(c1), PrivValBool(c2)
        inputs = wires([x, y, z1, z2, b1, b2])
        def inner():
            v = if_then_else(b2, lambda: LinComb.from_bits(x.to_bits(5)[1:]) + (x < y), z2)
            (v - 22).check_positive(3)
            v.to_bits(5)
            return v
        out, res, sat = outcome(lambda: if_then_else(b1, inner, z1))
        tag = "nested lazy x=%d y=%d c1=%d c2=%d" % (xv, yv, c1, c2)
        if c1 and c2:
            continue   # both guards true: covered by the T checks below
        if c1 and not c2:
            check(out[0] == "ok" and sat and values(res)[1] == 22, "F1-F3 %s: %s" % (tag, out))
        else:
            check(out[0] == "ok" and sat and values(res)[1] == 11, "F1-F3 %s: %s" % (tag, out))
        if out[0] == "ok":
            check(is_determined(res, inputs), "F3 selected value not determined by the inputs: " + tag)
        n += 1
    return n

# ---------------------------------------------------------------- T1-T2: true guards are transparent

def true_guard_cases():
    n = 0
    for body in BODIES:
        for (xv, yv) in (PAIRS_SLOW if body in SLOW else PAIRS):
            for ie in (False, True):
                reset(); ignore_errors(ie)
                x, y = PrivVal(xv), PrivVal(yv)
                ref, _, refsat = outcome(lambda: body(x, y))
                for depth in ((1, 2, 3) if body not in SLOW else (1,)):
                    reset(); ignore_errors(ie)
                    x, y = PrivVal(xv), PrivVal(yv)
                    gs = [PrivVal(1) for _ in range(depth)]
                    out, res, sat = outcome(under(gs, lambda: body(x, y)))
                    tag = "%s x=%d y=%d depth=%d ie=%s" % (body.__name__, xv, yv, depth, ie)
                    check(out == ref, "T1 true guard not transparent: %s: guarded %s, unguarded %s" % (tag, out, ref))
                    if out[0] == "ok" and ref[0] == "ok":
                        check(sat == refsat, "T2 enforcement differs: %s: guarded satisfied=%s, unguarded satisfied=%s" % (tag, sat, refsat))
                        check(consistent(res) or not sat, "T1 value/wire mismatch: " + tag)
                        if not ie: check(sat, "T2 accepted run leaves violated constraints: " + tag)
                    check(rt.guard is None and LinComb.ONE is LinComb.ONE_SAFE and ignore_errors() == ie,
                          "guard state not restored: " + tag)
                    n += 1
                # the same through a selected lazy branch
                if ie or body in SLOW: continue
                reset()
                x, y, c = PrivVal(xv), PrivVal(yv), PrivValBool(1)
                try:
                    r = if_then_else(c, lambda: [body(x, y)], lambda: [0]); out = ("ok", values(r[0]))
                    if isinstance(r[0], (list, tuple)): out = ref   # element-wise selection of lists is not what is compared
                    check(not violated(), "T2 selected lazy branch leaves violated constraints: %s x=%d y=%d" % (body.__name__, xv, yv))
                except Exception as e:
                    out = ("raise", type(e).__name__, str(e))
                if ref[0] == "raise" or not isinstance(ref[1][0], tuple):
                    check(out[:1] == ref[:1] and (out[0] == "ok" or out == ref),
                          "T1 selected lazy branch differs: %s x=%d y=%d: %s vs %s" % (body.__name__, xv, yv, out, ref))
                n += 1
    return n

# ---------------------------------------------------------------- T3: forged bits under a true guard

def repairable(frozen, forged):
    """ adversary: tries to re-assign wires created after the inputs (dummies, products ...) one
        constraint at a time so that the forged witness satisfies the system again """
    priv = list(be.privvals)
    fixed = set(frozen) | set(forged) | {0}
    for rounds in range(50):
        bad = violated(priv)
        if not bad: return True
        progress = False
        for i in bad:
            (a, b, c) = be.constraints[i]
            free = [k for k in c.lc if k not in fixed and k < 0 and k not in a.lc and k not in b.lc and c.lc[k] % P]
            if len(free) != 1: continue
            k = free[0]
            rest = (ev(a, priv)*ev(b, priv) - ev(c, priv)) % P
            priv[-k-1] = (priv[-k-1] + rest*pow(c.lc[k], -1, P)) % P
            fixed.add(k)         # every wire is re-assigned once
            progress = True
            break
        if not progress: return False
    return False

def forged_bit_cases():
    n = 0
    def tb(x): return x.to_bits(6)
    for depth in (0, 1, 2):
        for xv in (0, 5, 22, 63):
            reset()
            x = PrivVal(xv)
            gs = [PrivVal(1) for _ in range(depth)]
            frozen = wires([x] + gs)
            bits = under(gs, lambda: tb(x))()
            check(not violated(), "T3 setup")
            ks = [next(iter(wires(b))) for b in bits]
            # b0 += 2, b1 -= 1 keeps sum(b_i 2^i); b2 = 2 - needs b3 -= ... use (b2+=2, b3-=1) as well
            for (i, j) in ((0, 1), (2, 3), (4, 5)):
                save = list(be.privvals)
                be.privvals[-ks[i]-1] += 2
                be.privvals[-ks[j]-1] -= 1
                check(violated(), "T3 forged bits accepted as is: to_bits depth=%d x=%d bits %d,%d" % (depth, xv, i, j))
                check(not repairable(frozen, [ks[i], ks[j]]),
                      "T3 forged non-boolean bits can be repaired under a true guard: to_bits depth=%d x=%d bits %d,%d" % (depth, xv, i, j))
                be.privvals[:] = save
                n += 1
            # check_positive: forge its sign bit and its magnitude bits the same way
            reset()
            x = PrivVal(xv - 30)
            gs = [PrivVal(1) for _ in range(depth)]
            frozen = wires([x] + gs)
            mark = []
            under(gs, lambda: (mark.append(len(be.privvals)), x.check_positive(6)))()
            first = mark[0]          # wires allocated by check_positive itself
            check(not violated(), "T3 setup")
            # booleanity-shaped constraints name the bit wires
            bitw = []
            for (a, b, c) in be.constraints:
                ka = [k for k in a.lc if k != 0]
                if len(ka) == 1 and len(a.lc) == 1 and set(b.lc) == {0, ka[0]} and -ka[0]-1 >= first and ka[0] not in bitw:
                    bitw.append(ka[0])
            check(len(bitw) == 7, "T3 expected 7 bit wires in check_positive, found %d" % len(bitw))
            if len(bitw) == 7:
                for (i, j) in ((1, 2), (5, 6)):
                    save = list(be.privvals)
                    be.privvals[-bitw[i]-1] += 2
                    be.privvals[-bitw[j]-1] -= 1
                    check(not repairable(frozen, [bitw[i], bitw[j]]),
                          "T3 forged magnitude bits repairable: check_positive depth=%d x=%d" % (depth, xv - 30))
                    be.privvals[:] = save
                    n += 1
    return n

# ---------------------------------------------------------------- N: constraint counts

def count_cases():
    for bits in (1, 4, BL):
        for (gv, extra) in ((None, 0), (1, 1), (0, 1)):
            reset()
            x = PrivVal(1)
            fn = lambda: x.to_bits(bits)
            if gv is not None: fn = guarded(PrivVal(gv))(fn)
            fn()
            old = bits + 1 + (0 if gv is None else bits + 1)      # every constraint doubled by the guard
            new = bits + 1 + extra
            check(len(be.constraints) in (old, new), "N to_bits(%d) guard=%s recorded %d constraints" % (bits, gv, len(be.constraints)))
            check(len(be.constraints) == rt.num_constraints, "N num_constraints out of step")
            reset()
            x = PrivVal(-1)
            fn = lambda: x.check_positive(bits)
            if gv is not None: fn = guarded(PrivVal(gv))(fn)
            fn()
            old = bits + 2 + (0 if gv is None else bits + 2)
            new = bits + 2 + extra
            check(len(be.constraints) in (old, new), "N check_positive(%d) guard=%s recorded %d constraints" % (bits, gv, len(be.constraints)))
            check(not violated(), "N violated")

n1 = false_guard_cases()
n2 = true_guard_cases()
n3 = forged_bit_cases()
count_cases()
reset()

print("false-guard scenarios: %d, true-guard scenarios: %d, forged-bit scenarios: %d, checks: %d, failures: %d"
      % (n1, n2, n3, nchecks, len(failures)))
if failures:
    print("C07 VIOLATED")
    sys.exit(1)
print("C07 held in all cases")
sys.exit(0)
