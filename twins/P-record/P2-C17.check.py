# Evidence program for property C17 (what a @snark function makes public).
#
#   PYTHONPATH=<tree> /venv/bin/python P.check.py        (run from an empty directory)
#
# For every wrapped call it checks, against expectations computed WITHOUT the
# library (own flattening of the arguments, plain Python run of the function):
#   * the new public wires are exactly: one per numeric argument, in call order
#     through nested lists/tuples/dicts, with the expected encoding, followed by
#     one per secret result, in order, carrying the value of the computed wire;
#     nothing else became public
#   * the function body really received those public wires at those positions
#   * every constraint emitted during the call holds on the recorded witness,
#     and (guard absent or on) changing a public output in the witness breaks
#     a constraint, i.e. the output is tied to the computed wire
#   * the call returns what the undecorated function returns on plain values
#   * keyword arguments are refused and allocate nothing
# Calls are made in sequence in one run, inside guards (on and off), inside lazy
# if_then_else branches and with ignore_errors; at the end witness.wtns and
# circuit.r1cs are written, decoded and compared with the accumulated expectation.
# The script re-runs itself with the nobackend backend (instrumented) as well.

import copy, os, random, struct, subprocess, sys

MODE = os.environ.get("C17_MODE", "snarkjs")
os.environ["PYSNARK_BACKEND"] = MODE

import pysnark.runtime as rt
from pysnark.runtime import LinComb, PrivVal, snark
from pysnark.fixedpoint import LinCombFxp, resolution
from pysnark.boolean import LinCombBool, PrivValBool
from pysnark.branching import if_then_else

rt.autoprove = False
assert rt.backend_name == MODE, rt.backend_name
be = rt.backend
SECRET = (LinComb, LinCombFxp, LinCombBool)
failures = []
ncalls = 0

def fail(msg):
    failures.append(msg)
    print("PROPERTY VIOLATED:", msg)

# ---------------------------------------------------------------- backend access
if MODE == "snarkjs":
    P = be.snarkjsp
    pubvals, privvals, constraints = be.pubvals, be.privvals, be.constraints
    def marks(): return (len(pubvals), len(privvals), len(constraints))
else:   # nobackend: record what the runtime asks the backend to allocate
    P = None
    pubvals, privvals, constraints = [], [], []
    _pv, _sv, _ac = be.pubval, be.privval, be.add_constraint
    def pubval(v): pubvals.append(v); return _pv(v)
    def privval(v): privvals.append(v); return _sv(v)
    def add_constraint(v, w, y): constraints.append(None); return _ac(v, w, y)
    be.pubval, be.privval, be.add_constraint = pubval, privval, add_constraint
    def marks(): return (len(pubvals), len(privvals), len(constraints))

def wire(k, tamper=None):
    if tamper is not None and k in tamper: return tamper[k]
    if k == 0: return 1
    return pubvals[k-1] if k > 0 else privvals[-k-1]

def ev(lc, tamper=None):
    return sum(c * wire(k, tamper) for (k, c) in lc.lc.items()) % P

def holds(c, tamper=None):
    return (ev(c[0], tamper) * ev(c[1], tamper) - ev(c[2], tamper)) % P == 0

# ---------------------------------------------------------------- independent model
def leaves(s):
    if isinstance(s, (list, tuple)):
        for x in s: yield from leaves(x)
    elif isinstance(s, dict):
        for k in s: yield from leaves(s[k])
    else:
        yield s

def enc(x):
    if isinstance(x, float): return int(x * (1 << resolution))
    return int(x)

def same(out, plain, path="result"):
    if isinstance(plain, (list, tuple)):
        if type(out) is not type(plain) or len(out) != len(plain): return fail(f"{path}: {out!r} instead of {plain!r}")
        for i, (a, b) in enumerate(zip(out, plain)): same(a, b, f"{path}[{i}]")
    elif isinstance(plain, dict):
        if type(out) is not dict or list(out) != list(plain): return fail(f"{path}: {out!r} instead of {plain!r}")
        for k in plain: same(out[k], plain[k], f"{path}[{k!r}]")
    elif isinstance(plain, (int, float)):
        if isinstance(out, SECRET) or not isinstance(out, (int, float)) or out != plain:
            fail(f"{path}: wrapped call returned {out!r}, undecorated function returns {plain!r}")
    else:
        if out is not plain and out != plain: fail(f"{path}: {out!r} instead of {plain!r}")

expected_public = []      # accumulated over the whole run, from the model only

def checked(fn, plainfn=None, label=None):
    """ snark(fn) with the property checked around every call """
    label = label or getattr(fn, "__name__", "fn")
    def call(*args):
        global ncalls
        ncalls += 1
        plain = (plainfn or fn)(*copy.deepcopy(args))
        nums = [x for x in leaves(args) if isinstance(x, (int, float))]
        cap = {}
        def body(*a):
            cap["args"] = a
            cap["marks"] = marks()
            cap["ret"] = fn(*a)
            return cap["ret"]
        guard = rt.guard
        guard_on = guard is None or guard.value == 1
        n0, m0, c0 = marks()
        out = snark(body)(*args)
        n1, m1, c1 = marks()
        where = f"call #{ncalls} {label}{args!r}"

        # public inputs: one per numeric argument, in order, before the body runs
        newpub = pubvals[n0:n1]
        if cap["marks"][0] != n0 + len(nums):
            fail(f"{where}: {cap['marks'][0]-n0} public inputs allocated for {len(nums)} numeric arguments")
        if newpub[:len(nums)] != [enc(x) for x in nums]:
            fail(f"{where}: public inputs {newpub[:len(nums)]} but the numeric arguments are {nums}")
        got = list(leaves(cap["args"])); orig = list(leaves(args))
        if len(got) != len(orig): fail(f"{where}: argument structure changed")
        i = 0
        for g, o in zip(got, orig):
            if isinstance(o, (int, float)):
                i += 1
                lc = g.lc if isinstance(g, (LinCombFxp, LinCombBool)) else g
                if not isinstance(lc, LinComb) or lc.value != enc(o):
                    fail(f"{where}: body received {g!r} for argument {o!r}")
                elif MODE == "snarkjs" and {k: v for k, v in lc.lc.lc.items() if v} != {n0 + i: 1}:
                    fail(f"{where}: argument no. {i} is wire {lc.lc.lc}, expected public wire {n0+i}")
            elif g is not o:
                fail(f"{where}: non-numeric argument {o!r} was replaced by {g!r}")

        # public outputs: one per secret result, in order; nothing else
        rl = list(leaves(cap["ret"])); pl = list(leaves(plain))
        secret = [(x.lc if isinstance(x, (LinCombFxp, LinCombBool)) else x) for x in rl if isinstance(x, SECRET)]
        outs = newpub[len(nums):]
        if len(outs) != len(secret):
            fail(f"{where}: {len(outs)} public outputs for {len(secret)} secret results (public wires {newpub})")
        elif outs != [s.value for s in secret]:
            fail(f"{where}: public outputs {outs} but the computed wires carry {[s.value for s in secret]}")
        if len(rl) == len(pl):
            exp_out = [enc(p) for (r, p) in zip(rl, pl) if isinstance(r, SECRET)]
            if [o % P if P else o for o in outs] != [e % P if P else e for e in exp_out]:
                fail(f"{where}: public outputs {outs}, plain Python gives {exp_out}")
        else:
            fail(f"{where}: result structure differs from the plain run")
        expected_public.extend([enc(x) for x in nums] + [s.value for s in secret])

        # constraints
        if MODE == "snarkjs":
            for j in range(c0, c1):
                if not holds(constraints[j]): fail(f"{where}: constraint {j} does not hold on the witness")
            if guard_on:
                for k in range(len(secret)):
                    w = n0 + len(nums) + k + 1
                    if w > n1: break
                    for delta in (1, -1, 12345):
                        t = {w: pubvals[w-1] + delta}
                        if all(holds(constraints[j], t) for j in range(c0, c1)):
                            fail(f"{where}: public output wire {w} is not tied to the computed wire")
                            break
        else:
            if c1 - cap["marks"][2] < 0 or (c1 - c0) < len(secret):
                fail(f"{where}: fewer constraints than public outputs")

        same(out, plain, where)
        return out
    return call

# ---------------------------------------------------------------- function bodies
def intlike(v): return isinstance(v, (int, LinComb)) and not isinstance(v, float)
def fltlike(v): return isinstance(v, (float, LinCombFxp))

def generic(*a):
    ints = [v for v in leaves(a) if intlike(v)]
    flts = [v for v in leaves(a) if fltlike(v)]
    return {"isum": sum(ints, 0), "sq": [v * v for v in ints], "pairs": tuple(x * y for x, y in zip(ints, ints[1:])),
            "fs": [v + 0.5 for v in flts], "f3": [v * 3 for v in flts], "mix": [f + i for f, i in zip(flts, ints)],
            "const": (7, "txt", None, 2.5), "echo": a}

def cube(x): return x * x * x
def twice(x): y = x * x; return (y, y)
def ident(x): return x
def nothing(): return 5
def lt(x, y): return x < y
def witness(): return PrivVal(3) * PrivVal(4)
def mixed(a, f, b, g): return [f + 1.5, a * b, g * 2, a + 1, (f - g, b - a)]
def dicts(d): return {"p": d["a"] * d["b"], "s": d["a"] + d["c"][0], "n": {"z": d["c"][1] * 2}}
def passthru(x, s, n): return (s, x * 2, n)

FIXED = [
    (cube, None, [(3,), (0,), (-4,), (1,), (2**200,), (True,), (False,)]),
    (twice, None, [(3,), (-1,)]),
    (ident, None, [(5,), (2.5,), (-2.75,), ("s",), (None,), ([1, [2.5, (3,)]],), ({},), ([],)]),
    (nothing, None, [()]),
    (lt, None, [(3, 4), (4, 3), (3, 3)]),
    (witness, lambda: 12, [()]),
    (mixed, None, [(2, 1.5, 3, 0.25), (-2, -1.5, 0, 4.0), (7, 0.0, True, -0.5)]),
    (dicts, None, [({"a": 3, "b": 4, "c": [5, 6]},), ({"c": (1, 2), "b": -3, "a": 0},)]),
    (passthru, None, [(3, "abc", None), (3, (1, 2.0), {"k": [4]})]),
    (generic, None, [(3, 3), (1.5, 2), (2, 1.5), ([1, 2.5, 3], 4.25, {"x": 5, "y": (6.5, 7)}), (), ((), [], {}), (True, 2, 0.5, False)]),
]

def rnd_struct(r, depth=0):
    k = r.random()
    if depth < 3 and k < 0.35:
        n = r.randrange(0, 4)
        kind = r.choice(["list", "tuple", "dict"])
        items = [rnd_struct(r, depth + 1) for _ in range(n)]
        if kind == "list": return items
        if kind == "tuple": return tuple(items)
        keys = r.sample(["a", "b", "c", "d", 1, 2, (0, 1)], n)
        return dict(zip(keys, items))
    if k < 0.6: return r.choice([0, 1, -1, 2, 3, 3, 7, 255, 256, -300, 1000, 2**40 + 1])   # floats must stay exact in the plain run
    if k < 0.8: return r.choice([0.0, 0.5, -0.5, 1.25, 3.0, -7.75, 100.125])
    if k < 0.88: return r.choice([True, False])
    return r.choice(["s", None, b"x"])

def run_all():
    r = random.Random(17)
    shared = [1, 2.5, 3]
    cases = [(f, p, a) for (f, p, al) in FIXED for a in al]
    cases += [(generic, None, (shared, shared)), (generic, None, (shared, [shared, shared], {"k": shared})),
              (generic, None, (1000, 1000, 2.5, 2.5))]
    cases += [(generic, None, tuple(rnd_struct(r) for _ in range(r.randrange(0, 4)))) for _ in range(120)]
    r.shuffle(cases)

    # 1. plain sequence of calls in one run
    for f, p, a in cases: checked(f, p)(*a)

    # 2. inside guards (on / off), nested guards
    for gv in (1, 0):
        g = PrivValBool(gv)
        for f, p, a in cases[:40]:
            # a comparison evaluated in a switched-off branch yields a dummy bit by design; not a C17 matter
            if gv == 0 and f is lt: continue
            rt.guarded(g.lc)(lambda: checked(f, p, label=f"[guard={gv}] {f.__name__}")(*a))()
        g2 = PrivValBool(1)
        rt.guarded(g.lc)(lambda: rt.guarded(g2.lc)(lambda: checked(mixed, label=f"[guards {gv},1] mixed")(2, 1.5, 3, 0.25))())()

    # 3. lazy if_then_else branches
    for cv in (1, 0):
        c = PrivValBool(cv)
        res = if_then_else(c, lambda: checked(cube, label="[then] cube")(3), lambda: checked(cube, label="[else] cube")(4))
        if MODE == "snarkjs" and res.value != (27 if cv else 64): fail(f"if_then_else gave {res.value}")
        res = if_then_else(c, lambda: checked(mixed, label="[then] mixed")(2, 1.5, 3, 0.25)[1],
                              lambda: checked(generic, label="[else] generic")(2, 1.5)["isum"])
        if MODE == "snarkjs" and res.value != (6 if cv else 2): fail(f"if_then_else gave {res.value}")

    # 4. ignore_errors
    rt.ignore_errors(True)
    for f, p, a in cases[40:70]: checked(f, p, label="[ignore_errors] " + f.__name__)(*a)
    rt.ignore_errors(False)

    # 5. keyword arguments are refused, and refuse before anything is allocated
    for kw in ({"x": 3}, {"y": 1, "x": 2}, {"opt": None}, {"x": [1, 2]}):
        m = marks()
        try:
            snark(lambda *a, **k: 0)(1, **kw)
            fail(f"keyword arguments {kw} were accepted")
        except ValueError:
            pass
        if marks() != m: fail(f"refused call with keyword arguments {kw} allocated wires / constraints")

    # 6. the wrapper looks like the function
    w = snark(cube)
    if w(2) != 8: fail("snark(cube)(2) != 8")
    expected_public.extend([2, 8])

def decode_files():
    be.prove()
    d = open("witness.wtns", "rb").read()
    assert d[:4] == b"wtns"
    n = struct.unpack_from("<I", d, 12 + 12 + 4 + 32)[0]
    off = 12 + 12 + 4 + 32 + 4 + 12
    wit = [int.from_bytes(d[off + 32*i: off + 32*(i+1)], "little") for i in range(n)]
    c = open("circuit.r1cs", "rb").read()
    assert c[:4] == b"r1cs"
    o = 12 + 12 + 4 + 32
    nvars, npubout, npubin, nprvin = struct.unpack_from("<IIII", c, o)
    ncons = struct.unpack_from("<I", c, o + 16 + 8)[0]
    if nvars != n: fail("r1cs/wtns disagree on the number of wires")
    if npubout + npubin != len(expected_public):
        fail(f"circuit.r1cs declares {npubout+npubin} public wires, the calls made expose {len(expected_public)} values")
    if wit[0] != 1 or wit[1:1 + len(expected_public)] != [v % P for v in expected_public]:
        fail("public part of witness.wtns differs from the values the wrapped calls expose")
    o = o + 16 + 8 + 4 + 12
    for j in range(ncons):
        val = []
        for _ in range(3):
            k = struct.unpack_from("<I", c, o)[0]; o += 4
            acc = 0
            for _ in range(k):
                idx = struct.unpack_from("<I", c, o)[0]; o += 4
                acc += wit[idx] * int.from_bytes(c[o:o+32], "little"); o += 32
            val.append(acc % P)
        if (val[0] * val[1] - val[2]) % P: fail(f"constraint {j} of circuit.r1cs does not hold on witness.wtns")
    print(f"decoded files: {n} wires, {npubout} public, {ncons} constraints")

if __name__ == "__main__":
    import warnings; warnings.simplefilter("ignore")
    run_all()
    if MODE == "snarkjs":
        if pubvals != expected_public: fail("public wires of the run differ from the accumulated expectation")
        decode_files()
        for f in ("witness.wtns", "circuit.r1cs"): os.remove(f)
        env = dict(os.environ, C17_MODE="nobackend")
        rc = subprocess.call([sys.executable, os.path.abspath(__file__)], env=env)
        if rc: fail("the nobackend run failed")
    else:
        if pubvals != expected_public: fail("public values of the run differ from the accumulated expectation")
    print(f"[{MODE}] {ncalls} wrapped calls checked, {len(failures)} failures")
    sys.exit(1 if failures else 0)
