# Check for change P (C08): guarded() restores in a finally clause and accepts generator functions,
# every resumption of a guarded generator being a guarded region of its own.
#
# What is checked, for a few hundred randomly generated and a family of exhaustively enumerated
# programs, each run for EVERY 0/1 assignment of its guard conditions and with an exception injected at
# EVERY statement (and once without):
#   (1) restoration: after every guarded region ends (guarded function call; next/send/throw/close of a
#       guarded generator) by returning or by any kind of exception, runtime.guard, ignore_errors() and
#       LinComb.ONE are the very same objects/values as before it was entered;
#   (2) conjunction: at every statement inside regions (function bodies, generator bodies between yields,
#       if/else branch contexts) the guard has the value AND(enclosing conditions), error suppression is
#       on exactly if that AND is 0 (or was on outside), LinComb.ONE is the guard, constants scale by it;
#       outside all regions (including consumer code between two resumptions of a generator) guard is
#       None and ONE is the real one;
#   (3) on the constraints a recording backend receives: the witness satisfies all of them exactly if no
#       violated probe constraint sits under a conjunction with value 1, and the constraint system of a
#       program does not depend on the values of the conditions.
# Exits 0 if everything held, 1 otherwise.

import gc
import itertools
import random
import sys
import types

# ---- recording backend, installed under the name of pysnark.nobackend before the runtime is imported

MOD = 21888242871839275222246405745257275088548364400416034343698204186575808495617

class LC:
    def __init__(self, d): self.d = {k: v % MOD for k, v in d.items() if v % MOD}
    def __add__(self, o):
        d = dict(self.d)
        for k, v in o.d.items(): d[k] = d.get(k, 0) + v
        return LC(d)
    def __sub__(self, o): return self + (-o)
    def __neg__(self): return LC({k: -v for k, v in self.d.items()})
    def __mul__(self, c): return LC({k: v * c for k, v in self.d.items()})
    def ev(self, w): return sum(v * w[k] for k, v in self.d.items()) % MOD
    def key(self): return tuple(sorted(self.d.items()))

class Rec:
    def __init__(self): self.reset()
    def reset(self):
        self.w = [1]
        self.cons = []
    def var(self, val):
        self.w.append(val % MOD)
        return LC({len(self.w) - 1: 1})

rec = Rec()
be = types.ModuleType("pysnark.nobackend")
be.privval = lambda val: rec.var(val)
be.pubval = lambda val: rec.var(val)
be.zero = lambda: LC({})
be.one = lambda: LC({0: 1})
be.fieldinverse = lambda val: pow(val % MOD, MOD - 2, MOD)
be.get_modulus = lambda: MOD
be.add_constraint = lambda v, w, y: rec.cons.append((v, w, y))
be.prove = lambda: None
sys.modules["pysnark.nobackend"] = be

import pysnark.runtime as rt
from pysnark.runtime import LinComb, PrivVal, guarded, ignore_errors
from pysnark.branching import BranchingValues, _if, _else, _endif

assert rt.backend is be, "recording backend not in effect"
rt.autoprove = False
rt.bitlength = 3        # width of the bit decompositions behind guard&cond; 0/1 fit, and the runs get much shorter

# aborts injected into the finaliser of an abandoned generator cannot propagate; Python reports them here
unraisable = []
sys.unraisablehook = lambda u: unraisable.append(u.exc_type)

failures = []
def fail(msg):
    if len(failures) < 25: print("FAIL:", msg)
    failures.append(msg)

# ---- the harness

class Abort(BaseException): pass          # not an Exception: bare-except territory
class Abort2(ValueError): pass

class Harness:
    def __init__(self, conds, abort_at, abort_kind, base_ignore):
        self.vals = conds                 # 0/1 values of the conditions
        self.abort_at = abort_at
        self.abort_kind = abort_kind
        self.base_ignore = base_ignore
        self.ticks = 0
        self.enclosing = []               # indices of the conditions that enclose the current statement
        self.violated_live = False        # a violated probe constraint under conjunction 1 was emitted
        self.nprobes = 0

    def conj(self):
        r = 1
        for i in self.enclosing: r &= self.vals[i]
        return r

    def snap(self):
        return (rt.guard, rt._ignore_errors, LinComb.ONE)

    def same(self, a, what):
        b = self.snap()
        if not (a[0] is b[0] and a[1] == b[1] and a[2] is b[2]):
            fail("%s: state not restored: before %r after %r (conds %r abort %r)" % (what, a, b, self.vals, self.abort_at))

    def tick(self, where):
        """ One statement: observe the state, emit a probe constraint, maybe abort here """
        self.ticks += 1
        ctx = "%s, tick %d, enclosing %r, conds %r, abort_at %r" % (where, self.ticks, self.enclosing, self.vals, self.abort_at)
        if not self.enclosing:
            if rt.guard is not None: fail("guard active outside all regions: " + ctx)
            if LinComb.ONE is not LinComb.ONE_SAFE: fail("constants rescaled outside all regions: " + ctx)
            if ignore_errors() != self.base_ignore: fail("error suppression changed outside all regions: " + ctx)
            if LinComb._ensurelc(7).value != 7: fail("constant 7 has wrong value outside all regions: " + ctx)
        else:
            c = self.conj()
            if rt.guard is None: fail("no guard inside region: " + ctx)
            else:
                if rt.guard.value != c: fail("guard value %r is not the conjunction %r: %s" % (rt.guard.value, c, ctx))
                if rt.guard.lc.ev(rec.w) != c: fail("guard wire does not carry the conjunction: " + ctx)
                if LinComb.ONE is not rt.guard: fail("LinComb.ONE is not the guard: " + ctx)
                if ignore_errors() != (self.base_ignore or c == 0): fail("error suppression %r wrong: %s" % (ignore_errors(), ctx))
                if LinComb._ensurelc(7).value != 7 * c: fail("constant not scaled by the conjunction: " + ctx)
                if rt.is_guard() != (c == 1): fail("is_guard wrong: " + ctx)
                # probe: the constraint 0*0 = x with x alternately 0 and 5
                self.nprobes += 1
                x = PrivVal(5 if self.nprobes % 2 else 0)
                rt.add_constraint(LinComb.ZERO, LinComb.ZERO, x)
                if x.value != 0 and c == 1: self.violated_live = True
                # the library's own assertion must fire exactly in live code
                if not self.base_ignore:
                    mark = (len(rec.w), len(rec.cons))
                    try:
                        PrivVal(3).assert_zero()
                        if c == 1: fail("assert_zero(3) did not raise in live region: " + ctx)
                    except AssertionError:
                        if c == 0: fail("assert_zero(3) raised in dead region: " + ctx)
                    del rec.w[mark[0]:], rec.cons[mark[1]:]   # what this emits depends on c by design: keep it out of the shape
        if self.ticks == self.abort_at:
            raise (Abort if self.abort_kind == 0 else Abort2)("injected at tick %d" % self.ticks)

    # -- program nodes. A body is a list of nodes.
    #   ("t",)                                 statement
    #   ("fn", c, body, catch)                 guarded function, called at once; catch: harness catches the abort
    #   ("br", c, body1, body2)                _if/_else/_endif contexts (only below an fn/gen)
    #   ("gen", c, segments, drivers, end, catch)
    #        segments: bodies separated by yields; drivers[i]: None or condition index of an extra
    #        guarded function within which the i-th resumption is made; end: how the consumer finishes
    def run(self, body):
        for node in body:
            getattr(self, "n_" + node[0])(*node[1:])

    def n_t(self):
        self.tick("stmt")

    def cond(self, i):
        return PrivVal(self.vals[i])

    def region(self, what, call, catch):
        """ Harness-side call of something that is one guarded region """
        before = self.snap()
        depth = len(self.enclosing)
        try:
            return call()
        except (Abort, Abort2):
            del self.enclosing[depth:]
            self.same(before, what + " (left by exception)")
            if not catch: raise
            return None
        finally:
            self.same(before, what)

    def n_fn(self, c, body, catch):
        def f():
            self.enclosing.append(c)
            self.tick("fn entry")
            self.run(body)
            self.tick("fn exit")
            self.enclosing.pop()
            return 42
        g = guarded(self.cond(c))(f)
        r = self.region("guarded function", g, catch)
        if r is not None and r != 42: fail("return value lost")

    def n_br(self, c, body1, body2):
        _ = BranchingValues()
        try:
            cnd = self.cond(c)
            before = self.snap()
            _if(cnd, ctx=_)
            self.enclosing.append(c)
            self.run(body1)
            self.enclosing.pop()
            _else(ctx=_)
            # the else branch is guarded by 1-cond: model it as a fresh negated condition
            self.vals.append(1 - self.vals[c]); nc = len(self.vals) - 1
            self.enclosing.append(nc)
            self.run(body2)
            self.enclosing.pop()
            _endif(ctx=_)
            self.same(before, "if/else/endif")
        finally:
            _.stack.clear()

    def n_gen(self, c, segments, drivers, end, catch):
        h = self
        def genfn():
            got = None
            for k, seg in enumerate(segments):
                h.enclosing.append(c)
                try:
                    h.tick("gen segment %d" % k)
                    h.run(seg)
                finally:
                    h.enclosing.pop()
                if k < len(segments) - 1:
                    try:
                        got = yield k
                    except Abort2 as e:
                        if "thrown by consumer" not in str(e): raise
                        h.enclosing.append(c)
                        try: h.tick("gen handles thrown exception")
                        finally: h.enclosing.pop()
                        got = "thrown"
                    except GeneratorExit:
                        h.enclosing.append(c)
                        try: h.tick("gen handles close")
                        finally: h.enclosing.pop()
                        raise
                    # code right after the yield also belongs to the region of this resumption
                    h.enclosing.append(c)
                    try: h.tick("gen after yield, got %r" % (got,))
                    finally: h.enclosing.pop()
            return "done"

        it = guarded(self.cond(c))(genfn)()
        if not isinstance(it, types.GeneratorType): fail("guarded generator function did not give a generator")

        def consume():
            finished = False
            for k in range(len(segments)):
                d = drivers[k % len(drivers)] if drivers else None
                if k == 0: step = lambda: next(it)
                elif end == "send": step = lambda: it.send(k)
                elif end == "throw" and k == 1: step = lambda: it.throw(Abort2("thrown by consumer"))
                else: step = lambda: next(it)
                def resume(step=step):
                    try:
                        return ("item", self.region("generator resumption", step, False))
                    except StopIteration as s:
                        return ("stop", s.value)
                if d is None:
                    r = resume()
                else:
                    def inner():
                        self.enclosing.append(d)
                        try: return resume()
                        finally: self.enclosing.pop()
                    r = self.region("driver function", guarded(self.cond(d))(inner), False)
                if r[0] == "stop":
                    if r[1] != "done": fail("generator return value lost: %r" % (r,))
                    finished = True
                    break
                self.tick("consumer between resumptions")      # consumer's own state must be in effect here
                if end == "close" and k == 0:
                    self.region("generator close", it.close, False)
                    self.tick("consumer after close")
                    return
                if end == "abandon" and k == 0:
                    return
            if not finished and end not in ("abandon",): fail("generator did not finish")
        self.region("generator use", consume, catch)
        # dropping the last reference finalises an abandoned generator now (CPython): one more region
        before = self.snap()
        del it, genfn
        self.same(before, "generator finalisation")
        self.tick("after generator")


def run_program(prog, nconds, vals, abort_at, abort_kind, base_ignore):
    rec.reset()
    ignore_errors(base_ignore)
    h = Harness(list(vals), abort_at, abort_kind, base_ignore)
    start = h.snap()
    try:
        h.tick("top")
        h.run(prog)
        h.tick("top end")
    except (Abort, Abort2):
        del h.enclosing[:]
    h.same(start, "whole program")
    if rt.guard is not None or LinComb.ONE is not LinComb.ONE_SAFE or ignore_errors() != base_ignore:
        fail("stale state after program %r conds %r abort %r" % (prog, vals, abort_at))
        rt.guard = None; LinComb.ONE = LinComb.ONE_SAFE      # so that the following runs are judged on their own
    sat = all((v.ev(rec.w) * w.ev(rec.w) - y.ev(rec.w)) % MOD == 0 for (v, w, y) in rec.cons)
    if sat == h.violated_live:
        fail("constraints satisfied=%r but violated live probe=%r: %r conds %r abort %r" % (sat, h.violated_live, prog, vals, abort_at))
    shape = tuple((v.key(), w.key(), y.key()) for (v, w, y) in rec.cons)
    ignore_errors(False)
    return h.ticks, shape

def check_program(prog, nconds, full=True):
    gc.collect()
    runs = 0
    nticks, _ = run_program(prog, nconds, [1] * nconds, None, 0, False)
    aborts = [None] + list(range(1, nticks + 1))
    for abort_at in aborts:
        shapes = set()
        for vals in itertools.product((0, 1), repeat=nconds):
            kind = 0 if abort_at is None else abort_at % 2
            _, shape = run_program(prog, nconds, vals, abort_at, kind, False)
            shapes.add(shape)
            runs += 1
        if len(shapes) != 1:
            fail("constraint system depends on the condition values: %r abort %r" % (prog, abort_at))
        if full and (abort_at is None or abort_at % 3 == 0):
            # once more with error suppression already switched on outside
            sel = 5 if abort_at is None else abort_at
            run_program(prog, nconds, [(sel >> i) & 1 for i in range(nconds)], abort_at, 1, True)
            runs += 1
    return runs

# ---- random programs

def gen_body(rng, depth, nconds, top):
    body = []
    for _ in range(rng.randint(1, 2 if depth else 3)):
        kinds = ["t"]
        if depth < 3: kinds += ["fn", "gen", "gen"]
        if depth < 3 and not top: kinds += ["br"]
        k = rng.choice(kinds)
        c = rng.randrange(nconds)
        if k == "t":
            body.append(("t",))
        elif k == "fn":
            body.append(("fn", c, gen_body(rng, depth + 1, nconds, False), rng.random() < 0.5))
        elif k == "br":
            body.append(("br", c, gen_body(rng, depth + 1, nconds, False), gen_body(rng, depth + 1, nconds, False)))
        else:
            nseg = rng.randint(1, 3)
            segs = [gen_body(rng, depth + 2, nconds, False) if rng.random() < 0.6 else [] for _ in range(nseg)]
            drivers = [rng.choice([None, None, rng.randrange(nconds)]) for _ in range(nseg)]
            end = rng.choice(["exhaust", "send", "throw", "close", "abandon"])
            body.append(("gen", c, segs, drivers, end, rng.random() < 0.5))
    return body

total = 0
nprog = 0

# exhaustive family: every chain of up to 3 nested regions of kind fn / gen (resumed directly or from
# within a further guarded function) / branch, over all condition values and all abort points
kinds = ["fn", "gen", "gend", "br"]
for depth in (1, 2, 3):
    for chain in itertools.product(kinds, repeat=depth):
        if chain[0] == "br": continue            # a bare branch context has nobody to clean up after an abort
        body = [("t",)]
        for lvl in reversed(range(depth)):
            k = chain[lvl]
            if k == "fn": body = [("fn", lvl, body, lvl % 2 == 0), ("t",)]
            elif k == "br": body = [("br", lvl, body, [("t",)])]
            elif k == "gen": body = [("gen", lvl, [body, [("t",)]], [None], "exhaust", lvl % 2 == 1)]
            else: body = [("gen", lvl, [[("t",)], body], [None, (lvl + 1) % depth], "send", lvl % 2 == 0)]
        total += check_program(body, depth, full=(depth < 3))
        nprog += 1

rng = random.Random(20261004)
for i in range(70):
    nconds = rng.randint(1, 3)
    prog = gen_body(rng, 0, nconds, True)
    total += check_program(prog, nconds)
    nprog += 1
    if len(failures) > 200: break

for t in unraisable:
    if t not in (Abort, Abort2): fail("unexpected exception in a finaliser: %r" % (t,))
print("%d programs, %d runs (%d aborts landed in generator finalisers), %d failures" % (nprog, total, len(unraisable), len(failures)))
sys.exit(1 if failures else 0)
