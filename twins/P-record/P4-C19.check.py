#!/venv/bin/python
"""
Evidence program for property C19 ("the backend in use is the one the configuration names").

Run as   PYTHONPATH=<tree> /venv/bin/python P.check.py   from an empty directory.

Every configuration is run in a fresh interpreter (the backend is chosen when pysnark.runtime is
imported).  Part 1 walks through environment setting x pre-imported modules x "flatbuffers
available" x "running under IPython" and compares the outcome with the property; part 2 runs a
workload (guards, lazy if_then_else branches, ignore_errors, negative / out-of-range values,
nesting, fixed point) under every backend that can be loaded and checks that the named backend
really is the module that gets the wires and constraints, that the field it reports is the field
its files are written in, that every recorded constraint holds on the recorded witness, and that
the dummy backend is told exactly what the recording backends are told.
"""

import concurrent.futures
import json
import os
import shutil
import subprocess
import sys
import tempfile

BN254 = 21888242871839275222246405745257275088548364400416034343698204186575808495617
BLS381 = 52435875175126190479447740508185965837690552500527637822603658699938581184513
ED25519 = 7237005577332262213973186563042994240857116359379907606001950938285454250989

# the documented order
TABLE = [
    ["libsnark",    "pysnark.libsnark.backend"],
    ["libsnarkgg",  "pysnark.libsnark.backendgg"],
    ["qaptools",    "pysnark.qaptools.backend"],
    ["snarkjs",     "pysnark.snarkjsbackend"],
    ["zkinterface", "pysnark.zkinterface.backend"],
    ["zkifbellman", "pysnark.zkinterface.backendbellman"],
    ["zkifbulletproofs", "pysnark.zkinterface.backendbulletproofs"],
    ["nobackend",   "pysnark.nobackend"],
]
MODOF = dict((n, m) for n, m in TABLE)
FIELD = {"snarkjs": BN254, "zkinterface": BN254, "zkifbellman": BLS381, "zkifbulletproofs": ED25519,
         "nobackend": 10000, "libsnark": BN254, "libsnarkgg": BN254}
INTERFACE = ["privval", "pubval", "zero", "one", "fieldinverse", "get_modulus", "add_constraint", "prove"]
UNKNOWN = ["foo", "", "snarkjs2", "pysnark.nobackend", "no backend", "zkif"]

CHILD = r'''
import builtins, importlib, io, json, os, sys, types
cfg = json.loads(os.environ["C19_CFG"])
out = {}
def done():
    sys.stdout.flush()
    print("\n@@RESULT " + json.dumps(out))
    sys.stdout.flush()

if cfg["stubfb"]:
    fb = types.ModuleType("flatbuffers"); fb.__path__ = []
    fbc = types.ModuleType("flatbuffers.compat"); fbc.import_numpy = lambda: None
    fb.compat = fbc
    fb.__spec__ = importlib.machinery.ModuleSpec("flatbuffers", None, is_package=True)
    fbc.__spec__ = importlib.machinery.ModuleSpec("flatbuffers.compat", None)
    sys.modules["flatbuffers"] = fb; sys.modules["flatbuffers.compat"] = fbc
else:
    sys.modules["flatbuffers"] = None        # "not installed", whatever the machine has
if cfg["ipy"]:
    builtins.get_ipython = lambda: None

if cfg["mode"] == "probe":                   # can this module be imported at all?
    try:
        importlib.import_module(cfg["module"]); out["ok"] = True
    except Exception as e:
        out["ok"] = False; out["err"] = repr(e)
    done(); os._exit(0)

for m in cfg["pre"]: importlib.import_module(m)
out["pre_ok"] = True
import pysnark.runtime as rt
rt.autoprove = False
be = rt.backend
out["table"] = rt.backends
out["name"] = rt.backend_name
out["module"] = be.__name__
out["is_sysmod"] = sys.modules.get(be.__name__) is be
out["modulus"] = be.get_modulus()
out["missing"] = [f for f in cfg["interface"] if not callable(getattr(be, f, None))]
out["lc_type_ok"] = type(rt.LinComb.ONE.lc) is type(be.one()) and type(rt.LinComb.ZERO.lc) is type(be.zero())

# who receives wires and constraints?  spy on the module that the *name* stands for
named = sys.modules.get(dict(rt.backends).get(rt.backend_name, ""), None)
calls = {"c": 0, "p": 0, "q": 0}
if named is not None:
    oc, op, oq = named.add_constraint, named.privval, named.pubval
    def sc(*a): calls["c"] += 1; return oc(*a)
    def sp(*a): calls["p"] += 1; return op(*a)
    def sq(*a): calls["q"] += 1; return oq(*a)
    named.add_constraint, named.privval, named.pubval = sc, sp, sq
    x = rt.PrivVal(3) * rt.PrivVal(-4) + rt.PubVal(5)      # 3 witnesses, 1 input, 1 constraint; val() opens: 1 output, 1 constraint
    out["mini_val"] = x.val()
    named.add_constraint, named.privval, named.pubval = oc, op, oq
out["spy"] = calls

def lcval(lc, pub, priv, p):
    return sum(c * (1 if k == 0 else pub[k-1] if k > 0 else priv[-k-1]) for k, c in lc.lc.items()) % p

if cfg["mode"] == "work":
    from pysnark.runtime import PrivVal, PubVal, LinComb, ignore_errors, guarded
    from pysnark.boolean import PrivValBool, LinCombBool
    from pysnark.fixedpoint import PrivValFxp
    from pysnark.branching import if_then_else
    res = []
    def rec(tag, got, want):
        res.append([tag, got, want])
    vals = [-7, -2, -1, 0, 1, 2, 5, 13]
    for a in vals:
        for b in vals:
            A, B = PrivVal(a), PubVal(b)
            rec("add", (A+B).val(), a+b); rec("sub", (A-B).val(), a-b); rec("mul", (A*B).val(), a*b)
            rec("neg", (-A).val(), -a); rec("rsub", (3-A).val(), 3-a); rec("cmul", (A*-3+B*2+1).val(), -3*a+2*b+1)
            rec("lt", (A<B).val(), int(a<b)); rec("le", (A<=B).val(), int(a<=b)); rec("gt", (A>b).val(), int(a>b))
            rec("eq", (A==B).val(), int(a==b)); rec("ne", (A!=b).val(), int(a!=b))
            rec("abs", abs(A).val(), abs(a))
            if a >= 0 and b >= 0:
                rec("and", (A&B).val(), a&b); rec("or", (A|B).val(), a|b); rec("xor", (A^B).val(), a^b)
                rec("shl", (A<<2).val(), a<<2); rec("shr", (A>>1).val(), a>>1)
            if b > 0 and a >= 0:
                rec("floordiv", (A//B).val(), a//b); rec("mod", (A%B).val(), a%b)
            # lazy branches: the branch not taken would fail (zero check of a nonzero value / inverse of zero)
            c = PrivValBool(int(a < b))
            r = if_then_else(c, lambda: (A*B + 1), lambda: (A - B*B))
            rec("ite", r.val(), a*b+1 if a < b else a-b*b)
            def zbranch():
                B.assert_zero()
                return A + 1
            def nzbranch():
                B.assert_nonzero()
                return A * B
            r = if_then_else(PrivValBool(int(b == 0)), zbranch, nzbranch)
            rec("ite-assert", r.val(), a+1 if b == 0 else a*b)
            # nesting
            def inner():
                return if_then_else(PrivValBool(int(b > 0)), lambda: A*A, lambda: B*B*B)
            r = if_then_else(PrivValBool(int(a > 0)), inner, lambda: A+B)
            rec("ite-nest", r.val(), (a*a if b > 0 else b*b*b) if a > 0 else a+b)
            # guarded function whose guard is off: its (violated) assertion must be harmless
            g = PrivVal(int(a == b))
            @guarded(g)
            def insideguard():
                (A - B).assert_zero()
                return (A * B)
            rec("guarded", insideguard().val(), a*b)
    f = PrivValFxp(1.5) * PrivValFxp(-2.25) + PrivValFxp(0.5)
    rec("fxp", f.val(), 1.5*-2.25+0.5)
    rec("fxp-cmp", (PrivValFxp(1.5) < PrivValFxp(2.0)).val(), 1)
    rec("bits", [x.val() for x in PrivVal(1234).to_bits()], [(1234 >> i) & 1 for i in range(rt.bitlength)])
    out["n_good"] = rt.num_constraints
    # erroneous values under ignore_errors: same constraints as normal, no exception
    ignore_errors(True)
    PrivVal(70000).assert_range(0, 100)
    PrivVal(5).assert_zero()
    PrivVal(0).assert_nonzero()
    PrivVal(-3).assert_positive()
    PrivVal(3).assert_lt(PrivVal(2))
    ignore_errors(False)
    out["results_bad"] = [r for r in res if r[1] != r[2]]
    out["n_results"] = len(res)
    out["rt_constraints"] = rt.num_constraints

    if hasattr(be, "constraints") and hasattr(be, "privvals"):       # recording backends
        p = be.get_modulus()
        out["be_constraints"] = len(be.constraints) ; out["be_pub"] = len(be.pubvals); out["be_priv"] = len(be.privvals)
        # (the little computation of the selection check above is counted by both, so indices agree)
        bad = []
        for i, (v, w, y) in enumerate(be.constraints[:out["n_good"]]):
            if (lcval(v, be.pubvals, be.privvals, p) * lcval(w, be.pubvals, be.privvals, p) - lcval(y, be.pubvals, be.privvals, p)) % p:
                bad.append(i)
        out["violated"] = bad[:5]
        nviol = 0
        for (v, w, y) in be.constraints[out["n_good"]:]:
            if (lcval(v, be.pubvals, be.privvals, p) * lcval(w, be.pubvals, be.privvals, p) - lcval(y, be.pubvals, be.privvals, p)) % p:
                nviol += 1
        out["violated_in_error_part"] = nviol
    for cnt in ["num_constraints", "num_pubvals", "num_privvals"]:
        out["nb_" + cnt] = getattr(be, cnt, None)                    # dummy backend with counters

    before = sorted(os.listdir("."))
    if rt.backend_name in ("snarkjs", "nobackend"):
        old = sys.stderr; sys.stderr = io.StringIO()
        try: rt.autoprove = True; rt.final(); rt.autoprove = False
        finally: msg = sys.stderr.getvalue(); sys.stderr = old
        out["prove_msg"] = msg
        out["new_files"] = sorted(set(os.listdir(".")) - set(before))
        if rt.backend_name == "snarkjs":
            w = open("witness.wtns", "rb").read()
            le = lambda b: int.from_bytes(b, "little")
            out["wtns_modulus"] = le(w[28:60]); out["wtns_n"] = le(w[60:64])
            wit = [le(w[76+32*i:108+32*i]) for i in range(out["wtns_n"])]
            out["wtns_ok"] = wit == [1] + [x % be.get_modulus() for x in be.pubvals] + [x % be.get_modulus() for x in be.privvals]
            r = open("circuit.r1cs", "rb").read()
            out["r1cs_modulus"] = le(r[28:60]); out["r1cs_nvars"] = le(r[60:64]); out["r1cs_ncons"] = le(r[84:88])
done()
'''

failures = []
nchecks = [0]

def check(cond, what):
    nchecks[0] += 1
    if not cond:
        failures.append(what)
        print("FAIL:", what)

def run(cfg, env_value):
    """ Run one configuration in a fresh interpreter and an own empty directory """
    d = tempfile.mkdtemp(prefix="c19check-", dir=WORK)
    env = dict(os.environ)
    env.pop("PYSNARK_BACKEND", None)
    if env_value is not None: env["PYSNARK_BACKEND"] = env_value
    full = {"mode": "select", "pre": [], "stubfb": False, "ipy": False, "interface": INTERFACE}
    full.update(cfg)
    env["C19_CFG"] = json.dumps(full)
    pr = subprocess.run([sys.executable, "-c", CHILD], cwd=d, env=env, capture_output=True, text=True)
    res = None
    for line in pr.stdout.splitlines():
        if line.startswith("@@RESULT "): res = json.loads(line[9:])
    return pr, res

def main():
    pool = concurrent.futures.ThreadPoolExecutor(max_workers=min(8, os.cpu_count() or 2))

    # ---- what can be loaded here (oracle for "loadable", independent of the runtime) ----
    loadable = {}
    futs = {}
    for stub in (False, True):
        for n, m in TABLE:
            futs[(stub, n)] = pool.submit(run, {"mode": "probe", "module": m, "stubfb": stub}, None)
    for (stub, n), f in futs.items():
        pr, res = f.result()
        loadable[(stub, n)] = bool(res and res["ok"])
    for stub in (False, True):
        print("loadable (flatbuffers %s):" % ("stubbed" if stub else "absent"), [n for n, _ in TABLE if loadable[(stub, n)]])
    check(loadable[(False, "nobackend")] and loadable[(False, "snarkjs")], "nobackend and snarkjs can be loaded")
    check(all(loadable[(True, n)] for n in ("zkinterface", "zkifbellman", "zkifbulletproofs")), "zkinterface family loads with a flatbuffers stub")

    def first_loadable(stub):
        for n, _ in TABLE:
            if loadable[(stub, n)]: return n

    # ---- part 1: selection ----
    pres = [[], ["pysnark.nobackend"], ["pysnark.snarkjsbackend"],
            ["pysnark.nobackend", "pysnark.snarkjsbackend"], ["pysnark.snarkjsbackend", "pysnark.nobackend"]]
    envs = [None] + [n for n, _ in TABLE] + UNKNOWN
    jobs = []
    for stub in (False, True):
        for ipy in (False, True):
            for pre in pres + ([["pysnark.zkinterface.backend"], ["pysnark.nobackend", "pysnark.zkinterface.backend"]] if stub else []):
                if ipy and pre: continue
                for e in envs:
                    jobs.append((stub, ipy, pre, e, pool.submit(run, {"pre": pre, "stubfb": stub, "ipy": ipy}, e)))
    for stub, ipy, pre, e, f in jobs:
        pr, res = f.result()
        tag = "[env=%r pre=%s flatbuffers=%s ipython=%s]" % (e, [p.split(".", 1)[1] for p in pre], "stub" if stub else "absent", ipy)
        known = e in MODOF
        if not pre and known and not loadable[(stub, e)]:
            # named, known, cannot be loaded: must fail loudly, not use something else
            check(res is None and pr.returncode != 0 and "Traceback" in pr.stderr,
                  tag + " named backend cannot be loaded: the import of the runtime must fail (got " + (res["name"] if res else "failure") + ")")
            continue
        if res is None:
            check(False, tag + " runtime could not be imported: " + pr.stderr.strip().splitlines()[-1:][0] if pr.stderr.strip() else tag + " no result")
            continue
        check(res["table"] == TABLE, tag + " table of backends is the documented one")
        # name <-> module <-> field, interface
        check(MODOF.get(res["name"]) == res["module"] and res["is_sysmod"],
              tag + " name %r stands for module %s, module in effect is %s" % (res["name"], MODOF.get(res["name"]), res["module"]))
        check(res["name"] not in FIELD or FIELD[res["name"]] == res["modulus"], tag + " field of %r is %d" % (res["name"], res["modulus"]))
        check(res["missing"] == [], tag + " backend %r lacks %s" % (res["name"], res["missing"]))
        check(res["lc_type_ok"], tag + " LinComb.ONE/ZERO are made of the backend's linear combinations")
        check(res["spy"] == {"c": 2, "p": 3, "q": 2} and res.get("mini_val") == -7,
              tag + " the module named by backend_name receives wires and constraints: " + str(res["spy"]))
        # which one?
        if pre:
            want = [n for n, m in TABLE if m in pre][0]
            check(res["module"] in pre, tag + " a pre-imported backend is used (got %s)" % res["module"])
            check(res["name"] == want, tag + " pre-imported backend %s expected, got %s" % (want, res["name"]))
        elif known:
            check(res["name"] == e, tag + " named backend expected, got " + res["name"])
            check("unknown backend" not in pr.stdout, tag + " known backend reported as unknown")
        else:
            want = "nobackend" if ipy else first_loadable(stub)
            check(res["name"] == want, tag + " auto-detection should give %s, got %s" % (want, res["name"]))
            if e is not None:
                lines = pr.stdout.splitlines()
                rep = [i for i, l in enumerate(lines) if "unknown backend" in l and l.rstrip("\n").endswith(e)]
                oth = [i for i, l in enumerate(lines) if "Error loading backend" in l]
                check(len(rep) == 1, tag + " unknown name must be reported (once)")
                check(not rep or not oth or rep[0] < min(oth), tag + " unknown name reported before falling back")
            else:
                check("unknown backend" not in pr.stdout, tag + " nothing named, nothing to report")
    print("part 1: %d configurations" % len(jobs))

    # ---- part 2: workload under every loadable backend ----
    works = {}
    jobs = [(n, pool.submit(run, {"mode": "work", "stubfb": True}, n)) for n, _ in TABLE if loadable[(True, n)]]
    jobs.append(("nobackend/pre", pool.submit(run, {"mode": "work", "stubfb": True, "pre": ["pysnark.nobackend"]}, "snarkjs")))
    jobs.append(("nobackend/ipy", pool.submit(run, {"mode": "work", "stubfb": False, "ipy": True}, None)))
    jobs.append(("snarkjs/auto", pool.submit(run, {"mode": "work", "stubfb": False}, "nonsense")))
    for n, f in jobs:
        pr, res = f.result()
        tag = "[workload under %s]" % n
        if res is None or "n_results" not in res:
            check(False, tag + " failed: " + pr.stderr[-400:]); continue
        works[n] = res
        want = n.split("/")[0]
        if n == "snarkjs/auto": want = first_loadable(False)
        check(res["name"] == want and res["module"] == MODOF[want], tag + " runs on %s (%s)" % (res["name"], res["module"]))
        check(res["modulus"] == FIELD.get(want, res["modulus"]), tag + " field")
        check(res["results_bad"] == [], tag + " values differ from plain Python: " + str(res["results_bad"][:3]))
        check(res["n_results"] > 1000, tag + " enough cases")
        if "be_constraints" in res:
            check(res["be_constraints"] == res["rt_constraints"], tag + " every constraint of the runtime reached the named module")
            check(res["violated"] == [], tag + " constraints not satisfied by the recorded witness: " + str(res["violated"]))
            check(res["violated_in_error_part"] > 0, tag + " erroneous values under ignore_errors do give unsatisfied constraints")
        if res["nb_num_constraints"] is not None:
            check(res["nb_num_constraints"] == res["rt_constraints"], tag + " dummy backend was given every constraint")
        if want == "snarkjs":
            check(res["wtns_modulus"] == BN254 == res["r1cs_modulus"] == res["modulus"], tag + " files are written in the reported field")
            check(res["wtns_ok"] and res["wtns_n"] == 1 + res["be_pub"] + res["be_priv"] == res["r1cs_nvars"], tag + " witness file is the recorded witness")
            check(res["r1cs_ncons"] == res["rt_constraints"], tag + " r1cs file has all constraints")
            check(res["new_files"] == ["circuit.r1cs", "witness.wtns"], tag + " files written: " + str(res["new_files"]))
        if want == "nobackend":
            check(res["new_files"] == [], tag + " dummy backend writes no files")
            if res["nb_num_constraints"] is not None:
                m = res["prove_msg"]
                check(m.count("\n") == 1 and "nobackend" in m and
                      [int(t) for t in m.replace(",", " ").split() if t.isdigit()] == [res["nb_num_constraints"], res["nb_num_pubvals"], res["nb_num_privvals"]],
                      tag + " summary of prove(): " + repr(m))
    # the dummy backend is told exactly what the recording backends are told
    ref = works.get("snarkjs")
    for n, res in works.items():
        if ref is None: break
        check(res["rt_constraints"] == ref["rt_constraints"] and res["n_good"] == ref["n_good"], "[workload] %s: same number of constraints as snarkjs" % n)
        if res["nb_num_constraints"] is not None:
            check([res["nb_num_constraints"], res["nb_num_pubvals"], res["nb_num_privvals"]] == [ref["be_constraints"], ref["be_pub"], ref["be_priv"]],
                  "[workload] %s: dummy backend counted %s, snarkjs recorded %s" % (n, [res["nb_num_constraints"], res["nb_num_pubvals"], res["nb_num_privvals"]], [ref["be_constraints"], ref["be_pub"], ref["be_priv"]]))
        elif "be_constraints" in res:
            check([res["be_constraints"], res["be_pub"], res["be_priv"]] == [ref["be_constraints"], ref["be_pub"], ref["be_priv"]], "[workload] %s: same wires as snarkjs" % n)
    print("part 2: %d workloads" % len(works))

try:
    WORK = tempfile.mkdtemp(prefix="c19check-", dir=os.getcwd())
except OSError:
    WORK = tempfile.mkdtemp(prefix="r8-C19-")
try:
    main()
finally:
    shutil.rmtree(WORK, ignore_errors=True)

print("%d checks, %d failures" % (nchecks[0], len(failures)))
if failures:
    print("PROPERTY C19 VIOLATED")
    sys.exit(1)
print("property C19 held in all cases")
