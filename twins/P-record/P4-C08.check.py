# Evidence program for change P (add_guard: a public 0 opens a dead region).
#
#   PYTHONPATH=<tree> /venv/bin/python P.check.py        (from an empty directory)
#
# Checks property C08 itself on thousands of random programs made of nested
# guarded regions (entered through guarded(), add_guard/restore_guard and the
# lazy branches of if_then_else; conditions are private 0/1 wires, public wires,
# the public constants 0 and 1 and the constant zero wire), left normally or by
# an exception raised at a random statement and caught at a random level:
#
#   * inside every region:  the guard's value and the value of its wire on the
#     recorded witness equal the conjunction of all enclosing conditions,
#     LinComb.ONE is the guard (constants are multiples of it), and
#     ignore_errors() is "user flag or some enclosing condition is 0";
#   * after every region, on every exit path:  runtime.guard, ignore_errors()
#     and LinComb.ONE are the very objects / values they were before;
#   * a failed add_guard (bad value / bad type) leaves the state untouched;
#   * every constraint emitted is satisfied by the recorded witness (whenever
#     the user did not switch error suppression on globally), so dead regions
#     really are vacuous and live ones really are enforced;
#   * lazy if_then_else returns the value plain Python would select.
#
# Exit status 0 iff everything held.

import os, sys, random

os.environ["PYSNARK_BACKEND"] = "snarkjs"

import pysnark.runtime as rt
from pysnark.runtime import (LinComb, PrivVal, PubVal, ConstVal, add_guard,
                             restore_guard, guarded, ignore_errors)
from pysnark.boolean import LinCombBool, PrivValBool
from pysnark.branching import if_then_else
import pysnark.snarkjsbackend as be

rt.autoprove = False
P = be.snarkjsp

failures = []
def fail(msg):
    failures.append(msg)
    if len(failures) <= 20:
        print("VIOLATION:", msg)

def ev(lc):
    """value of a backend linear combination on the recorded witness"""
    tot = 0
    for k, c in lc.lc.items():
        if k == 0: v = 1
        elif k > 0: v = be.pubvals[k-1]
        else: v = be.privvals[-k-1]
        tot += c*v
    return tot % P

checked_upto = 0
def check_constraints(tag, expect_sat=True):
    global checked_upto
    bad = 0
    for (v, w, y) in be.constraints[checked_upto:]:
        if (ev(v)*ev(w) - ev(y)) % P != 0:
            bad += 1
    n = len(be.constraints) - checked_upto
    checked_upto = len(be.constraints)
    if bad and expect_sat:
        fail("%s: %d of %d emitted constraints are not satisfied by the witness" % (tag, bad, n))
    return n

def state():
    return (rt.guard, ignore_errors(), LinComb.ONE)

def same_state(a, b):
    return a[0] is b[0] and a[1] == b[1] and a[2] is b[2]

def show(st):
    return "(guard=%r, ignore_errors=%r, ONE=%r%s)" % (st[0], st[1], st[2], " [ONE_SAFE]" if st[2] is LinComb.ONE_SAFE else "")

# does this tree accept a public 0?
try:
    _b = add_guard(0)
    restore_guard(_b)
    PUBLIC_ZERO = True
except RuntimeError as e:
    PUBLIC_ZERO = False
    print("note: add_guard(0) raises %r on this tree; public-0 regions are left out" % (e,))
if not same_state(state(), (None, False, LinComb.ONE_SAFE)):
    fail("state after probing add_guard(0): " + show(state()))

class Boom(Exception):
    pass

# ---------------------------------------------------------------------------
# random programs

class Ctx:
    def __init__(self, rng, user_flag):
        self.rng = rng
        self.user_flag = user_flag
        self.conds = []          # values of the enclosing conditions (0/1)
        self.nregions = 0
        self.nexc = 0

def expected_inside(ctx, top_guard_none):
    """what the state must look like inside the current region"""
    st = state()
    g = st[0]
    conj = 1
    for c in ctx.conds: conj *= c
    tag = "conds=%r user_flag=%r" % (ctx.conds, ctx.user_flag)
    if g is None:
        # only possible if every enclosing condition was the public constant 1
        if not top_guard_none:
            fail(tag + ": guard is None inside a region with a non-constant condition")
        if st[2] is not LinComb.ONE_SAFE:
            fail(tag + ": no guard, but LinComb.ONE is not the constant one")
    else:
        if g.value != conj:
            fail(tag + ": guard value %r is not the conjunction %r" % (g.value, conj))
        if ev(g.lc) != conj:
            fail(tag + ": guard wire evaluates to %r, conjunction is %r" % (ev(g.lc), conj))
        if st[2] is not g:
            fail(tag + ": LinComb.ONE is not the active guard")
        k = LinComb._ensurelc(7)
        if k.value != 7*conj or ev(k.lc) != 7*conj:
            fail(tag + ": constant 7 means %r / wire %r, expected %r" % (k.value, ev(k.lc), 7*conj))
    exp_ign = ctx.user_flag or (0 in ctx.conds)
    if bool(st[1]) != bool(exp_ign):
        fail(tag + ": ignore_errors() is %r, expected %r" % (st[1], exp_ign))

def do_op(ctx):
    """an operation that emits constraints; may legitimately raise in a live region"""
    rng = ctx.rng
    k = rng.randrange(9)
    a = PrivVal(rng.choice([-5, -1, 0, 0, 1, 2, 3, 7, 40000, 70000]))
    b = PrivVal(rng.choice([-2, 0, 1, 1, 2, 3, 9]))
    if k == 0: a.assert_zero()
    elif k == 1: (a*b).assert_zero()
    elif k == 2: a.assert_nonzero()
    elif k == 3: a.assert_eq(b)
    elif k == 4: a.assert_positive()
    elif k == 5:
        if b.value != 0: a/b
    elif k == 6: a.assert_lt(3)
    elif k == 7: a.to_bits()
    elif k == 8: LinCombBool(b)
    return a

LIB_ERRORS = (AssertionError, ValueError)

def make_cond(ctx, allow_public):
    """returns (argument for add_guard, value)"""
    rng = ctx.rng
    kinds = ["priv", "priv", "priv", "pub"]
    if allow_public:
        kinds += ["one", "zerowire"]
        if PUBLIC_ZERO: kinds += ["zero", "zero", "false"]
    kind = rng.choice(kinds)
    if kind == "priv":
        v = rng.randrange(2); return PrivVal(v), v, kind
    if kind == "pub":
        v = rng.randrange(2); return PubVal(v), v, kind
    if kind == "one": return rng.choice([1, True]), 1, kind
    if kind == "zero": return 0, 0, kind
    if kind == "false": return False, 0, kind
    if kind == "zerowire": return LinComb.ZERO, 0, kind

def body(ctx, depth, all_public_one):
    """statements of a region; may raise Boom or a library error"""
    rng = ctx.rng
    expected_inside(ctx, all_public_one)
    for _ in range(rng.randrange(4)):
        r = rng.random()
        if r < 0.40:
            do_op(ctx)
        elif r < 0.80 and depth < 4:
            region(ctx, depth+1, all_public_one)
            expected_inside(ctx, all_public_one)
        elif r < 0.90:
            raise Boom()
        else:
            expected_inside(ctx, all_public_one)
    return PrivVal(rng.randrange(100))

def region(ctx, depth, all_public_one):
    rng = ctx.rng
    style = rng.choice(["guarded", "manual", "lazy", "lazy"])
    before = state()
    nconstr = rt.num_constraints
    ctx.nregions += 1
    catch = rng.random() < 0.5
    try:
        if style == "lazy":
            v = rng.randrange(2)
            c = PrivValBool(v)
            res = {}
            def then_():
                ctx.conds.append(v)
                try: res["t"] = body(ctx, depth, False)
                finally: ctx.conds.pop()
                return res["t"]
            def else_():
                ctx.conds.append(1-v)
                try: res["e"] = body(ctx, depth, False)
                finally: ctx.conds.pop()
                return res["e"]
            which = rng.randrange(3)
            if which == 0:
                out = if_then_else(c, then_, else_)
            elif which == 1:
                res["e"] = PrivVal(rng.randrange(50))
                out = if_then_else(c, then_, res["e"])
            else:
                res["t"] = PrivVal(rng.randrange(50))
                out = if_then_else(c, res["t"], else_)
            want = res["t"].value if v else res["e"].value
            if out.value != want or ev(out.lc) != want % P:
                fail("lazy if_then_else selected %r / wire %r, plain Python selects %r" % (out.value, ev(out.lc), want))
        else:
            cond, v, kind = make_cond(ctx, True)
            apo = all_public_one and kind == "one"
            if kind in ("zero", "false") or (kind != "one" and before[0] is LinComb.ZERO and PUBLIC_ZERO):
                free = True      # entering must not cost constraints
            else:
                free = False
            def run():
                if free and rt.num_constraints != nconstr:
                    fail("entering a publicly dead region emitted constraints")
                ctx.conds.append(v)
                try: return body(ctx, depth, apo)
                finally: ctx.conds.pop()
            if style == "guarded":
                guarded(cond)(run)()
            else:
                bak = add_guard(cond)
                try: run()
                finally: restore_guard(bak)
    except (Boom,) + LIB_ERRORS as e:
        ctx.nexc += 1
        after = state()
        if not same_state(before, after):
            fail("after a region (%s) aborted by %s: state %s, before it was %s" % (style, type(e).__name__, show(after), show(before)))
        if not catch: raise
    else:
        after = state()
        if not same_state(before, after):
            fail("after a region (%s) returned: state %s, before it was %s" % (style, show(after), show(before)))

def scenario(seed):
    rng = random.Random(seed)
    user_flag = rng.random() < 0.25
    ignore_errors(user_flag)
    ctx = Ctx(rng, user_flag)
    top = state()
    try:
        for _ in range(rng.randrange(1, 4)):
            region(ctx, 1, True)
            if rng.random() < 0.3:
                try: do_op(ctx)
                except LIB_ERRORS: pass
    except (Boom,) + LIB_ERRORS:
        pass
    if not same_state(top, state()):
        fail("seed %d: top-level state changed: %s -> %s" % (seed, show(top), show(state())))
    check_constraints("seed %d (conditions random, user flag %r)" % (seed, user_flag), expect_sat=not user_flag)
    ignore_errors(False)
    return ctx

# ---------------------------------------------------------------------------
# 1. random programs
tot_regions = tot_exc = 0
for seed in range(3000):
    c = scenario(seed)
    tot_regions += c.nregions; tot_exc += c.nexc
    if not same_state(state(), (None, False, LinComb.ONE_SAFE)):
        fail("seed %d left the global state at %s" % (seed, show(state())))
        rt.guard = None; LinComb.ONE = LinComb.ONE_SAFE; ignore_errors(False)
print("random programs: 3000 scenarios, %d regions, %d exits by exception, %d constraints evaluated"
      % (tot_regions, tot_exc, checked_upto))

# ---------------------------------------------------------------------------
# 2. failed entries leave the state untouched (at top level and nested)
def failed_entries():
    for bad in [2, -1, 5, "x", None, 1.0, PrivVal(2), PrivVal(-1), [1]]:
        st = state()
        try:
            add_guard(bad)
        except (RuntimeError, TypeError):
            pass
        else:
            fail("add_guard(%r) was accepted" % (bad,))
            continue
        if not same_state(st, state()):
            fail("failed add_guard(%r) changed the state to %s (was %s)" % (bad, show(state()), show(st)))
failed_entries()
guarded(PrivVal(1))(failed_entries)()
if PUBLIC_ZERO:
    # in a dead region errors are suppressed, so wrong wire values are let through
    # as everywhere else; wrong constants and wrong types are still refused
    def in_dead():
        for bad in [2, -1, "x", None]:
            st = state()
            try: add_guard(bad)
            except (RuntimeError, TypeError): pass
            else: fail("add_guard(%r) accepted in a dead region" % (bad,))
            if not same_state(st, state()): fail("failed add_guard(%r) changed the state in a dead region" % (bad,))
    guarded(0)(in_dead)()
check_constraints("failed entries")

# ---------------------------------------------------------------------------
# 3. brute force over small witnesses: a public 0 anywhere in the nest makes the
#    region vacuous for EVERY witness, and it nests as a conjunction with
#    private conditions on either side
if PUBLIC_ZERO:
    count = 0
    for g in (None, 0, 1):
        for h in (None, 0, 1):
            for x in range(-3, 4):
                for where in ("outer", "middle", "inner"):
                    seen = {}
                    def inner():
                        seen["guard"] = rt.guard
                        seen["ign"] = ignore_errors()
                        seen["one"] = LinComb.ONE
                        PrivVal(x).assert_zero()
                        (PrivVal(x)*PrivVal(x)).assert_eq(1)
                        LinComb._ensurelc(3).assert_eq(PrivVal(x))
                    conds = []
                    if g is not None: conds.append(PrivVal(g))
                    if h is not None: conds.append(PrivVal(h))
                    pos = {"outer": 0, "middle": len(conds)//2, "inner": len(conds)}[where]
                    conds.insert(pos, 0)
                    fn = inner
                    for cnd in reversed(conds):
                        fn = guarded(cnd)(fn)
                    st = state()
                    try:
                        fn()
                    except Exception as e:
                        fail("brute force g=%r h=%r x=%r public 0 %s: raised %r in a dead region" % (g, h, x, where, e))
                    if not same_state(st, state()):
                        fail("brute force g=%r h=%r x=%r: state not restored" % (g, h, x))
                    if seen:
                        if seen["guard"] is None or seen["guard"].value != 0 or ev(seen["guard"].lc) != 0:
                            fail("brute force: effective guard under a public 0 is %r" % (seen["guard"],))
                        if seen["one"] is not seen["guard"]: fail("brute force: ONE is not the guard under a public 0")
                        if not seen["ign"]: fail("brute force: errors not suppressed under a public 0")
                    check_constraints("brute force g=%r h=%r x=%r public 0 %s" % (g, h, x, where))
                    count += 1
    # an exception inside a public-0 region, through two levels
    st = state()
    def thrower(): raise Boom()
    try: guarded(PrivVal(1))(guarded(0)(guarded(PrivVal(1))(thrower)))()
    except Boom: pass
    if not same_state(st, state()): fail("exception through a public-0 region: state not restored")
    # lazy branches evaluated inside a public-0 region
    def lazy_in_dead():
        r = if_then_else(PrivValBool(1), lambda: PrivVal(5)/PrivVal(1), lambda: PrivVal(6))
        inside = state()
        return r, inside
    st = state()
    r, inside = guarded(0)(lazy_in_dead)()
    if not same_state(st, state()): fail("lazy branch in a public-0 region: state not restored")
    if inside[0] is not LinComb.ZERO or not inside[1]: fail("lazy branch in a public-0 region did not give the region's state back")
    check_constraints("lazy in dead")
    print("brute force: %d nests with a public 0, all vacuous and restored" % count)

if failures:
    print("FAILED: %d violation(s) of C08" % len(failures))
    sys.exit(1)
print("OK: guard state restored on every exit path, guards nest as conjunctions, all constraints satisfied")
sys.exit(0)
