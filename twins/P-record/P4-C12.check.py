#!/usr/bin/env python
"""
Evidence program for property C12 (qaptools equation / wire / I-O files are consistent and split faithfully).

    PYTHONPATH=<tree> /venv/bin/python P.check.py

Every scenario below is traced by a child process with the qaptools backend (the qaptools executables are replaced
by stubs that do nothing: only the files PySNARK itself writes are looked at).  The child records what the program did
(public values made, sub-circuit calls with the number of LinComb arguments and results, the caller of each call), runs
qapsplit and stores what it returned or the ValueError it raised.  The parent then decodes pysnark_eqs, pysnark_wires,
pysnark_values, pysnark_schedule and the per-function pysnark_eqs_<fn> files and checks the property itself:

  (1) every equation holds modulo the prime on the values in the wire and I/O files; every wire is written once; every
      public value is in the I/O file and tied to a wire with the same value by an equality;
  (2) every traced equation has all its variables in one context, and is found in the file of the function of that
      context; all calls of a function have the same description as the file, or qapsplit raised ValueError naming the
      function; if qapsplit raised, there really are two calls that differ (and the message names lines that differ);
      equal signatures (over all scenarios) mean equal descriptions;
  (3) every sub-circuit call is tied to its caller by one glue line between two blocks with as many wires as the call has
      LinComb arguments and results, in the right contexts, the callee side starting with the argument copies, with
      pairwise equal values.

Exit status 0 when all of this held in all scenarios.
"""

import collections
import json
import os
import shutil
import subprocess
import sys
import tempfile

P = 21888242871839275222246405745257275088548364400416034343698204186575808495617

TOOLS = ["qapgen", "qapgenf", "qapinput", "qapprove", "qapver", "qapcoeffcache"]


# ----------------------------------------------------------------------------------------------------------------------
# child: trace one scenario
# ----------------------------------------------------------------------------------------------------------------------

def child(name):
    import pysnark.runtime as rt
    from pysnark.runtime import PrivVal, PubVal, LinComb
    import pysnark.qaptools.backend as be
    import pysnark.qaptools.qapsplit as qs

    assert rt.backend is be, "qaptools backend not selected"

    meta = {"calls": [], "pubs": [], "split": None, "prove": False}
    stack = [-1]

    orig_pubval = be.pubval
    def pubval(val):
        ret = orig_pubval(val)
        meta["pubs"].append([be.vc_ctx, str(val)])
        return ret
    be.pubval = pubval

    def count(struct):
        if isinstance(struct, (list, tuple)): return sum(count(x) for x in struct)
        return 1 if isinstance(struct, LinComb) else 0

    def sub(fname):
        def deco(fn):
            def inner(*args):
                rec = {"fn": fname, "nargs": count(args), "nres": None, "parent": stack[-1]}
                meta["calls"].append(rec)
                stack.append(len(meta["calls"]) - 1)
                try:
                    ret = fn(*args)
                finally:
                    stack.pop()
                rec["nres"] = count(ret)
                return ret
            return be.subqap(fname)(inner)
        return deco

    big = [0, 1, -1, -3, 7, 2**200 + 5, P - 1, P + 5, -(P + 2), -2**130]

    # ---- scenarios -------------------------------------------------------------------------------------------------

    def s_simple():
        @sub("sq")
        def sq(a, b): return a*b, a+b
        x = PrivVal(-3); y = PubVal(5)
        r, s = sq(x, y)
        r2, s2 = sq(r, x)
        (r2 + s2).val()

    def s_values():
        @sub("mad")
        def mad(a, b, c): return a*b + c
        acc = PrivVal(1)
        for v in big:
            acc = mad(PrivVal(v), PubVal(-v), acc)
        acc.val()

    def s_nested():
        @sub("inner")
        def inner(a, b):
            c = a*b
            return c + 1
        @sub("outer")
        def outer(a, b):
            u = inner(a, b)
            v = inner(u, a)
            return [u, (v, u*v)]
        x = PrivVal(2**100); y = PrivVal(-5)
        u, (v, w) = outer(x, y)
        u2, (v2, w2) = outer(v, w)
        inner(u2, w2).val()

    def s_deep():
        @sub("l3")
        def l3(a): return a*a
        @sub("l2")
        def l2(a): return l3(a) + l3(a + 1)
        @sub("l1")
        def l1(a): return l2(a) * l2(a*2)
        l1(PrivVal(3)).val()
        l1(PrivVal(-4)).val()

    def s_shapes():
        @sub("same")
        def same(a, b): return a*b            # called as same(x, x)
        @sub("retarg")
        def retarg(a, b): return a, a*b       # returns its own argument
        @sub("twice")
        def twice(a): r = a*a; return r, r, [r]
        @sub("lin")
        def lin(a, b): return 2*a + 3*b, a - b   # results that are no single wires
        @sub("mixed")
        def mixed(a, k, lst): return [a*k + lst[0], (lst[1]*a,)], k
        x = PrivVal(6); y = PrivVal(-7)
        for rep in range(2):
            a = same(x, x)
            b, c = retarg(a, y)
            d, e, [f] = twice(b)
            g, h = lin(c + d, 5*e - f)       # arguments that are no single wires
            [i, (j,)], k = mixed(g, 3, [h, x])
            assert k == 3
            x, y = i, j
        x.val(); y.val()

    def s_noargs():
        @sub("konst")
        def konst(k): return PrivVal(k) * PrivVal(k)
        @sub("check")
        def check(a, b): (a*a).assert_eq(b)      # no results
        a = konst(5); b = konst(5)
        check(PrivVal(-5), a); check(PrivVal(5), b)

    def s_pubinside():
        @sub("outp")
        def outp(a):
            b = PubVal(11)
            c = a*b
            c.val()
            return c
        r = outp(PrivVal(3))
        s = outp(r)
        s.val()

    def s_ops():
        @sub("ops")
        def ops(a, b):
            lt = a < b
            m = rt.if_then_else(lt, a, b) if hasattr(rt, "if_then_else") else lt.if_else(a, b)
            q = (a & b) + (a | b) + (a ^ b)
            bits = a.to_bits()
            return m, q, LinComb.from_bits(bits) if hasattr(LinComb, "from_bits") else a
        x = PrivVal(12); y = PrivVal(200)
        m, q, z = ops(x, y)
        m2, q2, z2 = ops(y, x)
        m.val(); q2.val(); z.assert_eq(x)

    def s_guard():
        @sub("g")
        def g(a): return a*a + 1
        x = PrivVal(3); zero = PrivVal(0); one = PrivVal(1)
        y = g(x)
        for cond in (zero, one):
            bak = rt.add_guard(cond)
            try:
                t = x*y
                if cond.value == 0: t.assert_eq(12345)      # fails, under a guard that is off
                else: t.assert_eq(30)
                (x + 1).assert_nonzero()
            finally:
                rt.restore_guard(bak)
        z = g(y)
        z.val()

    def s_blocks():
        from pysnark.qaptools.backend import exportcomm, importcomm
        x = PrivVal(-9); y = PrivVal(2**90)
        exportcomm([x, y, 2*x + y, 4], "blk")
        vals = importcomm("blk")
        (vals[0] - x).assert_zero()
        (vals[2] - 2*x - y).assert_zero()
        @sub("imp")
        def imp(a): return a*a
        imp(vals[1]).val()

    def s_loop():
        @sub("step")
        def step(acc, x): return acc*x + acc, x + 1
        acc = PrivVal(1); x = PrivVal(-2)
        for i in range(12):
            acc, x = step(acc, x)
        acc.val()

    # inconsistent functions: must be reported
    def s_bad_branch():
        @sub("br")
        def br(a, k):
            if k == 2: return a*a
            return a*a*a
        x = PrivVal(3)
        br(x, 2); br(x, 2); br(x, 3)

    def s_bad_coef():
        @sub("cf")
        def cf(a, k):
            r = PrivVal(a.value * a.value * k)
            rt.add_constraint(a*k, a, r)
            return r
        x = PrivVal(3)
        cf(x, 5); cf(x, 7)

    def s_bad_data():
        @sub("dd")
        def dd(a):
            if a.value < 0: return a*a      # branching on witness data
            return a + 0
        dd(PrivVal(4)); dd(PrivVal(-4))

    def s_bad_args():
        @sub("va")
        def va(*a): return sum(a[1:], a[0])
        x = PrivVal(3)
        va(x, x); va(x, x, x)

    def s_bad_nested():
        @sub("leaf")
        def leaf(a, k): return a*a if k else a*a*a
        @sub("mid")
        def mid(a, k): return leaf(a, k) + 1
        x = PrivVal(2)
        mid(x, True); mid(x, True); mid(x, False)

    def s_bad_pub():
        @sub("po")
        def po(a, k):
            if k: a.val()
            return a*a
        po(PrivVal(2), False); po(PrivVal(2), True)

    def s_prove():
        meta["prove"] = True
        s_nested()

    scenarios = dict((k[2:], v) for (k, v) in locals().items() if k.startswith("s_"))
    if name == "--list":
        print(" ".join(scenarios))
        return

    rt.autoprove = False
    scenarios[name]()
    be.qape.flush()

    if meta["prove"]:
        be.prove()
    else:
        try:
            qaplens, blklen, extlen, sigs = qs.qapsplit()
            meta["split"] = {"ok": True, "qaplens": qaplens, "sigs": sigs}
        except ValueError as e:
            meta["split"] = {"ok": False, "error": str(e)}

    json.dump(meta, open("meta.json", "w"))


# ----------------------------------------------------------------------------------------------------------------------
# parent: decode the files and check the property
# ----------------------------------------------------------------------------------------------------------------------

class Violation(Exception): pass

def need(cond, *msg):
    if not cond: raise Violation(" ".join(str(m) for m in msg))

def parse_eq(line):
    """ 'terms * terms = terms [.]' -> (v, w, y), each a tuple of (coefficient, wire) """
    toks = line.split()
    need(toks.count("*") == 1 and toks.count("=") == 1, "malformed equation:", line)
    i, j = toks.index("*"), toks.index("=")
    need(i < j, "malformed equation:", line)
    if toks[-1] == ".": toks = toks[:-1]
    def terms(ts):
        need(len(ts) % 2 == 0, "malformed terms in:", line)
        return tuple((int(ts[k]), ts[k+1]) for k in range(0, len(ts), 2))
    return terms(toks[:i]), terms(toks[i+1:j]), terms(toks[j+1:])

def ctx_of(wire):
    l, m, r = wire.partition("/")
    need(m == "/", "wire without context:", wire)
    return l, r

def read_values(fn):
    vals = collections.OrderedDict()
    for ln in open(fn):
        ln = ln.strip()
        if ln == "" or ln[0] == "#": continue
        nm, _, v = ln.partition(":")
        need(nm not in vals, "wire written twice:", nm, "in", fn)
        vals[nm] = int(v)
    return vals

def check_run(rundir, report):
    meta = json.load(open(os.path.join(rundir, "meta.json")))
    f = lambda nm: os.path.join(rundir, nm)

    wires = read_values(f("pysnark_wires"))
    ios = read_values(f("pysnark_values"))
    for nm in ios: need(nm not in wires, "i/o wire also in wire file:", nm)

    functions = []                 # (fname, call) in order
    blocks = {}                    # (ctx, bn) -> wires
    glues = []
    externals = []
    eqs = []                       # (ctx, (v, w, y) without contexts, line)
    for ln in open(f("pysnark_eqs")):
        ln = ln.strip()
        if ln == "" or ln[0] == "#": continue
        toks = ln.split()
        if toks[0] == "[function]":
            need(len(toks) == 3, "malformed:", ln)
            need(toks[2] not in [c for (_, c) in functions], "call name used twice:", toks[2])
            functions.append((toks[1], toks[2]))
        elif toks[0] == "[ioblock]":
            need((toks[1], toks[2]) not in blocks, "block declared twice:", ln)
            blocks[(toks[1], toks[2])] = toks[3:]
        elif toks[0] == "[glue]":
            need(len(toks) == 5, "malformed:", ln)
            glues.append(tuple(toks[1:]))
        elif toks[0] == "[external]":
            externals.append(tuple(toks[1:]))
        else:
            v, w, y = parse_eq(ln)
            ctxs = set(ctx_of(nm)[0] for part in (v, w, y) for (_, nm) in part)
            need(len(ctxs) == 1, "equation over several contexts:", ln)
            strip = lambda part: tuple((c, ctx_of(nm)[1]) for (c, nm) in part)
            eqs.append((ctxs.pop(), (strip(v), strip(w), strip(y)), ln))

    calls = dict((c, fn) for (fn, c) in functions)
    need(functions and functions[0] == ("main", "main"), "first function is not main")

    # (1) equations hold on the files
    def value(nm):
        if nm in wires: return wires[nm]
        if nm in ios: return ios[nm]
        if ctx_of(nm)[1] == "one": return 1
        raise Violation("no value for wire " + nm)
    def ev(ctx, part): return sum(c * value(ctx + "/" + nm) for (c, nm) in part) % P
    for (ctx, (v, w, y), ln) in eqs:
        need(ctx in calls, "equation in unknown context:", ln)
        need((ev(ctx, v) * ev(ctx, w) - ev(ctx, y)) % P == 0, "equation does not hold on the wire values:", ln)
    report["eqs"] += len(eqs)

    # (1) public values
    need(len(ios) == len(meta["pubs"]), "i/o file has", len(ios), "values, program made", len(meta["pubs"]))
    perctx = collections.Counter()
    for (ctx, val) in meta["pubs"]:
        perctx[ctx] += 1
        onm = "o_" + str(perctx[ctx])
        need(ctx + "/" + onm in ios, "public value missing in i/o file:", ctx + "/" + onm)
        need((ios[ctx + "/" + onm] - int(val)) % P == 0, "wrong public value in i/o file:", ctx + "/" + onm)
        ties = [e for e in eqs if e[0] == ctx and e[1][0] == () and e[1][1] == () and len(e[1][2]) == 2 and
                sorted(c % P for (c, _) in e[1][2]) == [1, P - 1] and onm in [nm for (_, nm) in e[1][2]]]
        need(len(ties) >= 1, "public value not tied to a wire:", ctx + "/" + onm)
        other = [nm for (_, nm) in ties[0][1][2] if nm != onm][0]
        need(ctx + "/" + other in wires, "public value tied to something that is no wire:", other)
        need((wires[ctx + "/" + other] - int(val)) % P == 0, "public value tied to a wire with another value")
    report["pubs"] += len(ios)

    # (3) calls are glued to their callers
    need(len(functions) == 1 + len(meta["calls"]), "number of [function] lines", len(functions), "<> calls made + 1")
    callname = ["main"]
    for (i, rec) in enumerate(meta["calls"]):
        fn, call = functions[i + 1]
        need(fn == rec["fn"], "function lines out of order:", fn, rec["fn"])
        callname.append(call)
    for (i, rec) in enumerate(meta["calls"]):
        call = callname[i + 1]; caller = callname[rec["parent"] + 1]
        n = rec["nargs"] + rec["nres"]
        mine = [g for g in glues if g[2] == call]
        need(len(mine) == 1, "call", call, "has", len(mine), "glue lines as callee")
        (c1, b1, c2, b2) = mine[0]
        need(c1 == caller, "call", call, "glued to", c1, "instead of its caller", caller)
        need((c1, b1) in blocks and (c2, b2) in blocks, "glue between undeclared blocks:", mine[0])
        blk1 = blocks[(c1, b1)]; blk2 = blocks[(c2, b2)]
        need(len(blk1) == n and len(blk2) == n, "call", call, "has", rec["nargs"], "arguments and", rec["nres"],
             "results, but its blocks list", len(blk1), "(caller) and", len(blk2), "(callee) wires")
        need(all(ctx_of(w)[0] == c1 for w in blk1), "caller block with foreign wires:", blk1)
        need(all(ctx_of(w)[0] == c2 for w in blk2), "callee block with foreign wires:", blk2)
        need(blk2[:rec["nargs"]] == [call + "/" + str(k + 1) for k in range(rec["nargs"])],
             "callee block does not start with the argument copies:", blk2)
        for (w1, w2) in zip(blk1, blk2):
            need(w1 in wires and w2 in wires, "block wire without value:", w1, w2)
            need((wires[w1] - wires[w2]) % P == 0, "glued wires with different values:", w1, w2)
        report["glued"] += n
    need(len(glues) == len(meta["calls"]), "glue lines that belong to no call")
    for key in blocks:
        need(key[0] in calls, "block in unknown context:", key)
        for w in blocks[key]: need(ctx_of(w)[0] == key[0] and w in wires, "bad block wire", w, "in", key)
    report["calls"] += len(meta["calls"])

    # (2) split
    def description(call):
        d = collections.Counter()
        for (ctx, e, _) in eqs:
            if ctx == call: d[("eq", e)] += 1
        for (ctx, bn) in blocks:
            if ctx == call: d[("blk", bn, tuple(ctx_of(w)[1] for w in blocks[(ctx, bn)]))] += 1
        return d
    def file_description(fn):
        d = collections.Counter(); lines = []
        for ln in open(fn):
            ln = ln.strip()
            if ln == "": continue
            lines.append(ln)
            toks = ln.split()
            if toks[0] == "[ioblock]": d[("blk", toks[1], tuple(toks[2:]))] += 1
            else: d[("eq", parse_eq(ln))] += 1
        return d, lines

    descs = dict((call, description(call)) for call in calls)
    byfn = collections.OrderedDict()
    for (fn, call) in functions: byfn.setdefault(fn, []).append(call)
    differing = [fn for fn in byfn if any(descs[c] != descs[byfn[fn][0]] for c in byfn[fn])]

    if meta["prove"]:
        need(not differing, "scenario with prove() has inconsistent functions")
        sched = [ln.split() for ln in open(f("pysnark_schedule"))]
        need([(t[1]) for t in sched if t[0] == "[function]"] == [c for (_, c) in functions], "schedule misses calls")
        need([tuple(t[1:]) for t in sched if t[0] == "[glue]"] == glues, "schedule misses glue")
        split = {"ok": True, "sigs": None}
    else:
        split = meta["split"]

    if not split["ok"]:
        need(differing, "qapsplit reported an inconsistency, but all calls agree:", split["error"])
        need(any((fn + ".") in split["error"] for fn in differing), "error names none of", differing, ":", split["error"])
        report["reported"] += 1
        # the message of the changed code shows lines: each must really be in one call of the function only
        shown = [ln[len("***     "):] for ln in split["error"].split("\n") if ln.startswith("***     ") and ln.strip() != "*** ..."]
        for ln in shown:
            if ln.strip() == "...": continue
            toks = ln.split()
            key = ("blk", toks[1], tuple(toks[2:])) if toks[0] == "[ioblock]" else ("eq", parse_eq(ln))
            cnts = set(descs[c][key] for fn in differing for c in byfn[fn])
            need(len(cnts) > 1, "error shows a line on which the calls agree:", ln)
            report["shown"] += 1
        return
    need(not differing, "calls of", differing, "differ, and qapsplit did not report it")

    for fn in byfn:
        path = f("pysnark_eqs_" + fn)
        need(os.path.isfile(path), "no equation file for function", fn)
        fd, lines = file_description(path)
        for call in byfn[fn]:
            need(descs[call] == fd, "equation file of", fn, "differs from what was traced for call", call,
                 "\n  missing:", list((descs[call] - fd).elements())[:3], "\n  extra:", list((fd - descs[call]).elements())[:3])
        if split["sigs"] is not None:
            need(fn in split["sigs"], "no signature for", fn)
            need(split["qaplens"][fn] == sum(1 for k in fd.elements() if k[0] == "eq"), "wrong size for", fn)
            report["sigs"].setdefault(split["sigs"][fn], set()).add("\n".join(sorted(lines)))
    need(sum(sum(1 for k in descs[c].elements() if k[0] == "eq") for c in calls) == len(eqs), "equations lost")
    report["split"] += len(functions)


def main():
    if len(sys.argv) > 1:
        child(sys.argv[1])
        return 0

    top = tempfile.mkdtemp(prefix="r8-C12-")
    try:
        bindir = os.path.join(top, "bin"); os.mkdir(bindir)
        for t in TOOLS:
            with open(os.path.join(bindir, t), "w") as fh: fh.write("#!/bin/sh\nexit 0\n")
            os.chmod(os.path.join(bindir, t), 0o755)
        env = dict(os.environ)
        env.update({"PYSNARK_BACKEND": "qaptools", "QAPTOOLS_BIN": bindir})
        for k in ("PYSNARK_KEYDIR", "PYSNARK_PROOFDIR", "QAPTOOLS_DEBUG"): env.pop(k, None)
        me = os.path.abspath(__file__)

        names = subprocess.run([sys.executable, me, "--list"], env=env, cwd=top, stdout=subprocess.PIPE,
                               stderr=subprocess.PIPE, universal_newlines=True)
        if names.returncode != 0:
            print(names.stderr); print("FAILED: could not load the qaptools backend"); return 2
        names = names.stdout.split()

        report = dict(eqs=0, pubs=0, calls=0, glued=0, split=0, reported=0, shown=0, sigs={})
        bad = 0
        for name in names:
            rundir = os.path.join(top, "run_" + name); os.mkdir(rundir)
            res = subprocess.run([sys.executable, me, name], env=env, cwd=rundir, stdout=subprocess.PIPE,
                                 stderr=subprocess.PIPE, universal_newlines=True)
            if res.returncode != 0 or not os.path.isfile(os.path.join(rundir, "meta.json")):
                print("FAILED: scenario", name, "did not run:\n" + res.stderr[-2000:]); bad += 1; continue
            try:
                check_run(rundir, report)
                print("ok      ", name)
            except Violation as v:
                print("VIOLATED", name, "-", v); bad += 1

        expected_bad = [n for n in names if n.startswith("bad_")]
        if report["reported"] != len(expected_bad):
            print("VIOLATED: %d scenarios with inconsistent functions, %d reported" % (len(expected_bad), report["reported"])); bad += 1
        for (sig, ds) in report["sigs"].items():
            if len(ds) > 1: print("VIOLATED: signature", sig, "stands for", len(ds), "different descriptions"); bad += 1

        print("checked: %d equations, %d public values, %d calls, %d glued wire pairs, %d function files, "
              "%d reported inconsistencies (%d lines shown), %d signatures" %
              (report["eqs"], report["pubs"], report["calls"], report["glued"], report["split"], report["reported"],
               report["shown"], len(report["sigs"])))
        if bad:
            print("PROPERTY C12 VIOLATED in", bad, "case(s)")
            return 1
        print("property C12 held in all cases")
        return 0
    finally:
        shutil.rmtree(top, ignore_errors=True)


if __name__ == "__main__":
    sys.exit(main())
