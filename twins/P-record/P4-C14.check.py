# Evidence program for change P (fixed-point division by integer-secret / boolean divisors).
#
# Run as:  PYTHONPATH=<tree> /venv/bin/python P.check.py     (from an empty directory)
#
# What is checked, for every case that does not raise:
#   * the representation of the result equals exact scaled-integer arithmetic computed
#     with plain Python ints (quotients floor(a*2^r/B), floor division / modulo as Python
#     defines them on the represented numbers),
#   * .val() returns representation / 2^r,
#   * every R1CS constraint emitted by the operation holds (mod p) on the recorded witness,
#   * the linear combination carried by the result evaluates on the witness to the result value,
# in the plain mode, under ignore_errors, and inside enabled / disabled lazy if_then_else
# branches.  For small parameters the emitted constraint system of  x / PrivVal(b)  is
# brute-forced: the only (quotient, remainder) in a window around the honest values that
# can be completed to a satisfying assignment is (floor(a/b), a mod b).
#
# Exit status 0 iff the property held in all cases.

import os, sys, itertools, warnings
os.environ["PYSNARK_BACKEND"] = "snarkjs"
warnings.simplefilter("ignore")

import pysnark.runtime as rt
import pysnark.snarkjsbackend as be
import pysnark.fixedpoint as fx
from pysnark.runtime import PrivVal, PubVal, ConstVal, LinComb
from pysnark.boolean import PrivValBool, PubValBool, LinCombBool
from pysnark.fixedpoint import LinCombFxp, PrivValFxp, PubValFxp
from pysnark.branching import if_then_else

rt.autoprove = False          # nothing is written at exit
P = be.snarkjsp
RAISES = (ValueError, AssertionError, ZeroDivisionError, TypeError, RuntimeError, OverflowError)

failures = []
stats = {"ok": 0, "raised": 0, "constraints": 0, "brute": 0}

def fail(msg):
    failures.append(msg)
    if len(failures) <= 25:
        print("VIOLATION:", msg)

# ---------------------------------------------------------------- witness / constraint evaluation
def wire(k):
    if k == 0: return 1
    return be.pubvals[k - 1] if k > 0 else be.privvals[-k - 1]

def ev(lc, assign=None):
    tot = 0
    for k, c in lc.lc.items():
        v = assign[k] if (assign is not None and k in assign) else wire(k)
        tot += c * v
    return tot % P

def check_constraints(start, what):
    for i in range(start, len(be.constraints)):
        v, w, y = be.constraints[i]
        stats["constraints"] += 1
        if (ev(v) * ev(w) - ev(y)) % P != 0:
            fail("constraint #%d emitted by %s does not hold on the witness" % (i, what))
            return False
    return True

def rep_of(obj):
    """ (representation integer, LinComb) of a LinCombFxp result """
    if not isinstance(obj, LinCombFxp):
        raise AssertionError("result is a %s, not a LinCombFxp" % type(obj).__name__)
    return obj.lc.value, obj.lc.lc

# ---------------------------------------------------------------- operands
def fxp_operand(kind, a):
    """ a fixed-point operand whose representation is the integer a """
    if kind == "priv":  return PrivValFxp(a, False)
    if kind == "pub":   return PubValFxp(a, False)
    if kind == "lin":   return LinCombFxp(PrivVal(a - 5) + 5, False)       # a proper linear combination
    if kind == "const": return LinCombFxp(ConstVal(a), False)
    raise KeyError(kind)

def int_operand(kind, b):
    """ an integer-valued (non fixed-point) operand with value b; None if the kind cannot hold b """
    if kind == "int":     return b
    if kind == "bool":    return bool(b) if b in (0, 1) else None
    if kind == "priv":    return PrivVal(b)
    if kind == "pub":     return PubVal(b)
    if kind == "const":   return ConstVal(b)
    if kind == "lin":     return PrivVal(b + 2) * 3 - 2 * PrivVal(b + 3)   # 3(b+2) - 2(b+3) = b
    if kind == "privbool": return PrivValBool(b) if b in (0, 1) else None
    if kind == "pubbool":  return PubValBool(b) if b in (0, 1) else None
    if kind == "notbool":  return ~PrivValBool(1 - b) if b in (0, 1) else None
    raise KeyError(kind)

INT_KINDS = ["int", "bool", "priv", "pub", "const", "lin", "privbool", "pubbool", "notbool"]

# ---------------------------------------------------------------- expected results (representations)
def expected(op, a, B, r):
    """ a: representation of the dividend, B: representation (value * 2^r) of the divisor """
    if op == "truediv":  return ((a << r) // B,)
    if op == "floordiv": return ((a // B) << r,)
    if op == "mod":      return (a % B,)
    if op == "divmod":   return ((a // B) << r, a % B)
    raise KeyError(op)

def apply(op, x, y):
    if op == "truediv":  return (x / y,)
    if op == "floordiv": return (x // y,)
    if op == "mod":      return (x % y,)
    if op == "divmod":   return tuple(divmod(x, y))
    raise KeyError(op)

def run_case(op, mk_x, mk_y, a, B, r, what, mode, in_range=True):
    """ mode: plain | ignore | branch1 | branch0
        in_range: False if the plain run of the same case raised (then, with errors ignored, the
        constraint system is supposed to be unsatisfied and only the values are compared) """
    start = len(be.constraints)
    try:
        x = mk_x(); y = mk_y()
        if x is None or y is None: return None
        if mode == "plain":
            out = apply(op, x, y)
        elif mode == "ignore":
            rt.ignore_errors(True)
            try: out = apply(op, x, y)
            finally: rt.ignore_errors(False)
        else:
            cond = PrivValBool(1 if mode == "branch1" else 0)
            other = tuple(PrivValFxp(77, False) for _ in range(2 if op == "divmod" else 1))
            res = if_then_else(cond, lambda: list(apply(op, x, y)), lambda: list(other))
            out = tuple(res)
            if mode == "branch0":
                for o in out:
                    if rep_of(o)[0] != 77: fail("%s [%s]: disabled branch leaked into the result" % (what, mode))
                check_constraints(start, what + " [" + mode + "]")
                stats["ok"] += 1
                return True
    except RAISES as e:
        rt.ignore_errors(False)
        stats["raised"] += 1
        return False
    if B == 0:
        fail("%s [%s]: division by zero did not raise" % (what, mode)); return True
    if B < 0 and mode == "ignore":
        # out of the library's supported range; errors suppressed on request: only the
        # constraint system is required to reject, nothing to compare
        return True
    exp = expected(op, a, B, r)
    for o, e in zip(out, exp):
        got, lc = rep_of(o)
        if got != e:
            fail("%s [%s]: representation %d, exact scaled-integer arithmetic gives %d" % (what, mode, got, e))
        if ev(lc) != got % P:
            fail("%s [%s]: result wire carries %d but the value is %d" % (what, mode, ev(lc), got))
        back = o.val()
        if back != e / (1 << r):
            fail("%s [%s]: val() returned %r, expected %r" % (what, mode, back, e / (1 << r)))
    if in_range:
        check_constraints(start, what + " [" + mode + "]")
    stats["ok"] += 1
    return True

# does this tree accept boolean divisors (i.e. is change P present)?
try:
    PrivValFxp(1.0) / PrivValBool(1)
    HAVE_P = True
except TypeError:
    HAVE_P = False
print("tree accepts LinCombBool divisors (change P present):", HAVE_P)

# ---------------------------------------------------------------- 1. fixed point (op) integer-ish divisor
for (r, bl) in [(8, 16), (2, 8), (0, 8), (12, 24), (8, 10), (3, 5)]:
    fx.resolution = r
    rt.bitlength = bl
    one = 1 << r
    reps = sorted(set([0, 1, -1, one, -one, one + 1, one - 1, -one - 1, 3 * one + one // 2, -3 * one - one // 2,
                       5 * one, -5 * one, 7 * one + 3, (1 << (bl - 1)) - 1, -(1 << (bl - 1)), (1 << bl) - 1,
                       (1 << bl) + 5, -(1 << bl) - 5, 1000003]))
    divs = sorted(set([-3, -1, 0, 1, 2, 3, 7, (1 << (bl - r)) - 1 if bl > r else 1, 1 << max(bl - r, 0),
                       (1 << max(bl - r, 0)) + 1, 255, 256, 257, (1 << bl) - 1, 1 << bl]))
    for op in ["truediv", "floordiv", "mod", "divmod"]:
        for ykind in INT_KINDS:
            for xkind in (["priv", "pub", "lin", "const"] if ykind in ("priv", "privbool", "int") else ["priv"]):
                for b in divs:
                    for a in reps:
                        for mode in (["plain", "ignore", "branch1", "branch0"] if (a in (one + 1, -3 * one - one // 2, 7 * one + 3) and xkind == "priv") else ["plain"]):
                            what = "r=%d bl=%d: fxp[%s rep %d] %s %s(%d)" % (r, bl, xkind, a, op, ykind, b)
                            if mode == "plain": plain_ok = True
                            okd = run_case(op, lambda: fxp_operand(xkind, a), lambda: int_operand(ykind, b),
                                           a, b << r, r, what, mode, plain_ok)
                            if okd is None: continue
                            if mode == "plain": plain_ok = bool(okd)
                            # accepted inputs: these must NOT raise
                            if mode == "plain" and okd is False and b > 0:
                                if ykind in ("privbool", "pubbool", "notbool") and not HAVE_P:
                                    continue                                     # unsupported before P: TypeError
                                if op == "truediv":
                                    if ykind in ("int", "bool"): fits = b < (1 << bl)
                                    else: fits = (b < (1 << bl)) if HAVE_P else ((b << r) < (1 << bl))
                                else:
                                    fits = (b << r) < (1 << bl)
                                if fits:
                                    fail(what + ": raised although every intermediate value fits in bitlength bits")

print("section 1 done:", stats)

# ---------------------------------------------------------------- 2. the other operand orders and types (unchanged paths)
fx.resolution = 8; rt.bitlength = 16
r = 8
def rev_cases():
    vals = [1, -1, 3, 5, -5, 100]
    dens = [1.0, 2.0, 0.5, 2.5, 0.00390625, 3.75, 100.0]
    for op in ["truediv", "floordiv", "mod"]:
        for n in vals:
            for d in dens:
                B = int(d * 256)
                for nkind in ["int", "float", "priv", "pub", "bool", "privbool", "fxp"]:
                    if nkind in ("bool", "privbool") and n != 1: continue
                    def mk_x():
                        if nkind == "int": return n
                        if nkind == "float": return float(n)
                        if nkind == "priv": return PrivVal(n)
                        if nkind == "pub": return PubVal(n)
                        if nkind == "bool": return True
                        if nkind == "privbool": return PrivValBool(1)
                        return PrivValFxp(float(n))
                    for dkind in ["fxp", "float"]:
                        if dkind == "float" and nkind != "fxp": continue
                        mk_y = (lambda: PrivValFxp(d)) if dkind == "fxp" else (lambda: d)
                        what = "%s(%d) %s %s(%r)" % (nkind, n, op, dkind, d)
                        run_case(op, mk_x, mk_y, n << r, B, r, what, "plain")
rev_cases()
print("section 2 done:", stats)

# ---------------------------------------------------------------- 3. brute force of the emitted system for  x / PrivVal(b)
def brute(a, b, r, bl, boolean=False):
    fx.resolution = r; rt.bitlength = bl
    x = PrivValFxp(a, False)
    y = PrivValBool(b) if boolean else PrivVal(b)
    c0 = len(be.constraints); w0 = len(be.privvals)
    try:
        q = x / y
    except RAISES:
        return
    cons = be.constraints[c0:]
    new = [-(i + 1) for i in range(w0, len(be.privvals))]       # wire ids of the new private wires
    honest = {k: wire(k) for k in new}
    if len(new) != 3 + 2 * bl:
        fail("brute force: unexpected wire layout (%d new wires)" % len(new)); return
    quo_w, res_w, rem_w = new[0], new[1], new[2]
    bits = new[3:]
    d = b if HAVE_P else (b << r)                                # value on the divisor wire
    sols = set()
    def sat(assign):
        for v, w, yv in cons:
            if (ev(v, assign) * ev(w, assign) - ev(yv, assign)) % P != 0: return False
        return True
    if not sat(honest):
        fail("brute force: honest witness rejected"); return
    for dq in range(-2, 3):
        quo = honest[quo_w] + dq
        for rem in range(-3, (1 << bl) + 3):
            for res in {quo * d, honest[res_w]}:
                for pattern in itertools.product((0, 1), repeat=len(bits)):
                    assign = {quo_w: quo, res_w: res, rem_w: rem}
                    assign.update(zip(bits, pattern))
                    stats["brute"] += 1
                    if sat(assign): sols.add((quo, rem))
    want = {((a << r) // (b << r), a % b if HAVE_P else (a << r) % (b << r))}
    if sols != want:
        fail("brute force a=%d b=%d r=%d bl=%d: satisfying (quo, rem) = %s, expected %s" % (a, b, r, bl, sorted(sols), sorted(want)))
    if q.lc.value != (a << r) // (b << r):
        fail("brute force: wrong quotient value")

for r_, bl_ in [(1, 3), (0, 3), (2, 3)]:
    for b_ in range(1, 8):
        for a_ in [-9, -4, -1, 0, 1, 2, 5, 7, 11]:
            brute(a_, b_, r_, bl_)
    for a_ in [-3, 0, 1, 6]:
        brute(a_, 1, r_, bl_, boolean=True)
print("section 3 done:", stats)

if stats["ok"] < 2000:
    fail("too few successful cases (%d): the check would be vacuous" % stats["ok"])

if failures:
    print("%d violation(s) of C14" % len(failures))
    sys.exit(1)
print("C14 held in all cases:", stats)
sys.exit(0)
