"""
Evidence for P (division by a zero secret divisor while errors are ignored / in a branch not taken).

Run as   PYTHONPATH=<tree> /venv/bin/python P.check.py   from an empty directory.

For a set of programs that divide (/, //, %, divmod, >> by a secret, fixed-point /, //, %, reflected
forms) at top level, inside lazy if_then_else branches and inside nested lazy branches, the program is
traced on a grid of input vectors that contains zero divisors, negative and out-of-range values, for
several bitlengths, with and without ignore_errors.  For every program/bitlength:

  1. every completing run (strict mode and ignore-errors mode together) must emit the *same* constraint
     system: same sequence of variable allocations (kind and order), same constraints (coefficients,
     term order), same wire expressions for the outputs;
  2. every run in ignore-errors mode must complete (no exception whatever the values);
  3. in every completing strict run all emitted constraints hold on the recorded witness (mod p), and
     the outputs equal plain Python semantics;
  4. a strict run does not complete exactly when Python semantics say the *executed* path is invalid
     (in particular: a zero divisor in a branch that is taken still raises ValueError).
Exit status 0 iff all of this held.
"""
import os, sys, itertools
os.environ["PYSNARK_BACKEND"] = "snarkjs"

import pysnark.runtime as rt
import pysnark.snarkjsbackend as be
from pysnark.runtime import PrivVal, PubVal, LinComb
from pysnark.boolean import LinCombBool, PrivValBool
from pysnark.fixedpoint import LinCombFxp, PrivValFxp
from pysnark.branching import if_then_else
import pysnark.fixedpoint as fxp

rt.autoprove = False
P = be.snarkjsp

# ---------------------------------------------------------------- recording
alloc = []
_orig_priv, _orig_pub = be.privval, be.pubval
def _priv(v):
    alloc.append("w"); return _orig_priv(v)
def _pub(v):
    alloc.append("x"); return _orig_pub(v)
be.privval, be.pubval = _priv, _pub

def reset(bitlength, ignore):
    del be.privvals[:]; del be.pubvals[:]; del be.constraints[:]; del alloc[:]
    rt.num_constraints = 0
    rt.guard = None
    rt.LinComb.ONE = rt.LinComb.ONE_SAFE
    rt.bitlength = bitlength
    rt.ignore_errors(ignore)

def lcitems(lc):            # term order and zero terms included: this is what prove() writes
    return tuple((k, v % P) for k, v in lc.lc.items())

def wire(x):
    if isinstance(x, (LinCombBool, LinCombFxp)): x = x.lc
    if isinstance(x, LinComb): return ("lc", lcitems(x.lc))
    if isinstance(x, (tuple, list)): return tuple(wire(e) for e in x)
    return ("const", x)

def value(x):
    if isinstance(x, (LinCombBool, LinCombFxp)): x = x.lc
    if isinstance(x, LinComb): return x.value
    if isinstance(x, (tuple, list)): return tuple(value(e) for e in x)
    return x

def lceval(lc):
    tot = 0
    for k, v in lc.lc.items():
        w = 1 if k == 0 else (be.pubvals[k-1] if k > 0 else be.privvals[-k-1])
        tot += v * w
    return tot % P

def trace(prog, args, bitlength, ignore):
    """ returns ("ok", system, outvalues, all_constraints_hold) or ("exc", exception) """
    reset(bitlength, ignore)
    try:
        out = prog(*args)
    except Exception as e:
        reset(bitlength, False)
        return ("exc", e)
    system = (tuple(alloc),
              tuple((lcitems(a), lcitems(b), lcitems(c)) for a, b, c in be.constraints),
              wire(out))
    holds = all((lceval(a) * lceval(b) - lceval(c)) % P == 0 for a, b, c in be.constraints)
    assert rt.num_constraints == len(be.constraints)
    assert rt.guard is None and rt.LinComb.ONE is rt.LinComb.ONE_SAFE, "guard not restored"
    res = ("ok", system, value(out), holds)
    reset(bitlength, False)
    return res

# ---------------------------------------------------------------- programs
# each: (name, function of secret ints, python model returning expected outputs or None if the
#        executed path is invalid, input grid as function of bitlength)
R = fxp.resolution

def inr(v, bl): return 0 <= v < (1 << bl)

def m_divmod(x, y, bl):
    # LinComb.__divmod__: needs y != 0, remainder and y - rem - 1 in range
    if y == 0: return None
    q, r = divmod(x, y)
    if not (inr(r, bl) and inr(y - r - 1, bl)): return None
    return q, r

def m_truediv(x, y, bl):
    if y == 0 or x % y != 0: return None
    return x // y

def progs():
    L = []
    def add(name, fn, model): L.append((name, fn, model))

    # top level
    add("floordiv",   lambda x, y: PrivVal(x) // PrivVal(y),
        lambda x, y, bl: None if m_divmod(x, y, bl) is None else m_divmod(x, y, bl)[0])
    add("mod",        lambda x, y: PrivVal(x) % PrivVal(y),
        lambda x, y, bl: None if m_divmod(x, y, bl) is None else m_divmod(x, y, bl)[1])
    add("divmod",     lambda x, y: divmod(PrivVal(x), PrivVal(y)), m_divmod)
    add("truediv",    lambda x, y: PrivVal(x) / PrivVal(y), m_truediv)
    add("rfloordiv",  lambda x, y: (x + 0 * PrivVal(y), 13 // PrivVal(y))[1],
        lambda x, y, bl: None if m_divmod(13, y, bl) is None else m_divmod(13, y, bl)[0])
    add("rtruediv",   lambda x, y: (PrivVal(x), 12 / PrivVal(y))[1],
        lambda x, y, bl: m_truediv(12, y, bl))
    add("pubdivisor", lambda x, y: (PrivVal(y), PubVal(x) // 3)[1],
        lambda x, y, bl: None if m_divmod(x, 3, bl) is None else m_divmod(x, 3, bl)[0])

    # lazy branch on y != 0 : the canonical "protected division"
    def guarded_div(x, y):
        xs, ys = PrivVal(x), PrivVal(y)
        return if_then_else(ys != 0, lambda: xs // ys, lambda: LinComb.ZERO + 7)
    def m_guarded_div(x, y, bl):
        if y == 0: return 7
        r = m_divmod(x, y, bl)
        return None if r is None else r[0]
    add("guarded //", guarded_div, m_guarded_div)

    def guarded_mix(x, y):
        xs, ys = PrivVal(x), PrivVal(y)
        c = ys != 0
        a = if_then_else(c, lambda: xs % ys, 0)
        b = if_then_else(~c, lambda: xs + 1, lambda: (xs * ys) / ys)
        return (a, b)
    def m_guarded_mix(x, y, bl):
        if y == 0: return (0, x + 1)
        r = m_divmod(x, y, bl)
        return None if r is None else (r[1], x)
    add("guarded % and /", guarded_mix, m_guarded_mix)

    # a secret flag that is independent of the divisor: the branch may be taken with y == 0
    def flag_div(c, x, y):
        cs, xs, ys = PrivValBool(c), PrivVal(x), PrivVal(y)
        return if_then_else(cs, lambda: divmod(xs, ys)[0] + divmod(xs, ys)[1], lambda: xs - ys)
    def m_flag_div(c, x, y, bl):
        if not c: return x - y
        r = m_divmod(x, y, bl)
        return None if r is None else r[0] + r[1]
    add("flag divmod", flag_div, m_flag_div)

    # nested lazy branches
    def nested(c, x, y):
        cs, xs, ys = PrivValBool(c), PrivVal(x), PrivVal(y)
        def inner():
            return if_then_else(ys != 0, lambda: xs // ys, lambda: xs / ys + 1)   # else arm divides by zero when taken
        return if_then_else(cs, inner, lambda: if_then_else(ys == 0, lambda: ys % xs, 5))
    def m_nested(c, x, y, bl):
        if c:
            if y != 0:
                r = m_divmod(x, y, bl); return None if r is None else r[0]
            return None                       # x / 0 executed
        if y == 0:
            r = m_divmod(y, x, bl); return None if r is None else r[1]
        return 5
    add("nested", nested, m_nested)

    # fixed point: all of these end up in LinComb.__divmod__
    def fxpdiv(c, x, y):
        cs, xs, ys = PrivValBool(c), PrivValFxp(x, False), PrivValFxp(y, False)
        return if_then_else(cs, lambda: xs / ys, lambda: ys * 1)
    def m_fxpdiv(c, x, y, bl):
        if not c: return y
        r = m_divmod(x << R, y, bl)
        return None if r is None else r[0]
    add("fxp /", fxpdiv, m_fxpdiv)

    def fxpmod(c, x, y):
        cs, xs, ys = PrivValBool(c), PrivValFxp(x, False), PrivVal(y)
        return if_then_else(cs, lambda: xs % ys, lambda: xs + 0)
    def m_fxpmod(c, x, y, bl):
        if not c: return x
        r = m_divmod(x, y << R, bl)
        return None if r is None else r[1]
    add("fxp % lincomb", fxpmod, m_fxpmod)
    return L

def grid(nargs, bl):
    top = 1 << bl
    vals = sorted({0, 1, 2, 3, 5, 12, 13, top - 1, top, top + 3, -1, -4, 1 << (bl // 2)})
    if nargs == 2:
        return list(itertools.product(vals, vals))
    return [(c,) + xy for c in (0, 1) for xy in itertools.product(vals, vals)]

# ---------------------------------------------------------------- main loop
problems = []
def problem(msg):
    problems.append(msg)
    if len(problems) <= 25: print("PROPERTY VIOLATED:", msg)

stats = dict(runs=0, strict_ok=0, strict_exc=0, ignore_ok=0, zero_div_dead=0, dead_zero_rejected=0)

for bl in (4, 7, 16):
    for name, fn, model in progs():
        nargs = fn.__code__.co_argcount
        reference = None
        for args in grid(nargs, bl):
            expect = model(*args, bl)
            for ignore in (False, True):
                stats["runs"] += 1
                r = trace(fn, args, bl, ignore)
                tag = "%s bitlength=%d args=%s ignore_errors=%s" % (name, bl, args, ignore)
                if r[0] == "exc":
                    if ignore:
                        problem(tag + ": run in ignore-errors mode did not complete: %r" % (r[1],))
                    else:
                        stats["strict_exc"] += 1
                        if expect is not None and args[-1] == 0 and "Division by zero" in str(r[1]):
                            stats["dead_zero_rejected"] += 1     # behaviour of the tree without P; not a C06 matter
                        elif expect is not None:
                            problem(tag + ": valid input rejected: %r" % (r[1],))
                        elif not isinstance(r[1], (ValueError, AssertionError)):
                            problem(tag + ": unexpected exception type %r" % (r[1],))
                    continue
                _, system, outv, holds = r
                if reference is None:
                    reference = (tag, system)
                elif system != reference[1]:
                    a, b = reference[1], system
                    what = ("variable allocation %d vs %d wires" % (len(a[0]), len(b[0])) if a[0] != b[0] else
                            "constraints (%d vs %d)" % (len(a[1]), len(b[1])) if a[1] != b[1] else "output wires")
                    problem(tag + ": constraint system differs from that of [" + reference[0] + "] in " + what)
                if ignore:
                    stats["ignore_ok"] += 1
                    if expect is not None and (not holds or outv != expect):
                        problem(tag + ": valid input, but witness/outputs wrong in ignore-errors mode: %r vs %r" % (outv, expect))
                else:
                    stats["strict_ok"] += 1
                    if expect is None:
                        problem(tag + ": invalid executed path accepted in strict mode, outputs %r" % (outv,))
                    else:
                        if not holds: problem(tag + ": a constraint does not hold on the witness")
                        if outv != expect: problem(tag + ": outputs %r, python says %r" % (outv, expect))
                        if args[-1] == 0 and name not in ("pubdivisor",): stats["zero_div_dead"] += 1
        if reference is None:
            problem("%s bitlength=%d: no completing run at all" % (name, bl))

# public zero divisors are program errors and must keep raising, ignore_errors or not
for ignore in (False, True):
    for f in (lambda: PrivVal(3) // 0, lambda: PrivVal(3) % 0, lambda: PrivVal(3) / 0, lambda: divmod(PrivVal(3), 0),
              lambda: PrivValFxp(1.5) / 0, lambda: PrivValFxp(1.5) // 0.0):
        r = trace(f, (), 8, ignore)
        if r[0] != "exc" or not isinstance(r[1], ValueError):
            problem("division by the public constant 0 (ignore_errors=%s) did not raise ValueError: %r" % (ignore, r[:1]))

print("runs: %(runs)d, strict completing: %(strict_ok)d, strict rejected: %(strict_exc)d, "
      "ignore-errors completing: %(ignore_ok)d, strict runs with a zero divisor in a dead branch: %(zero_div_dead)d" % stats)
if problems:
    print("%d problems" % len(problems)); sys.exit(1)
if stats["dead_zero_rejected"]:
    print("note: %d strict runs with a zero secret divisor in a branch that is not taken were rejected with "
          "'Division by zero' (tree without P); they do not complete, so there is nothing to compare for them"
          % stats["dead_zero_rejected"])
print("OK: constraint systems independent of the values in all completing runs")
