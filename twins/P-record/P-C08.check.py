# Evidence program for change P (add_guard: LinCombBool operands, no conjunction when re-entering under the
# active guard, atomic installation of the new state).
#
# Run as   PYTHONPATH=<tree> /venv/bin/python P.check.py   from an empty directory.  Exit status 0 = property C08
# held in all cases:
#
#   "After a guarded region ends, whether by returning or by an exception propagating out of it, the active guard,
#    the error-suppression mode and the meaning of constants are exactly what they were before the region was
#    entered.  Inside nested regions the effective guard is the conjunction of all enclosing conditions."
#
# It checks the property itself (not equality with the old code):
#   * random trees of guarded regions (decorator, add_guard/restore_guard, lazy if_then_else branches, _if/_endif)
#     with every kind of condition (LinComb, LinCombBool, comparison results, 1/True, LinComb.ONE, the active
#     guard object itself, invalid values and invalid types), bodies that compute, assert, fail, switch
#     ignore_errors on/off and raise; after every region and at every statement boundary the triple
#     (guard, ignore_errors(), LinComb.ONE) is compared with what it has to be;
#   * the effective guard is checked by VALUE and IN THE CIRCUIT: the guard's linear combination is evaluated
#     on the recorded witness and has to equal the product of all enclosing condition values; constants made
#     inside a region (LinComb._ensurelc(k)) have to evaluate to k*guard;
#   * every constraint emitted is evaluated on the recorded witness (snarkjs backend records both);
#   * fault injection: each scenario is replayed once per backend call with that call raising, so that the
#     exception leaves the regions "at any statement", including inside add_guard's own conjunction gadget;
#   * the state checks are repeated in a subprocess on the nobackend backend.
import os, sys, random, subprocess

MODE = sys.argv[1] if len(sys.argv) > 1 else "main"
os.environ["PYSNARK_BACKEND"] = "nobackend" if MODE == "nobackend" else "snarkjs"

import pysnark.runtime as rt
from pysnark.runtime import LinComb, PrivVal, PubVal, add_guard, restore_guard, guarded
from pysnark.boolean import LinCombBool, PrivValBool
from pysnark.fixedpoint import PrivValFxp
from pysnark.branching import if_then_else, BranchingValues, _if, _endif

rt.autoprove = False            # nothing is written to the working directory
RECORD = rt.backend_name == "snarkjs"
be = rt.backend
P = be.get_modulus()

class CheckFailed(BaseException): pass     # BaseException: never swallowed by the scenarios' own handlers
class Boom(Exception): pass
class Fault(Exception): pass

def fail(msg):
    raise CheckFailed(msg)

# ---------------------------------------------------------------------------------------------------------------
# witness evaluation (snarkjs backend: wire 0 = one, k>0 public, k<0 private)
def ev(lc):
    tot = 0
    for w, c in lc.lc.items():
        v = 1 if w == 0 else (be.pubvals[w-1] if w > 0 else be.privvals[-w-1])
        tot += c*v
    return tot % P

checked_upto = 0
def check_constraints():
    global checked_upto
    if not RECORD: return
    for ix in range(checked_upto, len(be.constraints)):
        v, w, y = be.constraints[ix]
        if (ev(v)*ev(w) - ev(y)) % P != 0:
            fail("constraint #%d does not hold on the recorded witness" % ix)
    checked_upto = len(be.constraints)

# ---------------------------------------------------------------------------------------------------------------
# fault injection: the k-th call into the backend raises
orig_add_constraint, orig_privval = be.add_constraint, be.privval
events = 0
fault_at = None
def tick():
    global events
    events += 1
    if fault_at is not None and events == fault_at: raise Fault("injected at backend call %d" % events)
def f_add_constraint(v, w, y): tick(); return orig_add_constraint(v, w, y)
def f_privval(val): tick(); return orig_privval(val)
be.add_constraint, be.privval = f_add_constraint, f_privval

# ---------------------------------------------------------------------------------------------------------------
ONE0 = LinComb.ONE
assert ONE0 is LinComb.ONE_SAFE and rt.guard is None and rt.ignore_errors() is False

def snapshot(): return (rt.guard, rt.ignore_errors(), LinComb.ONE)

def same(a, b): return a[0] is b[0] and a[1] == b[1] and a[2] is b[2]

class Level:
    """ what the state has to be at some point: eff = list of enclosing LinComb condition values (None: no guard) """
    def __init__(self, eff, ign): self.eff, self.ign = eff, ign
    def value(self):
        v = 1
        for x in self.eff: v &= x          # == conjunction for Boolean values
        return v

stats = dict(regions=0, aborted=0, fastpath=0, boolconds=0, rejected=0, faults=0, points=0)

def check_point(lv, where):
    """ invariants that have to hold at every statement boundary """
    stats["points"] += 1
    g = rt.guard
    if lv.eff is None:
        if g is not None: fail(where + ": a guard is active outside all LinComb-guarded regions")
        if LinComb.ONE is not ONE0: fail(where + ": LinComb.ONE is not the constant one outside guards")
    else:
        if not isinstance(g, LinComb): fail(where + ": no guard inside a guarded region")
        if g.value != lv.value(): fail(where + ": guard value %r is not the conjunction %r of %r" % (g.value, lv.value(), lv.eff))
        if RECORD and ev(g.lc) != lv.value() % P: fail(where + ": guard wire does not carry the conjunction")
        if LinComb.ONE is not g: fail(where + ": LinComb.ONE is not the effective guard")
    if rt.ignore_errors() != lv.ign: fail(where + ": ignore_errors()=%r, expected %r" % (rt.ignore_errors(), lv.ign))
    if rt.is_guard() != (lv.eff is None or lv.value() == 1): fail(where + ": is_guard() wrong")
    # meaning of constants: k means k*guard
    k = 3
    c = LinComb._ensurelc(k)
    gv = 1 if lv.eff is None else lv.value()
    if c.value != k*gv: fail(where + ": constant has value %r, expected %r" % (c.value, k*gv))
    if RECORD and ev(c.lc) != (k*gv) % P: fail(where + ": constant wire wrong")

# ---------------------------------------------------------------------------------------------------------------
def make_cond(rng, lv, allow_invalid):
    """ returns (cond object, kind, value or None for constant 1, exception type expected from add_guard or None) """
    kinds = ["priv", "priv", "bool", "bool", "cmp", "one", "true", "ONE", "active", "notbool"]
    if allow_invalid: kinds += ["zero", "two", "neg", "lc2", "str", "float", "none", "fxp", "list"]
    kind = rng.choice(kinds)
    b = rng.randint(0, 1)
    if kind == "priv": return PrivVal(b), kind, b, None
    if kind == "bool": return PrivValBool(b), kind, b, None
    if kind == "notbool": return ~PrivValBool(1-b), kind, b, None
    if kind == "cmp":
        x = rng.randint(0, 9)
        c = PrivVal(x) < 5                  # (in a switched-off region comparisons return a dummy 0)
        return c, kind, c.lc.value, None
    if kind == "one": return 1, kind, None, None
    if kind == "true": return True, kind, None, None
    if kind == "ONE":                       # the constant one _as seen inside the region_, i.e. the active guard
        return LinComb.ONE, kind, (1 if lv.eff is None else lv.value()), None
    if kind == "active":
        if rt.guard is None: return PrivVal(b), "priv", b, None
        return rt.guard, kind, lv.value(), None
    if kind == "zero": return 0, kind, None, RuntimeError
    if kind == "two": return 2, kind, None, RuntimeError
    if kind == "neg": return -1, kind, None, RuntimeError
    if kind == "lc2":
        if rt.ignore_errors(): return PrivVal(b), "priv", b, None
        return PrivVal(rng.choice([2, -1, 7])), kind, None, RuntimeError
    if kind == "str": return "1", kind, None, TypeError
    if kind == "float": return 1.0, kind, None, TypeError
    if kind == "none": return None, kind, None, TypeError
    if kind == "fxp": return PrivValFxp(1.0), kind, None, TypeError
    if kind == "list": return [PrivVal(1)], kind, None, TypeError
    assert False

def enter_level(lv, val):
    if val is None: return Level(lv.eff, lv.ign)
    return Level((lv.eff or []) + [val], lv.ign or val == 0)

def statement(rng, lv, depth, may_raise):
    """ one statement of a region body; may raise (Boom / library errors / Fault) if may_raise """
    active = lv.eff is None or lv.value() == 1
    choice = rng.choice(["region", "region", "region", "valid", "valid", "invalid", "toggle", "raise", "catch"])
    if choice == "region" or (choice == "catch" and not may_raise):
        if depth < 4: region(rng, lv, depth+1, may_raise)
    elif choice == "catch":
        before = snapshot()
        try:
            if depth < 4: region(rng, lv, depth+1, True)
        except Fault:
            stats["faults"] += 1
        except (Boom, AssertionError, ValueError, RuntimeError, ZeroDivisionError):
            stats["aborted"] += 1
        if not same(before, snapshot()): fail("state not restored after a caught exception")
    elif choice == "valid":
        a, b = rng.randint(0, 50), rng.randint(1, 50)
        x, y = PrivVal(a), PrivVal(b)
        op = rng.randrange(7)
        if op == 0:
            if (x*y).value != a*b: fail("mul")
        elif op == 1: y.assert_nonzero()
        elif op == 2: x.to_bits()
        elif op == 3:
            r = x < y
            if active and r.lc.value != int(a < b): fail("lt")
        elif op == 4: (x - a).assert_zero()
        elif op == 5:
            r = (x == y)
            if r.lc.value != int(a == b): fail("eq")
        elif op == 6: x.assert_range(0, 51)
    elif choice == "invalid":
        # an operation whose precondition is violated.  In a region that is switched off it has to go through
        # silently (and its constraints still have to hold: checked at the end); in an active region without
        # ignore_errors it aborts the region by an exception; active + ignore_errors would (by design) give
        # unsatisfied constraints, which is not what this program is about
        if active and (rt.ignore_errors() or not may_raise): return
        op = rng.randrange(5)
        if op == 0: PrivVal(5).assert_zero()
        elif op == 1: PrivVal(0).assert_nonzero()
        elif op == 2: PrivVal(-3).assert_positive()
        elif op == 3: PrivVal(1 << 20).to_bits()
        elif op == 4: PrivVal(9).assert_lt(PrivVal(4))
        if active: fail("violated assertion in an active region did not raise")
    elif choice == "toggle":
        # switching the error mode inside a region must not leak out of it
        if lv.eff is None: return                      # (top level: keep the global mode as it is)
        nw = rng.choice([True, False])
        if nw and active: return                       # see above
        if not nw and not may_raise: return
        rt.ignore_errors(nw)
        lv.ign = nw
    elif choice == "raise":
        if may_raise and rng.random() < 0.5: raise Boom()

def body(rng, lv, depth, may_raise):
    check_point(lv, "region entry")
    for _ in range(rng.randint(0, 3)):
        statement(rng, lv, depth, may_raise)
        check_point(lv, "after statement")
    return PrivVal(rng.randint(0, 5))

def region(rng, outer, depth, may_raise):
    """ enters one guarded region by a random mechanism, runs a random body in it, and checks that the state
        afterwards is what it was before - also if the region is left by an exception (which is then re-raised) """
    before = snapshot()
    outer_ign = outer.ign
    mech = rng.choice(["guarded", "guarded", "manual", "manual", "ite", "ite", "ctx"])
    if mech == "ctx" and may_raise: mech = "guarded"   # the statement-style API has no exception handling at all
    cond, kind, val, exc = make_cond(rng, outer, allow_invalid=(mech in ("guarded", "manual")))
    stats["regions"] += 1
    if kind in ("bool", "cmp", "notbool"): stats["boolconds"] += 1
    ncons = rt.num_constraints
    guard_before = rt.guard
    entered = []
    try:
        try:
            if mech == "guarded":
                inner = enter_level(outer, val)
                def fn(*args, **kwargs):
                    entered.append(rt.num_constraints - ncons)
                    return body(rng, inner, depth, may_raise)
                guarded(cond)(fn)(1, k=2)
            elif mech == "manual":
                inner = enter_level(outer, val)
                bak = add_guard(cond)
                try:
                    entered.append(rt.num_constraints - ncons)
                    body(rng, inner, depth, may_raise)
                finally:
                    restore_guard(bak)
            elif mech == "ite":
                if not isinstance(cond, LinCombBool): cond, kind, val = PrivValBool(val or 0), "bool", (val or 0)
                val = cond.lc.value
                lt, lf = enter_level(outer, val), enter_level(outer, 1-val)
                which = rng.randrange(3)
                tv = (lambda: body(rng, lt, depth, may_raise)) if which != 1 else PrivVal(7)
                fv = (lambda: body(rng, lf, depth, may_raise)) if which != 0 else PrivVal(8)
                res = if_then_else(cond, tv, fv)
                if not isinstance(res, LinComb): fail("if_then_else result")
            elif mech == "ctx":
                if not isinstance(cond, (LinComb, LinCombBool)): cond, kind, val = PrivValBool(1), "bool", 1
                inner = enter_level(outer, val)
                ctx = BranchingValues()
                ctx.v = 1
                _if(cond, ctx)
                ctx.v = 2
                body(rng, inner, depth, False)
                if isinstance(cond, LinCombBool):
                    _endif(ctx)
                    if ctx.v.value != 1 + cond.lc.value: fail("_if/_endif result")
                else:
                    # conditions that are plain LinCombs are refused when the region is closed (RuntimeError from
                    # if_then_else) - after the guard has been restored
                    try: _endif(ctx)
                    except RuntimeError: pass
                    ctx.stack.clear()
        finally:
            # this is the property: whatever happened, we are back in the state from before the region
            if not same(before, snapshot()):
                fail("state after region (%s, cond %s) differs: %r -> %r" % (mech, kind, before, snapshot()))
            outer.ign = outer_ign
    except Fault:
        raise
    except (RuntimeError, TypeError) as e:
        if exc is not None and isinstance(e, exc) and not entered:
            stats["rejected"] += 1                      # invalid condition refused, nothing changed (checked above)
            return
        raise
    if exc is not None: fail("invalid guard %r (%s) was accepted" % (cond, kind))
    if entered and kind in ("ONE", "active") and guard_before is not None:
        # re-entering under the active guard: conjunction g&g=g needs no gadget at all
        stats["fastpath"] += 1
        if entered[0] != 0: fail("re-entering under the active guard cost %d constraints" % entered[0])

def scenario(seed, may_raise):
    rng = random.Random(seed)
    top = Level(None, False)
    start = snapshot()
    try:
        for _ in range(3):
            region(rng, top, 0, may_raise)
            check_point(top, "top level")
    except Fault:
        stats["faults"] += 1
    except (Boom, AssertionError, ValueError, RuntimeError, ZeroDivisionError):
        stats["aborted"] += 1
    if not same(start, snapshot()): fail("top-level state changed by scenario %d" % seed)
    if not (rt.guard is None and rt.ignore_errors() is False and LinComb.ONE is ONE0): fail("top-level state dirty")
    check_constraints()

def directed():
    """ hand-written cases for the changed code """
    top = Level(None, False)
    # 1. LinCombBool operands, nesting = conjunction, all four combinations, three levels
    for a in (0, 1):
        for b in (0, 1):
            for c in (0, 1):
                @guarded(PrivValBool(a))
                def f1():
                    l1 = Level([a], a == 0); check_point(l1, "d1")
                    c2 = PrivVal(b) < 1               # value 1-b (dummy 0 if a==0)
                    nb = c2.lc.value
                    if a == 1 and nb != 1-b: fail("comparison")
                    @guarded(c2)
                    def f2():
                        l2 = Level([a, nb], a == 0 or nb == 0); check_point(l2, "d2")
                        bak = add_guard(PrivVal(c))
                        try:
                            l3 = Level([a, nb, c], a == 0 or nb == 0 or c == 0); check_point(l3, "d3")
                            # same guard again, and "the constant one", any number of times
                            g3 = rt.guard
                            n = rt.num_constraints
                            bak2 = add_guard(rt.guard)
                            bak3 = add_guard(LinComb.ONE)
                            if rt.num_constraints != n or rt.guard is not g3: fail("fast path")
                            check_point(Level([a, nb, c, l3.value(), l3.value()], l3.ign), "d4")
                            restore_guard(bak3); restore_guard(bak2)
                            check_point(l3, "d3'")
                        finally:
                            restore_guard(bak)
                        check_point(l2, "d2'")
                    f2()
                    check_point(l1, "d1'")
                f1()
                check_point(top, "d0")
    # 2. a failing add_guard leaves everything as it was, at top level and under a guard, also with ignore_errors
    for outer in (None, 0, 1):
        for bad in (0, 2, -1, "x", 1.5, None, (1,), PrivValFxp(1.0), PrivVal(2), PrivVal(-1)):
            def attempt():
                s = snapshot()
                try:
                    add_guard(bad)
                except (RuntimeError, TypeError):
                    if not same(s, snapshot()): fail("failed add_guard changed the state")
                else:
                    # only a non-0/1 LinComb with ignore_errors on gets through (documented behaviour); the
                    # backup it returned must still be the state from before
                    if not (isinstance(bad, LinComb) and s[1]): fail("add_guard accepted %r" % (bad,))
                    restore_guard((s[0], s[1], s[2]))
                if not same(s, snapshot()): fail("state after failed add_guard")
            if outer is None: attempt()
            else: guarded(PrivValBool(outer))(attempt)()
            check_point(top, "d5")
    # 3. the backup returned is exactly the previous state, for every operand type
    for mk in (lambda: PrivVal(1), lambda: PrivValBool(0), lambda: 1, lambda: True, lambda: LinComb.ONE, lambda: PrivVal(3) < 9):
        for outer in (None, 0, 1):
            def probe():
                s = snapshot()
                bak = add_guard(mk())
                if not (isinstance(bak, tuple) and len(bak) == 3 and same(bak, s)): fail("backup is not the previous state")
                restore_guard(bak)
                if not same(s, snapshot()): fail("restore")
            if outer is None: probe()
            else: guarded(PrivVal(outer))(probe)()
    check_point(top, "d6")
    check_constraints()

# ---------------------------------------------------------------------------------------------------------------
try:
    directed()
    NSC = 400 if MODE == "main" else 250
    for seed in range(NSC):
        scenario(seed, may_raise=(seed % 2 == 0))

    # fault injection: replay scenarios, making the k-th backend call raise, for every k
    nfi = 0
    for seed in range(1000, 1000 + (40 if MODE == "main" else 15)):
        events = 0; fault_at = None
        scenario(seed, may_raise=True)
        total = events
        step = 1 if total <= 400 else total // 400 + 1
        for k in range(1, total + 1, step):
            events = 0; fault_at = k
            scenario(seed, may_raise=True)
            nfi += 1
        fault_at = None
except CheckFailed as e:
    print("FAILED:", e)
    sys.exit(1)

print("[%s] %d check points, %d regions (%d with LinCombBool conditions, %d re-entered under the active guard, "
      "%d invalid guards refused), %d aborted by exception, %d fault-injection runs (%d faults caught), %d constraints evaluated"
      % (rt.backend_name, stats["points"], stats["regions"], stats["boolconds"], stats["fastpath"], stats["rejected"],
         stats["aborted"], nfi, stats["faults"], checked_upto))
for k in ("regions", "boolconds", "fastpath", "rejected", "aborted", "faults"):
    if stats[k] == 0:
        print("FAILED: no coverage of", k); sys.exit(1)

if MODE == "main":
    r = subprocess.run([sys.executable, os.path.abspath(__file__), "nobackend"])
    if r.returncode != 0:
        print("FAILED on nobackend"); sys.exit(1)
    print("OK")
sys.exit(0)
