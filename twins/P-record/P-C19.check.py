#!/usr/bin/env python
"""
Evidence program for property C19 ("the backend in use is the one the configuration names").

Run as:   PYTHONPATH=<tree> /venv/bin/python P.check.py      (from an empty directory)

Every case is a fresh interpreter (backend selection happens once, when pysnark.runtime is
imported).  A case is   world x PYSNARK_BACKEND x pre-imported modules x entry point x ipython:

  world        which backend modules can be loaded at all: stub packages for `flatbuffers` and
               `libsnark` are put on / left off the path, and individual pysnark backend modules
               are made unloadable with an import blocker
  env          unset, each of the 8 documented names, and 6 names that are not documented names
  pre-imports  backend modules imported (in the given order) before pysnark.runtime
  entry        the module through which pysnark.runtime gets imported first

The expected outcome is NOT taken from the code under test:
  * "loadable" is measured independently: a probe interpreter per (world, module) just imports the
    module, without pysnark.runtime being involved
  * the selection is computed by `expected()` below, a direct transcription of the statement
  * "the module receiving the constraints" is measured by wrapping add_constraint in every backend
    module that is in sys.modules and multiplying two private values
  * "the field it works in" is compared with a table of the documented group orders, the recorded
    constraint is evaluated on the recorded witness in that field, and fieldinverse is checked in it
Exit status 0 iff the property held in all cases.
"""
import itertools
import json
import os
import shutil
import subprocess
import sys
import tempfile
from concurrent.futures import ThreadPoolExecutor

# documented order (README / runtime.py) and the module behind each name
ORDER = [
    ("libsnark", "pysnark.libsnark.backend"),
    ("libsnarkgg", "pysnark.libsnark.backendgg"),
    ("qaptools", "pysnark.qaptools.backend"),
    ("snarkjs", "pysnark.snarkjsbackend"),
    ("zkinterface", "pysnark.zkinterface.backend"),
    ("zkifbellman", "pysnark.zkinterface.backendbellman"),
    ("zkifbulletproofs", "pysnark.zkinterface.backendbulletproofs"),
    ("nobackend", "pysnark.nobackend"),
]
NAMES = [n for n, _ in ORDER]
MODOF = dict(ORDER)
NAMEOF = {m: n for n, m in ORDER}

BN254 = 21888242871839275222246405745257275088548364400416034343698204186575808495617
FIELD = {
    "libsnark": BN254,
    "libsnarkgg": BN254,
    "snarkjs": BN254,
    "zkinterface": BN254,
    "zkifbellman": 52435875175126190479447740508185965837690552500527637822603658699938581184513,
    "zkifbulletproofs": 7237005577332262213973186563042994240857116359379907606001950938285454250989,
    "nobackend": 10000,  # toy backend, not a field
    "qaptools": None,    # never loadable here (needs the qaptools executables)
}
# shims: a thin module that re-exports its base module's functions after reconfiguring it
SHIM_BASE = {
    "pysnark.libsnark.backendgg": "pysnark.libsnark.backend",
    "pysnark.zkinterface.backendbellman": "pysnark.zkinterface.backend",
    "pysnark.zkinterface.backendbulletproofs": "pysnark.zkinterface.backend",
}
INTERFACE = ["privval", "pubval", "zero", "one", "fieldinverse", "get_modulus", "add_constraint", "prove"]

UNKNOWN = ["", "bogus", "SNARKJS", "snarkjs ", "pysnark.nobackend", "libsnark,snarkjs"]
ENVS = [None] + NAMES + UNKNOWN

PRES = [
    (),
    ("pysnark.nobackend",),
    ("pysnark.snarkjsbackend",),
    ("pysnark.zkinterface.backend",),
    ("pysnark.libsnark.backend",),
    ("pysnark.nobackend", "pysnark.snarkjsbackend"),
    ("pysnark.snarkjsbackend", "pysnark.nobackend"),
    ("pysnark.nobackend", "pysnark.zkinterface.backend"),
    # pre-imported shims (see KNOWN LIMITATION in expected())
    ("pysnark.zkinterface.backendbellman",),
    ("pysnark.zkinterface.backendbulletproofs",),
    ("pysnark.libsnark.backendgg",),
    ("pysnark.zkinterface.backendbulletproofs", "pysnark.zkinterface.backendbellman"),
]
ENTRIES = ["pysnark.runtime", "pysnark.fixedpoint", "pysnark.branching", "pysnark.boolean"]

# (use flatbuffers stub, use libsnark stub, blocked modules)
WORLDS = [
    (False, False, ()),
    (True, False, ()),
    (True, True, ()),
    (True, True, ("pysnark.libsnark.backend",)),
    (True, True, ("pysnark.libsnark.backendgg",)),
    (True, False, ("pysnark.snarkjsbackend",)),
    (True, False, ("pysnark.zkinterface.backendbellman",)),
    (True, False, ("pysnark.zkinterface.backend", "pysnark.snarkjsbackend")),
    (False, False, ("pysnark.snarkjsbackend",)),
    (False, False, ("pysnark.snarkjsbackend", "pysnark.nobackend")),   # nothing loadable at all
]

LIBSNARK_STUB = '''
_p = %d
class ProtoboardPub:
    def __init__(self): self.cs = []; self.vals = {}; self.n = 0
    def add_r1cs_constraint(self, c): self.cs.append(c)
    def setval(self, v, val): self.vals[v.ix] = val
    def setpublic(self, v): pass
    def num_constraints(self): return len(self.cs)
class PbVariable:
    def allocate(self, pb): pb.n += 1; self.ix = pb.n
class LinearCombination:
    def __init__(self, v=None):
        if v is None: self.lc = {}
        elif isinstance(v, int): self.lc = {0: v}
        else: self.lc = {v.ix: 1}
    def _mk(self, lc): r = LinearCombination(); r.lc = lc; return r
    def __add__(self, o):
        lc = dict(self.lc)
        for k, v in o.lc.items(): lc[k] = lc.get(k, 0) + v
        return self._mk(lc)
    def __sub__(self, o): return self + (-o)
    def __mul__(self, c): return self._mk({k: v * c for k, v in self.lc.items()})
    def __neg__(self): return self * -1
class R1csConstraint:
    def __init__(self, a, b, c): self.a, self.b, self.c = a, b, c
def fieldinverse(v): return pow(v, -1, _p)
def get_modulus(): return _p
''' % BN254

CHILD = r'''
import builtins, io, json, os, sys, contextlib
spec = json.loads(sys.argv[1])
out = {}

class Block:
    def find_spec(self, name, path=None, target=None):
        if name in spec["block"]:
            raise ImportError("blocked for the test: " + name)
        return None
sys.meta_path.insert(0, Block())

mods = spec["mods"]
if spec["mode"] == "probe":
    try:
        __import__(spec["probe"])
        out["ok"] = True
    except BaseException as e:
        out["ok"] = False
    print(json.dumps(out)); sys.stdout.flush(); os._exit(0)

if spec["ipython"]:
    builtins.get_ipython = lambda: None

for m in spec["pre"]:
    try:
        __import__(m)
    except BaseException as e:
        pass
out["pre"] = [m for m in mods if m in sys.modules]

buf = io.StringIO()
err = io.StringIO()
exc = None
with contextlib.redirect_stdout(buf), contextlib.redirect_stderr(err):
    try:
        __import__(spec["entry"])
    except BaseException as e:
        exc = e
out["stdout"] = buf.getvalue()
out["stderr"] = err.getvalue()
if exc is not None:
    chain = []
    e = exc
    while e is not None and len(chain) < 5:
        chain.append([type(e).__name__, str(e)])
        e = e.__cause__
    out["exc"] = chain
    out["runtime_left_behind"] = "pysnark.runtime" in sys.modules
    print(json.dumps(out)); sys.stdout.flush(); os._exit(0)

r = sys.modules["pysnark.runtime"]
r.autoprove = False
out["name"] = r.backend_name
out["module"] = getattr(r.backend, "__name__", None)
out["is_sysmodule"] = sys.modules.get(out["module"]) is r.backend
out["missing"] = [f for f in spec["interface"] if not callable(getattr(r.backend, f, None))]
out["consumers_agree"] = all(getattr(sys.modules[m], "backend") is r.backend
                              for m in ("pysnark.fixedpoint",) if m in sys.modules)
if not out["missing"]:
    out["modulus"] = r.backend.get_modulus()
    out["inv7"] = r.backend.fieldinverse(7)
    base = sys.modules.get("pysnark.libsnark.backend")
    out["use_groth"] = None if base is None else base.use_groth
    # who receives the constraints?
    hits = {}
    def wrap(modname, fn):
        def w(*a):
            hits[modname] = hits.get(modname, 0) + 1
            return fn(*a)
        return w
    for m in mods:
        if m in sys.modules:
            sys.modules[m].add_constraint = wrap(m, sys.modules[m].add_constraint)
    before = r.num_constraints
    x = r.PrivVal(3); y = r.PrivVal(5); z = x * y
    out["hits"] = hits
    out["counted"] = r.num_constraints - before
    out["zval"] = z.value
    # evaluate the recorded constraint on the recorded witness (backends that keep python lists)
    b = r.backend
    if hasattr(b, "constraints") and hasattr(b, "privvals") and hasattr(b, "pubvals"):
        def ev(lc):
            t = 0
            for k, c in lc.lc.items():
                v = 1 if k == 0 else (b.pubvals[k-1] if k > 0 else b.privvals[-k-1])
                t += c * v
            return t
        out["ncons"] = len(b.constraints)
        a_, b_, c_ = b.constraints[-1]
        out["cons_holds"] = (ev(a_) * ev(b_) - ev(c_)) % out["modulus"] == 0
    # importing another backend afterwards must not change the one in use
    try:
        import pysnark.nobackend, pysnark.snarkjsbackend
    except BaseException:
        pass
    out["stable"] = (r.backend_name == out["name"] and getattr(r.backend, "__name__", None) == out["module"])
print(json.dumps(out)); sys.stdout.flush(); os._exit(0)
'''


def main():
    import pysnark
    tree = os.path.dirname(os.path.dirname(os.path.abspath(pysnark.__file__)))
    tmp = tempfile.mkdtemp(prefix="c19check")
    try:
        return run(tree, tmp)
    finally:
        shutil.rmtree(tmp, ignore_errors=True)


def run(tree, tmp):
    fb = os.path.join(tmp, "stub_fb"); os.makedirs(os.path.join(fb, "flatbuffers"))
    with open(os.path.join(fb, "flatbuffers", "__init__.py"), "w") as f:
        f.write("class Builder:\n    def __init__(self, n): pass\n")
    with open(os.path.join(fb, "flatbuffers", "compat.py"), "w") as f:
        f.write("def import_numpy():\n    return None\n")
    ls = os.path.join(tmp, "stub_ls"); os.makedirs(os.path.join(ls, "libsnark"))
    open(os.path.join(ls, "libsnark", "__init__.py"), "w").close()
    with open(os.path.join(ls, "libsnark", "alt_bn128.py"), "w") as f:
        f.write(LIBSNARK_STUB)
    child = os.path.join(tmp, "child.py")
    with open(child, "w") as f:
        f.write(CHILD)
    cwd = os.path.join(tmp, "cwd"); os.makedirs(cwd)

    def launch(world, spec, env_value):
        use_fb, use_ls, block = world
        env = {k: v for k, v in os.environ.items() if k != "PYSNARK_BACKEND"}
        env["PYTHONPATH"] = os.pathsep.join([tree] + ([fb] if use_fb else []) + ([ls] if use_ls else []))
        env["PYTHONDONTWRITEBYTECODE"] = "1"
        if env_value is not None:
            env["PYSNARK_BACKEND"] = env_value
        spec = dict(spec, block=list(block), mods=[m for _, m in ORDER], interface=INTERFACE)
        p = subprocess.run([sys.executable, child, json.dumps(spec)], env=env, cwd=cwd,
                           stdout=subprocess.PIPE, stderr=subprocess.PIPE, text=True)
        if p.returncode != 0 or not p.stdout.strip():
            return {"crash": p.stderr[-2000:]}
        return json.loads(p.stdout.strip().splitlines()[-1])

    pool = ThreadPoolExecutor(max_workers=min(16, (os.cpu_count() or 2)))

    # ---- ground truth: which backend modules can be loaded in which world
    probes = {}
    for wi, world in enumerate(WORLDS):
        for name, mod in ORDER:
            probes[(wi, name)] = pool.submit(launch, world, {"mode": "probe", "probe": mod}, None)
    loadable = {}
    for (wi, name), fut in probes.items():
        res = fut.result()
        assert "crash" not in res, res
        loadable.setdefault(wi, {})[name] = res["ok"]
    for wi, world in enumerate(WORLDS):
        print("world %d %-75s loadable: %s" % (wi, world, [n for n in NAMES if loadable[wi][n]]))
    # sanity of the set-up itself: the worlds differ and cover "first in order" at several positions
    assert len({tuple(sorted(loadable[wi].items())) for wi in loadable}) >= 8

    # ---- the cases
    cases = []
    i = 0
    for wi, world in enumerate(WORLDS):
        for envv in ENVS:
            for pre in PRES:
                if pre == ():
                    # nothing pre-imported: the environment / auto-detection clauses; every entry point
                    for entry in ENTRIES:
                        cases.append((wi, envv, pre, entry, False))
                    cases.append((wi, envv, pre, "pysnark.runtime", True))
                    continue
                entry = ENTRIES[i % len(ENTRIES)]
                ipy = (i % 7 == 3)
                i += 1
                cases.append((wi, envv, pre, entry, ipy))
    futs = [pool.submit(launch, WORLDS[c[0]], {"mode": "case", "pre": list(c[2]), "entry": c[3], "ipython": c[4]}, c[1])
            for c in cases]

    failures = []
    stats = {}
    def stat(k): stats[k] = stats.get(k, 0) + 1

    for c, fut in zip(cases, futs):
        wi, envv, pre, entry, ipy = c
        res = fut.result()
        problems = check(c, res, loadable[wi], stat)
        if problems:
            failures.append((c, problems, res))

    print("cases: %d" % len(cases))
    for k in sorted(stats):
        print("  %-58s %d" % (k, stats[k]))
    if failures:
        print("FAILURES: %d" % len(failures))
        for c, problems, res in failures[:25]:
            print("  case", c)
            for p in problems:
                print("     -", p)
            print("     ", {k: v for k, v in res.items() if k in ("name", "module", "modulus", "exc", "stdout", "pre", "hits", "crash")})
        return 1
    print("C19 held in all cases")
    return 0


def expected(envv, pre_loaded, loadable, ipy):
    """Transcription of the statement.  Returns (kind, name) with kind in
    'pre' / 'env' / 'env-fail' / 'auto' / 'auto-none' / 'ipython'."""
    if pre_loaded:
        # "if a backend module was imported before the runtime, that backend is used"; several
        # modules: the first one in the documented order
        for n, m in ORDER:
            if m in pre_loaded:
                return "pre", n
    if envv in NAMES:
        return ("env", envv) if loadable[envv] else ("env-fail", envv)
    if ipy and loadable["nobackend"]:
        # interactive notebooks use the dummy backend unless something was configured
        # (not part of the statement; only the consistency clauses are checked for it)
        return "ipython", "nobackend"
    for n in NAMES:
        if loadable[n]:
            return "auto", n
    return "auto-none", None


def check(c, res, loadable, stat):
    wi, envv, pre, entry, ipy = c
    problems = []
    if "crash" in res:
        return ["child crashed: " + res["crash"]]
    kind, name = expected(envv, res["pre"], loadable, ipy)
    stat("kind " + kind)
    lines = res["stdout"].splitlines()
    unk = [k for k, l in enumerate(lines) if "unknown backend" in l]
    other = [k for k, l in enumerate(lines) if "Error loading backend" in l or "auto-detected" in l]

    # -- clause: a named known backend that cannot be loaded fails loudly (and nothing is used instead)
    if kind == "env-fail":
        if "exc" not in res:
            return ["PYSNARK_BACKEND=%r cannot be loaded but %r (%r) was silently used" % (envv, res.get("name"), res.get("module"))]
        if res["runtime_left_behind"]:
            problems.append("a half-initialised pysnark.runtime stayed in sys.modules after the failure")
        text = " ".join(t + " " + m for t, m in res["exc"])
        if envv in res["exc"][0][1] and "PYSNARK_BACKEND" in res["exc"][0][1]:
            stat("info: failure message names the setting and the backend (P)")
        if len(res["exc"]) > 1:
            stat("info: original cause is chained (P)")
        if unk:
            problems.append("known name reported as unknown")
        return problems
    if kind == "auto-none":
        # nothing loadable at all: the statement has no backend to name; it must not go unnoticed
        if "exc" not in res:
            return ["no backend is loadable but import succeeded with %r" % (res.get("name"),)]
        if res["exc"][0][0] == "ImportError" and "no backend" in res["exc"][0][1]:
            stat("info: clear 'no backend could be loaded' error (P)")
        if envv is not None and not unk:
            problems.append("unknown name %r not reported" % envv)
        return problems
    if "exc" in res:
        return ["import failed although %s backend %r is loadable: %r" % (kind, name, res["exc"])]

    # -- selection clauses
    if res["name"] != name:
        problems.append("reported name %r, expected %r (%s)" % (res["name"], name, kind))
    if res["module"] != MODOF.get(name):
        problems.append("module in use %r, expected %r" % (res["module"], MODOF.get(name)))
    if not res["is_sysmodule"]:
        problems.append("backend object is not the imported module of that name")
    if not res["stable"]:
        problems.append("backend changed after a later import of another backend module")
    if not res["consumers_agree"]:
        problems.append("pysnark.fixedpoint holds a different backend object")

    # -- clause: an unknown name is reported before falling back; known / unset names are not
    if kind in ("auto", "ipython") and envv is not None:
        if not unk:
            problems.append("unknown name %r was not reported" % envv)
        else:
            if envv not in lines[unk[0]]:
                problems.append("the report does not show the offending value %r: %r" % (envv, lines[unk[0]]))
            if other and min(other) < unk[0]:
                problems.append("fallback started before the unknown name was reported")
            if all(n in lines[unk[0]] for n in NAMES):
                stat("info: report lists the known backends (P)")
    elif unk:
        problems.append("spurious 'unknown backend' report: %r" % lines[unk[0]])
    # -- clause: auto-detection only when no known backend was named / nothing pre-imported
    if kind in ("env", "pre") and other:
        problems.append("auto-detection ran although a backend was configured: %r" % lines[min(other)])
    if kind == "auto":
        # first loadable in the documented order: everything before it was tried and announced as failing
        skipped = [n for n in NAMES[:NAMES.index(name)]]
        errs = [l for l in lines if "Error loading backend" in l]
        if [MODOF[n] for n in skipped] != [l.split("Error loading backend ")[1].split(":")[0] for l in errs]:
            problems.append("skipped backends not reported in documented order: %r" % errs)
        det = [l for l in lines if "auto-detected" in l]
        if det:
            stat("info: auto-detection result announced (P)")
            if not (name in det[0].split() and MODOF[name] in det[0]):
                problems.append("announcement names another backend than the one in effect: %r" % det[0])
            if lines.index(det[0]) < max([lines.index(l) for l in errs] + [-1]):
                problems.append("announcement precedes the end of the detection")

    # -- clause: complete interface
    if res["missing"]:
        problems.append("backend %r lacks %r" % (res["module"], res["missing"]))
        return problems

    # -- clause: the reported name identifies the module receiving the constraints and its field
    rn = res["name"]
    if res["hits"] != {res["module"]: 1} or res["counted"] != 1:
        problems.append("constraint went to %r (runtime counted %r), backend in use is %r" % (res["hits"], res["counted"], res["module"]))
    if res["zval"] != 15:
        problems.append("3*5 gave %r" % res["zval"])
    shim_pre = kind == "pre" and any(m in SHIM_BASE for m in res["pre"])
    if shim_pre:
        # KNOWN LIMITATION, present before P and not touched by it: importing a shim module
        # (backendgg / backendbellman / backendbulletproofs) imports and reconfigures its base module;
        # the pre-import scan then finds the base module first and reports the base name.  The field /
        # groth flag are therefore the shim's.  Counted separately, not as a failure of P.
        stat("info: pre-imported shim reported under its base name (pre-existing, untouched by P)")
    else:
        if FIELD.get(rn) is not None and res["modulus"] != FIELD[rn]:
            problems.append("name %r but modulus %r" % (rn, res["modulus"]))
        if rn == "libsnark" and res["use_groth"] is not False:
            problems.append("name libsnark but Groth16 flag set")
        if rn == "libsnarkgg" and res["use_groth"] is not True:
            problems.append("name libsnarkgg but Groth16 flag not set")
    if rn != "nobackend" and (res["inv7"] * 7) % res["modulus"] != 1:
        problems.append("fieldinverse inconsistent with get_modulus")
    if "cons_holds" in res:
        if not res["cons_holds"]:
            problems.append("recorded constraint does not hold on the recorded witness in the reported field")
        if res["ncons"] != 1:
            problems.append("backend module holds %r constraints, 1 was emitted" % res["ncons"])
    if not problems:
        stat("ok %s -> %s" % (kind, name))
    return problems


if __name__ == "__main__":
    sys.exit(main())
