# Evidence program for change P (LinComb.assert_range with two integer bounds
# decomposes only as many bits as the width of the range needs).
#
# Run as:  PYTHONPATH=<tree> /venv/bin/python P.check.py   (from an empty directory)
#
# It checks property C01 itself: after every traced computation that finished
# without raising (and without the user having switched error checking off),
# EVERY constraint handed to the backend is evaluated on the recorded witness
# modulo the backend's prime and must hold. Two backends are used, each in its
# own interpreter (the backend is chosen at import time):
#   phase "snarkjs": the real snarkjs backend (BN254 scalar field)
#   phase "tiny":    a stub backend over GF(61) with the same wire conventions;
#                    there the emitted system is additionally solved
#                    exhaustively (backtracking over all field elements for
#                    every auxiliary wire) for each possible value of the
#                    checked wire, to confirm that the cheaper gadget accepts
#                    exactly the values of the range.
# Exit status 0 iff the property held in all cases.

import os
import subprocess
import sys
import types

PHASES = ["snarkjs", "tiny"]

if len(sys.argv) == 1:
    for ph in PHASES:
        r = subprocess.run([sys.executable, os.path.abspath(__file__), ph])
        if r.returncode != 0:
            print("phase", ph, "FAILED")
            sys.exit(1)
    print("P.check: all phases passed")
    sys.exit(0)

phase = sys.argv[1]

# --------------------------------------------------------------------------
# backends
# --------------------------------------------------------------------------

if phase == "snarkjs":
    os.environ["PYSNARK_BACKEND"] = "snarkjs"
    import pysnark.snarkjsbackend as be
    MOD = be.snarkjsp
else:
    TINYP = 61

    class LC:
        def __init__(self, lc): self.lc = lc
        def __add__(self, other):
            lc = dict(self.lc)
            for k, v in other.lc.items(): lc[k] = lc.get(k, 0) + v
            return LC(lc)
        def __sub__(self, other): return self + (-other)
        def __mul__(self, other): return LC({k: v * other for (k, v) in self.lc.items()})
        def __neg__(self): return self * -1

    be = types.ModuleType("pysnark.nobackend")
    be.privvals = []
    be.pubvals = []
    be.constraints = []
    def _privval(val):
        be.privvals.append(val)
        return LC({-len(be.privvals): 1})
    def _pubval(val):
        be.pubvals.append(val)
        return LC({len(be.pubvals): 1})
    be.privval = _privval
    be.pubval = _pubval
    be.zero = lambda: LC({})
    be.one = lambda: LC({0: 1})
    be.fieldinverse = lambda val: pow(val % TINYP, TINYP - 2, TINYP)
    be.get_modulus = lambda: TINYP
    be.add_constraint = lambda v, w, y: be.constraints.append([v, w, y])
    be.prove = lambda: None
    os.environ.pop("PYSNARK_BACKEND", None)
    sys.modules["pysnark.nobackend"] = be
    MOD = TINYP

import pysnark.runtime as rt
rt.autoprove = False          # do not write files at exit

assert rt.backend is be, "wrong backend selected"

from pysnark.runtime import PrivVal, PubVal, LinComb, ignore_errors, guarded
from pysnark.boolean import PrivValBool, PubValBool
from pysnark.branching import if_then_else, BranchingValues, _if, _elif, _else, _endif
from pysnark.fixedpoint import PrivValFxp

# --------------------------------------------------------------------------
# evaluating the emitted system on the recorded witness
# --------------------------------------------------------------------------

def reset():
    del be.privvals[:]
    del be.pubvals[:]
    del be.constraints[:]
    assert rt.guard is None and not ignore_errors()
    assert LinComb.ONE is LinComb.ONE_SAFE

def wire(k, pub=None, priv=None):
    pub = be.pubvals if pub is None else pub
    priv = be.privvals if priv is None else priv
    if k == 0: return 1
    return pub[k - 1] if k > 0 else priv[-k - 1]

def ev(lc, pub=None, priv=None):
    return sum(c * wire(k, pub, priv) for (k, c) in lc.lc.items()) % MOD

def holds(c, pub=None, priv=None):
    return (ev(c[0], pub, priv) * ev(c[1], pub, priv) - ev(c[2], pub, priv)) % MOD == 0

nruns = 0
nconstraints = 0

def check_all(what):
    """ property C01: every emitted constraint holds on the recorded witness """
    global nruns, nconstraints
    for (i, c) in enumerate(be.constraints):
        if not holds(c):
            print("VIOLATION: constraint", i, "of", len(be.constraints), "does not hold:", what)
            sys.exit(1)
    nruns += 1
    nconstraints += len(be.constraints)

def traced(what, fn, *args):
    """ run fn on a fresh system; returns ("ok", ret) after checking C01, or ("raised", exc) """
    reset()
    try:
        ret = fn(*args)
    except (AssertionError, ValueError, IndexError) as e:
        # a run that raises is outside the property; the guard state must have been restored
        assert rt.guard is None and not ignore_errors(), "guard state leaked: " + what
        return ("raised", e)
    check_all(what)
    return ("ok", ret)

def expect_ok(what, fn, *args):
    r = traced(what, fn, *args)
    if r[0] != "ok":
        print("UNEXPECTED exception for", what, ":", repr(r[1]))
        sys.exit(1)
    return r[1]

def expect_raise(what, fn, *args):
    r = traced(what, fn, *args)
    if r[0] != "raised" or not isinstance(r[1], AssertionError):
        print("EXPECTED AssertionError for", what, "got", r)
        sys.exit(1)

# --------------------------------------------------------------------------
# the programs
# --------------------------------------------------------------------------

def plain(mk, v, lo, hi):
    x = mk(v)
    x.assert_range(lo, hi)
    return x

def composite(v, lo, hi):
    # a checked value that is a non-trivial linear combination, and use of the value afterwards
    a = PrivVal(v - 3); b = PubVal(7)
    x = a * 2 + b - (v - 3) - 4          # value v
    x.assert_range(lo, hi)
    y = x * x
    (y - v * v).assert_zero()
    return y

def lazy(cv, v, lo, hi, w):
    # range assertion in a lazily evaluated branch
    c = PrivValBool(cv)
    x = PrivVal(v); z = PrivVal(w)
    def tb():
        x.assert_range(lo, hi)
        return x * z
    r = if_then_else(c, tb, lambda: z + 1)
    (r - (v * w if cv else w + 1)).assert_zero()
    return r

def lazy_else(cv, v, lo, hi):
    c = PubValBool(cv)
    x = PrivVal(v)
    def fb():
        x.assert_range(lo, hi)
        return x + 1
    return if_then_else(c, lambda: x * x, fb)

def nested(c1v, c2v, v, lo, hi):
    c1 = PrivValBool(c1v); c2 = PrivValBool(c2v)
    x = PrivVal(v)
    def inner():
        x.assert_range(lo, hi)
        return x * 3
    # a second, wider, constant range (kept within 2^bitlength so that it cannot raise for v in [lo,hi))
    (wlo, whi) = (lo - 1, hi + 2) if hi - lo + 3 <= (1 << rt.bitlength) else (lo, hi)
    def outer():
        x.assert_range(wlo, whi)
        return if_then_else(c2, inner, lambda: x * x)
    return if_then_else(c1, outer, 5)

def decorated(cv, v, lo, hi):
    c = PrivVal(cv)
    x = PrivVal(v)
    @guarded(c)
    def body():
        x.assert_range(lo, hi)
        x.assert_range(lo, hi, err="custom")
    body()

def ifelse_api(cv, v, lo, hi):
    # guarded regions of the _if/_else API (branch-local assertions only: in this version of the
    # library the API cannot merge values that a branch reassigns)
    _ = BranchingValues()
    x = PrivVal(v)
    if _if(PrivVal(cv)):
        x.assert_range(lo, hi)
        (x * x - v * v).assert_zero()
    if _else():
        (x + 0).assert_range(hi, hi + (hi - lo))       # the complementary block above the range
        (x * 5 - 5 * v).assert_zero()
    _endif()

def mixed(v, lo, hi, which):
    # one or both bounds given as LinComb: the general (full bitlength) path
    x = PrivVal(v)
    if which == 0: x.assert_range(PrivVal(lo), hi)
    elif which == 1: x.assert_range(lo, PubVal(hi))
    else: x.assert_range(PrivVal(lo), PrivVal(hi))

def fxp(v, lo, hi):
    PrivValFxp(v).assert_range(PrivValFxp(lo), PrivValFxp(hi))

def in_ignored(v, lo, hi):
    # user switched error checking off: outside the property, must merely not crash
    ignore_errors(True)
    try:
        PrivVal(v).assert_range(lo, hi)
    finally:
        ignore_errors(False)

def run_family(bl, lo, hi, vals_in, vals_out):
    rt.bitlength = bl
    tag = "bl=%d [%d,%d)" % (bl, lo, hi)
    for v in vals_in:
        for mk in (PrivVal, PubVal):
            expect_ok(tag + " plain v=%d" % v, plain, mk, v, lo, hi)
        expect_ok(tag + " composite v=%d" % v, composite, v, lo, hi)
        for cv in (0, 1):
            expect_ok(tag + " lazy c=%d v=%d" % (cv, v), lazy, cv, v, lo, hi, 3)
            expect_ok(tag + " lazy_else c=%d v=%d" % (cv, v), lazy_else, cv, v, lo, hi)
            expect_ok(tag + " decorated c=%d v=%d" % (cv, v), decorated, cv, v, lo, hi)
            for c2 in (0, 1):
                expect_ok(tag + " nested %d%d v=%d" % (cv, c2, v), nested, cv, c2, v, lo, hi)
        expect_ok(tag + " ifelse then v=%d" % v, ifelse_api, 1, v, lo, hi)
        expect_ok(tag + " ifelse else v=%d" % (v + hi - lo), ifelse_api, 0, v + hi - lo, lo, hi)
    for v in vals_out:
        for mk in (PrivVal, PubVal):
            expect_raise(tag + " plain out v=%d" % v, plain, mk, v, lo, hi)
        expect_raise(tag + " lazy out c=1 v=%d" % v, lazy, 1, v, lo, hi, 3)
        expect_raise(tag + " lazy_else out c=0 v=%d" % v, lazy_else, 0, v, lo, hi)
        expect_raise(tag + " decorated out c=1 v=%d" % v, decorated, 1, v, lo, hi)
        expect_raise(tag + " nested out 11 v=%d" % v, nested, 1, 1, v, lo, hi)
        # the same offending values in a branch that is not taken: run must finish and C01 must hold
        expect_ok(tag + " lazy out c=0 v=%d" % v, lazy, 0, v, lo, hi, 3)
        expect_ok(tag + " lazy_else out c=1 v=%d" % v, lazy_else, 1, v, lo, hi)
        expect_ok(tag + " decorated out c=0 v=%d" % v, decorated, 0, v, lo, hi)
        expect_ok(tag + " nested out 00 v=%d" % v, nested, 0, 0, v, lo, hi)
        expect_ok(tag + " nested out 01 v=%d" % v, nested, 0, 1, v, lo, hi)
        # error checking switched off by the user: only absence of a crash is required
        reset(); in_ignored(v, lo, hi)

def edge_values(lo, hi):
    ins = sorted(set(v for v in (lo, lo + 1, (lo + hi) // 2, hi - 2, hi - 1) if lo <= v < hi))
    w = hi - lo
    outs = sorted(set([lo - 1, hi, lo - w, hi + w, lo - 2, hi + 1, lo - (1 << 20), hi + (1 << 20), -hi, -lo - 1])
                  - set(range(lo, hi)))
    return ins, outs

if phase == "snarkjs":
    for bl in (4, 8, 16):
        top = 1 << bl
        ranges = [(0, 1), (0, 2), (0, 3), (5, 6), (5, 7), (3, 11), (3, 12), (-4, 4), (-4, 5), (-7, -2), (-1, 0),
                  (0, top), (0, top - 1), (0, top // 2 + 1), (1, top + 1), (-top // 2, top // 2), (100000, 100000 + top),
                  (10 ** 30, 10 ** 30 + 5), (-10 ** 30 - 9, -10 ** 30)]
        for (lo, hi) in ranges:
            ins, outs = edge_values(lo, hi)
            run_family(bl, lo, hi, ins, outs)
        # all values of a few small ranges
        for (lo, hi) in [(0, 8), (-3, 6), (2, 9)]:
            run_family(bl, lo, hi, list(range(lo, hi)), [lo - 1, hi])
        # ranges wider than 2^bitlength are still handled at the full bitlength (values whose
        # offsets do not fit raise; the others must satisfy C01)
        rt.bitlength = bl
        for (lo, hi) in [(0, top + 1), (0, 2 * top), (-top, top + 5)]:
            for v in (lo, lo + 1, hi - 1, hi - top, lo + top - 1, (lo + hi) // 2):
                for fn, args in ((plain, (PrivVal, v, lo, hi)), (lazy, (1, v, lo, hi, 2)), (lazy, (0, v, lo, hi, 2))):
                    traced("wide bl=%d [%d,%d) v=%d" % (bl, lo, hi, v), fn, *args)
            expect_raise("wide out", plain, PrivVal, hi, lo, hi)
            expect_raise("wide out", plain, PrivVal, lo - 1, lo, hi)
        # empty ranges: raise when reachable, harmless in a branch not taken
        for (lo, hi) in [(3, 3), (5, 2), (0, -top)]:
            for v in (lo, hi, 0, hi - 1):
                expect_raise("empty [%d,%d) v=%d" % (lo, hi, v), plain, PrivVal, v, lo, hi)
                expect_raise("empty lazy1", lazy, 1, v, lo, hi, 2)
                expect_ok("empty lazy0 [%d,%d) v=%d" % (lo, hi, v), lazy, 0, v, lo, hi, 2)
                expect_ok("empty nested", nested, 0, 1, v, lo, hi)
                reset(); in_ignored(v, lo, hi)
        # bounds given as LinComb / fixed point: unchanged general path, must keep satisfying C01
        for (lo, hi) in [(0, 5), (-3, 4), (1, 2)]:
            for v in range(lo, hi):
                for which in (0, 1, 2):
                    expect_ok("mixed", mixed, v, lo, hi, which)
            for which in (0, 1, 2):
                expect_raise("mixed out", mixed, hi, lo, hi, which)
                expect_raise("mixed out", mixed, lo - 1, lo, hi, which)
        if bl >= 8:
            rt.bitlength = bl
            expect_ok("fxp", fxp, 1.5, 1.0, 2.0)
            expect_raise("fxp out", fxp, 2.0, 1.0, 2.0)
        # Boolean bounds are integers too
        rt.bitlength = bl
        expect_ok("bool bounds", plain, PrivVal, 0, False, True)
        expect_raise("bool bounds out", plain, PrivVal, 1, False, True)
        # custom error text is used
        r = traced("err", lambda: PrivVal(9).assert_range(0, 8, err="my text"))
        assert r[0] == "raised" and str(r[1]) == "my text", r

else:
    # ---------------- GF(61), bitlength 3 and 4 ----------------
    def solve(cons, npriv, fixed):
        """ is there an assignment of the private wires (wire -1 fixed to `fixed`) satisfying cons?
            exhaustive backtracking over the whole field for every free wire """
        priv = [None] * npriv
        priv[0] = fixed
        # constraint becomes checkable once its highest-numbered private wire is assigned
        ready = [[] for _ in range(npriv)]
        for c in cons:
            ks = [-k - 1 for part in c for k in part.lc if k < 0]
            assert all(k <= 0 for part in c for k in part.lc)      # no public wires in these systems
            ready[max(ks) if ks else 0].append(c)
        def rec(i):
            if i == npriv: return True
            cands = [priv[i]] if priv[i] is not None else range(MOD)
            keep = priv[i]
            for cand in cands:
                priv[i] = cand
                if all(holds(c, [], priv) for c in ready[i]) and rec(i + 1):
                    priv[i] = keep
                    return True
            priv[i] = keep
            return False
        return rec(0)

    for bl in (3, 4):
        rt.bitlength = bl
        top = 1 << bl
        ranges = [(lo, lo + w) for lo in (-5, -1, 0, 2, 7) for w in range(1, top + 1)]
        for (lo, hi) in ranges:
            ins = list(range(lo, hi))
            run_family(bl, lo, hi, ins, [lo - 1, hi, lo - top, hi + top])
            # soundness of the emitted gadget: trace with an honest value, then for every field
            # element try to complete it to a satisfying assignment
            expect_ok("trace", plain, PrivVal, lo, lo, hi)
            cons = list(be.constraints); npriv = len(be.privvals)
            allowed = set(v % MOD for v in range(lo, hi))
            for xv in range(MOD):
                sat = solve(cons, npriv, xv)
                if sat != (xv in allowed):
                    print("SOUNDNESS/COMPLETENESS mismatch: bl=%d [%d,%d) x=%d satisfiable=%s" % (bl, lo, hi, xv, sat))
                    sys.exit(1)

print("phase %s: %d traced runs finished, %d constraints evaluated, all satisfied" % (phase, nruns, nconstraints))
sys.exit(0)
