# Evidence program for property C10 (snarkjs files encode exactly the traced circuit and a
# valid witness).  Run as   PYTHONPATH=<tree> /venv/bin/python P.check.py   from an empty directory.
#
# For many traced programs (corner cases and random ones) it
#   * records, independently of the backend's own bookkeeping, every value handed to
#     pubval()/privval() and every constraint handed to add_constraint() (copies of the dicts),
#   * lets the backend write witness.wtns / circuit.r1cs,
#   * parses both files strictly (magic, version, section table, declared sizes and counts against
#     the actual content, nothing trailing, every field element < p, every wire < nWires),
#   * compares the decoded witness with  [1] + [v mod p for recorded public values] +
#     [v mod p for recorded private values]  and the decoded constraints with the recorded ones under
#     the wire numbering  one, publics in creation order, privates in creation order,
#   * evaluates every decoded constraint on the decoded witness (unless the program was traced
#     with ignore_errors on purpose).
# Exit status 0 iff the property held in every case.

import os, random, shutil, struct, sys, tempfile, io, contextlib

os.environ["PYSNARK_BACKEND"] = "snarkjs"
import pysnark.runtime as rt
rt.autoprove = False                      # nothing is written at exit
import pysnark.snarkjsbackend as be
from pysnark.runtime import PubVal, PrivVal, ConstVal, LinComb, ignore_errors, guarded
from pysnark.boolean import PrivValBool, PubValBool
from pysnark.fixedpoint import PrivValFxp, PubValFxp
from pysnark.branching import if_then_else

assert rt.backend is be
P = 21888242871839275222246405745257275088548364400416034343698204186575808495617
assert be.get_modulus() == P

# ---------------------------------------------------------------- independent recording
log_pub, log_priv, log_cons = [], [], []
_pubval, _privval, _addc = be.pubval, be.privval, be.add_constraint

def pubval(v):
    r = _pubval(v)              # only logged when accepted
    log_pub.append(v); return r
def privval(v):
    r = _privval(v)
    log_priv.append(v); return r
def add_constraint(v, w, y):
    log_cons.append((dict(v.lc), dict(w.lc), dict(y.lc)))
    return _addc(v, w, y)
be.pubval, be.privval, be.add_constraint = pubval, privval, add_constraint

def fresh():
    del be.pubvals[:], be.privvals[:], be.constraints[:]
    del log_pub[:], log_priv[:], log_cons[:]
    rt.guard = None
    rt.ignore_errors(False)
    LinComb.ONE = LinComb.ONE_SAFE

# ---------------------------------------------------------------- strict decoders
class Bad(Exception): pass

class Rd:
    def __init__(self, data): self.d, self.o = data, 0
    def take(self, n):
        if self.o + n > len(self.d): raise Bad("file truncated at offset %d (+%d)" % (self.o, n))
        b = self.d[self.o:self.o + n]; self.o += n; return b
    def u32(self): return struct.unpack("<I", self.take(4))[0]
    def u64(self): return struct.unpack("<Q", self.take(8))[0]
    def fe(self):
        v = int.from_bytes(self.take(32), "little")
        if v >= P: raise Bad("non-canonical field element %d at offset %d" % (v, self.o - 32))
        return v

def need(c, msg):
    if not c: raise Bad(msg)

def decode_wtns(data):
    r = Rd(data)
    need(r.take(4) == b"wtns", "wtns magic")
    need(r.u32() == 2, "wtns version")
    need(r.u32() == 2, "wtns number of sections")
    need(r.u32() == 1, "wtns section 1 id"); need(r.u64() == 40, "wtns section 1 size")
    need(r.u32() == 32, "wtns n8")
    need(int.from_bytes(r.take(32), "little") == P, "wtns prime")
    n = r.u32()
    need(r.u32() == 2, "wtns section 2 id"); need(r.u64() == 32 * n, "wtns section 2 size != 32*count")
    w = [r.fe() for _ in range(n)]
    need(r.o == len(data), "wtns trailing bytes")
    return w

def decode_r1cs(data):
    r = Rd(data)
    need(r.take(4) == b"r1cs", "r1cs magic")
    need(r.u32() == 1, "r1cs version")
    need(r.u32() == 3, "r1cs number of sections")
    need(r.u32() == 1, "r1cs section 1 id"); need(r.u64() == 64, "r1cs header size")
    need(r.u32() == 32, "r1cs n8")
    need(int.from_bytes(r.take(32), "little") == P, "r1cs prime")
    nwires, nout, npubin, nprvin = r.u32(), r.u32(), r.u32(), r.u32()
    nlabels = r.u64()
    ncons = r.u32()
    need(r.u32() == 2, "r1cs section 2 id"); size2 = r.u64(); start = r.o
    cons = []
    for _ in range(ncons):
        c = []
        for _ in range(3):
            terms = []
            for _ in range(r.u32()):
                wire = r.u32(); need(wire < nwires, "wire %d >= nWires %d" % (wire, nwires))
                terms.append((wire, r.fe()))
            c.append(terms)
        cons.append(c)
    need(r.o - start == size2, "r1cs section 2 declared size %d, actual %d" % (size2, r.o - start))
    need(r.u32() == 3, "r1cs section 3 id"); need(r.u64() == 8 * nwires, "r1cs section 3 size")
    r.take(8 * nwires)
    need(r.o == len(data), "r1cs trailing bytes")
    return dict(nwires=nwires, nout=nout, npubin=npubin, nprvin=nprvin, nlabels=nlabels), cons

# ---------------------------------------------------------------- the property
def as_map(terms, what):
    m = {}
    for wire, c in terms:
        need(wire not in m, "%s: wire %d occurs twice in one linear combination" % (what, wire))
        m[wire] = c
    return {k: v for k, v in m.items() if v}          # zero terms carry no meaning

def evaluate(terms, w): return sum(c * w[i] for i, c in terms) % P

def check_files(name, satisfied=True):
    npub, npriv = len(log_pub), len(log_priv)
    wire = lambda k: k if k >= 0 else npub - k
    with open("witness.wtns", "rb") as f: w = decode_wtns(f.read())
    with open("circuit.r1cs", "rb") as f: hdr, cons = decode_r1cs(f.read())
    need(len(w) == 1 + npub + npriv, "witness has %d entries for 1+%d+%d values" % (len(w), npub, npriv))
    need(hdr["nwires"] == len(w), "nWires %d != witness length %d" % (hdr["nwires"], len(w)))
    need(hdr["nout"] + hdr["npubin"] == npub, "header declares %d public wires, traced %d" % (hdr["nout"] + hdr["npubin"], npub))
    exp = [1] + [v % P for v in log_pub] + [v % P for v in log_priv]
    for i, (a, b) in enumerate(zip(w, exp)):
        need(a == b, "witness[%d] = %d, traced value %d" % (i, a, b))
    need(len(cons) == len(log_cons), "%d constraints written, %d traced" % (len(cons), len(log_cons)))
    for j, (c, t) in enumerate(zip(cons, log_cons)):
        for s in range(3):
            got = as_map(c[s], "constraint %d.%s" % (j, "ABC"[s]))
            want = {wire(k): v % P for k, v in t[s].items() if v % P}
            need(got == want, "constraint %d.%s decodes to %r, traced %r" % (j, "ABC"[s], got, want))
        if satisfied:
            need(evaluate(c[0], w) * evaluate(c[1], w) % P == evaluate(c[2], w),
                 "constraint %d not satisfied by the decoded witness" % j)
    return w, cons

ncases = 0
failures = []
def case(name, fn, satisfied=True):
    global ncases
    ncases += 1
    fresh()
    try:
        fn()
        for f in ("witness.wtns", "circuit.r1cs"):
            if os.path.exists(f): os.remove(f)
        with contextlib.redirect_stderr(io.StringIO()):
            be.prove()
        check_files(name, satisfied)
    except Bad as e:
        failures.append("%s: PROPERTY VIOLATED: %s" % (name, e))
    except Exception as e:
        failures.append("%s: unexpected %s: %s" % (name, type(e).__name__, e))
    finally:
        fresh()

def expect(c, msg):
    if not c: raise Bad("plain-Python semantics: " + msg)

# ---------------------------------------------------------------- programs
WIDE = [0, 1, -1, 2, -2, P - 1, P, P + 1, -P, -P - 1, 1 - P, 2 * P, 7 * P + 5, -3 * P - 4,
        2 ** 255, 2 ** 256 - 1, 2 ** 256, 2 ** 256 + 1, -2 ** 256, 2 ** 300 + 12345, -2 ** 300 - 1,
        2 ** 521 - 1, -(2 ** 600) + 3, P * P, -P * P, (P - 1) // 2, (P + 1) // 2]

def p_empty(): pass
def p_only_pub():
    for v in (5, -5, P, 2 ** 300): PubVal(v)
def p_only_priv():
    for v in (5, -5, P, 2 ** 300): PrivVal(v)
def p_unused_and_order():
    a = PrivVal(3); b = PubVal(4); c = PrivVal(5); d = PubVal(6); e = PrivVal(7)
    r = a * d + c * b
    expect(r.value == 3 * 6 + 5 * 4, "a*d+c*b")
    (r + e).assert_eq(PubVal(3 * 6 + 5 * 4 + 7))
def p_wide_values():
    for v in WIDE:
        x = PrivVal(v); y = PubVal(-v)
        (x + y).assert_zero()
        z = x * y
        expect(z.value == -v * v, "x*y")
        (z + x * x).assert_zero()
def p_wide_constants():
    x = PrivVal(11); y = PubVal(-13)
    for c in WIDE:
        t = x * c + y * (-c) + ConstVal(c)
        expect(t.value == 11 * c + 13 * c + c, "x*c - y*c + c")
        u = t * x                       # puts the coefficients into a constraint
        u.assert_eq(ConstVal(t.value * 11))
def p_zero_coeffs_and_empty():
    x = PrivVal(9); y = PubVal(10)
    z = x - x                           # {x: 0}
    (z * y).assert_zero()               # 0-coefficient A
    (y * z).assert_zero()
    q = x * P + y * (-2 * P)            # coefficients = 0 mod p, value != 0 over the integers
    rt.add_constraint_unsafe(q, y, LinComb.ZERO)
    rt.add_constraint_unsafe(LinComb.ZERO, LinComb.ZERO, LinComb.ZERO)
    rt.add_constraint_unsafe(LinComb.ZERO, x, z)
    rt.add_constraint_unsafe(LinComb.ONE, LinComb.ONE, LinComb.ONE)
    rt.add_constraint_unsafe(x * 0, y * 0, ConstVal(0))
    (x * y - y * x).assert_zero()
def p_division():
    x = PrivVal(84); y = PubVal(-7)
    expect((x / 4).value == 21, "84/4"); (x / 4).assert_eq(21)
    expect((x / y).value == -12, "84/-7")
    q, r = divmod(x, 5); expect((q.value, r.value) == (16, 4), "divmod")
    expect((x // PubVal(5)).value == 84 // 5, "floordiv")
    expect((x % 9).value == 84 % 9, "mod")
    expect((x ** 3).value == 84 ** 3, "pow")
def p_bits_compare():
    x = PrivVal(1234); y = PubVal(-77)
    expect([b.val() for b in x.to_bits()] == [(1234 >> i) & 1 for i in range(rt.bitlength)], "to_bits")
    expect((x < y).val() == 0 and (x > y).val() == 1 and (x >= y).val() == 1 and (x <= y).val() == 0, "compare")
    expect((x == y).val() == 0 and (x != y).val() == 1 and (x == x).val() == 1, "eq")
    expect((x & 0xff).value == 1234 & 0xff and (x | 5).value == 1234 | 5 and (x ^ PrivVal(77)).value == 1234 ^ 77, "bitwise")
    expect((x << 2).value == 1234 << 2 and (x >> 3).value == 1234 >> 3, "shift")
    expect(abs(y).value == 77 and (-y).value == 77, "abs/neg")
    x.assert_range(1000, 2000); y.assert_nonzero(); x.assert_positive(); (x - 1234).assert_zero()
    expect(x.check_zero().val() == 0 and (x - x).check_zero().val() == 1 and y.check_nonzero().val() == 1, "check_zero")
def p_bool_fxp():
    a = PrivValBool(1); b = PubValBool(0)
    expect((a & b).val() == 0 and (a | b).val() == 1 and (a ^ b).val() == 1 and (~a).val() == 0, "bool ops")
    f = PrivValFxp(1.5); g = PubValFxp(-2.25)
    expect(abs((f * g).val() - (-3.375)) < 1e-2, "fxp mul")
    expect(abs((f + g).val() + 0.75) < 1e-2, "fxp add")
    expect(abs((g / f).val() + 1.5) < 1e-2, "fxp div")
    expect((f < g).val() == 0, "fxp lt")

def mk_guarded(condval, big):
    def prog():
        c = PrivValBool(condval)
        a = PrivVal(big); b = PubVal(-big + 3)
        def taken():
            t = a * b
            t.assert_eq(ConstVal(big * (-big + 3)))
            return t + 1
        def wrong():
            # only correct when not executed "for real": slack values become products of wide numbers
            t = a * b
            (t * a).assert_eq(b + 17)
            (a * 5).assert_zero()
            (a / 1).assert_ne(big)
            return t - a
        r = if_then_else(c, taken if condval else wrong, wrong if condval else taken)
        expect(r.value == big * (-big + 3) + 1, "if_then_else value")
        # nested guards
        d = PubValBool(1 - condval)
        def inner_taken(): return a + b
        def inner_wrong():
            (a * a).assert_eq(1)
            return a
        def outer_taken(): return if_then_else(d, inner_taken if 1 - condval else inner_wrong, inner_wrong if 1 - condval else inner_taken) * 2
        def outer_wrong():
            (b * b).assert_eq(a)
            return if_then_else(d, inner_wrong, lambda: inner_wrong() + 1)
        r2 = if_then_else(c, outer_taken if condval else outer_wrong, outer_wrong if condval else outer_taken)
        expect(r2.value == 6, "nested if_then_else value")
    return prog

def p_guarded_decorator():
    g0 = PrivVal(0); g1 = PubVal(1); x = PrivVal(2 ** 200); y = PubVal(-3)
    @guarded(g0)
    def off():
        (x * y).assert_eq(5)
        (x * x * x).assert_zero()
        @guarded(g1)
        def off_on(): (y * y).assert_eq(x)
        off_on()
    @guarded(g1)
    def on():
        (x * y).assert_eq(-3 * 2 ** 200)
        @guarded(g0)
        def on_off(): (x + y).assert_zero()
        on_off()
    off(); on()

def p_ignore_errors():
    ignore_errors(True)
    x = PrivVal(2 ** 270 + 1); y = PubVal(-5)
    (x * y).assert_eq(7)                # false on purpose
    (x / 2).assert_zero()               # not divisible: field division
    x.assert_zero()
    ignore_errors(False)

def p_backend_api():
    # the backend used directly, with the integer-like values it documents / accepts
    a = be.privval(True); b = be.pubval(False); c = be.privval(-1)
    be.add_constraint(a + c, a - b, be.zero())          # (1-1)*(1-0) = 0
    be.add_constraint(a * -1, c * (P + 1), be.one())    # (-1)*(-1) = 1
    be.add_constraint(be.zero(), be.one(), be.zero() * 5)
    be.add_constraint(be.one() * 0, be.one() * P, -be.zero())
    n_before = (len(be.pubvals), len(be.privvals))
    for bad in (2.5, None, "7", 1 + 0j):
        for f in (be.privval, be.pubval):
            try:
                f(bad)
            except TypeError:
                # rejected at creation: then no wire may have been allocated for it
                need((len(be.pubvals), len(be.privvals)) == n_before, "rejected value still allocated a wire")
            else:
                # older behaviour: accepted now, prove() would choke later; take it out again
                del be.pubvals[n_before[0]:], be.privvals[n_before[1]:]
                del log_pub[n_before[0]:], log_priv[n_before[1]:]
    class Idx:
        def __init__(self, v): self.v = v
        def __index__(self): return self.v
    d = be.privval(Idx(2 ** 300)); e = be.pubval(Idx(-2 ** 300))
    if isinstance(be.privvals[-1], int) and isinstance(be.pubvals[-1], int):
        log_priv[-1] = 2 ** 300; log_pub[-1] = -2 ** 300
        be.add_constraint(d + e, be.one(), be.zero())
    else:
        # tree without support for integer-like objects (prove() could not write them): take them out
        del be.pubvals[-1], be.privvals[-1], log_pub[-1], log_priv[-1]

def mk_random(seed):
    def prog():
        rnd = random.Random(seed)
        def val():
            k = rnd.randrange(6)
            if k == 0: return rnd.choice(WIDE)
            if k == 1: return rnd.randrange(-2 ** 300, 2 ** 300)
            if k == 2: return rnd.randrange(-P, 2 * P)
            return rnd.randrange(-50, 50)
        pool = []       # (LinComb, python value)
        for _ in range(rnd.randrange(1, 6)):
            v = val(); pool.append(((PubVal if rnd.random() < .5 else PrivVal)(v), v))
        for _ in range(rnd.randrange(3, 25)):
            op = rnd.randrange(9)
            (x, xv), (y, yv) = rnd.choice(pool), rnd.choice(pool)
            if op == 0: r, v = x + y, xv + yv
            elif op == 1: r, v = x - y, xv - yv
            elif op == 2: r, v = x * y, xv * yv
            elif op == 3:
                c = val(); r, v = x * c, xv * c
            elif op == 4:
                c = val(); r, v = c - x, c - xv
            elif op == 5: r, v = -x, -xv
            elif op == 6:
                nv = val(); r, v = (PubVal if rnd.random() < .5 else PrivVal)(nv), nv
            elif op == 7:
                (x - x + y * 0).assert_zero(); r, v = x, xv
            else:
                c = rnd.choice([1, -1, 3, -7, 2 ** 128 + 51])
                r, v = (x * c) / c, xv
            expect(r.value == v, "random program value")
            if abs(v) < 2 ** 2000: pool.append((r, v))
            if rnd.random() < .3: r.assert_eq(ConstVal(v))
            if rnd.random() < .2: (r * r).assert_eq(PubVal(v * v))
    return prog

# ---------------------------------------------------------------- main
def main():
    tmp = tempfile.mkdtemp(prefix="r7-C10-", dir="/tmp")
    old = os.getcwd()
    os.chdir(tmp)
    try:
        case("empty", p_empty)
        case("only public", p_only_pub)
        case("only private", p_only_priv)
        case("interleaved creation, unused wires", p_unused_and_order)
        case("wide / negative values", p_wide_values)
        case("wide / negative constants", p_wide_constants)
        case("zero coefficients, empty combinations", p_zero_coeffs_and_empty)
        case("division", p_division)
        case("bits and comparisons", p_bits_compare)
        case("booleans and fixed point", p_bool_fxp)
        for cv in (0, 1):
            for big in (6, 2 ** 250 + 9, -2 ** 400 + 1, P):
                case("guarded cond=%d big=%d" % (cv, big), mk_guarded(cv, big))
        case("guarded decorator", p_guarded_decorator)
        case("ignore_errors", p_ignore_errors, satisfied=False)
        case("backend api", p_backend_api)
        for seed in range(300):
            case("random %d" % seed, mk_random(seed))
    finally:
        os.chdir(old)
        shutil.rmtree(tmp, ignore_errors=True)
    for f in failures: print(f)
    print("C10 check: %d programs, %d failures" % (ncases, len(failures)))
    return 1 if failures else 0

if __name__ == "__main__":
    sys.exit(main())
