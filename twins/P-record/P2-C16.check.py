# Evidence program for change P (bit wires made by to_bits / check_positive get their
# booleanity constraint without a guard, also inside guarded branches).
#
#   PYTHONPATH=<tree> /venv/bin/python P.check.py        (from an empty directory)
#
# exit 0 iff property C16 held in every case tried.  What is checked, always on the R1CS
# actually emitted through the snarkjs backend (every constraint evaluated mod p on the
# recorded witness):
#
#  1. to_bits(n) / assert_positive(n) for n = 0..6 under two global bitlengths, for every value
#     from -3 to 2^n+3 (plus a few large ones), in seven contexts: no guard, taken branch,
#     untaken branch, nested taken/untaken, taken inside untaken, ignore_errors:
#       - in range, enforcing context : n bits, all 0/1, recompose to the value, system satisfied
#       - out of range, enforcing     : the call raises (or, with ignore_errors, the system
#                                       it emitted is NOT satisfied): rejected
#       - untaken branch, any value   : no exception and the system IS satisfied (a branch
#                                       that is not taken must not be able to spoil the proof)
#     check_positive(n): sign returned correctly for -2^n <= v < 2^n, refused outside.
#  2. circuit uniformity: the constraints emitted do not depend on the witness (same program
#     with taken / untaken branch and other values gives the identical R1CS structure).
#  3. soundness by brute force, independent of how the library computes its witness: the
#     constraints emitted by to_bits(n) / assert_positive(n) / check_positive(n), n = 0..3,
#     are solved for ALL assignments of the freshly allocated wires over a domain of small
#     field elements (and the ones needed for dummies), with x and the guard wire set from
#     outside.  Guard 1 / no guard: satisfiable iff 0 <= x < 2^n (resp. -2^n <= x < 2^n), and
#     in every solution the returned bits are the bits of x (resp. the sign is right).
#     Guard 0: satisfiable for every x.
#  4. pack / unpack round trip for random schemas of PackBool, PackIntMod, PackList and
#     PackRepeat (nesting <= 3) with plain values, with secret values (PrivVal), and with
#     plain bits turned into secret bits (the secretsanta.py flow), in the same contexts;
#     out-of-range plain values raise ValueError; secret values that do not fit the
#     packer's width are rejected.
#
# Not exercised on purpose (behaviour of the unchanged tree, not touched by P): PackIntMod(1)
# (no bits; unpack indexes past the end), PackIntMod.unpack's range check for moduli above
# 2^bitlength (it uses the global bitlength), empty PackList / PackRepeat(., 0) (reduce of
# an empty sequence).
import os, sys, random, itertools
os.environ["PYSNARK_BACKEND"] = "snarkjs"

import pysnark.runtime as rt
from pysnark.runtime import PrivVal, PubVal, LinComb
from pysnark.boolean import PrivValBool, LinCombBool
from pysnark.branching import if_then_else
from pysnark.pack import PackBool, PackIntMod, PackList, PackRepeat
import pysnark.snarkjsbackend as B

rt.autoprove = False           # no witness.wtns / circuit.r1cs at exit
P = B.get_modulus()
rnd = random.Random(16)

failures = []
ncases = 0


def fail(msg):
    failures.append(msg)
    if len(failures) <= 25:
        print("FAIL:", msg)


# ------------------------------------------------------------------ harness

def reset(bitlength=16):
    B.privvals.clear(); B.pubvals.clear(); B.constraints.clear()
    rt.guard = None
    rt.ignore_errors(False)
    LinComb.ONE = LinComb.ONE_SAFE
    rt.bitlength = bitlength


def wire(k):
    if k == 0: return 1
    return B.pubvals[k - 1] if k > 0 else B.privvals[-k - 1]


def _ev(lc, assign=None):
    """ value of a backend linear combination on the recorded witness / on an assignment """
    if assign is None:
        return sum(c * wire(k) for (k, c) in lc.lc.items()) % P
    return sum(c * assign[k] for (k, c) in lc.lc.items()) % P


def ev(x):
    """ same for a LinComb (which carries its backend combination in .lc) """
    return _ev(x.lc if isinstance(x, LinComb) else x)


def unsatisfied():
    return [i for (i, (v, w, y)) in enumerate(B.constraints) if (ev(v) * ev(w) - ev(y)) % P != 0]


def structure():
    """ the R1CS without the witness """
    def norm(lc): return tuple(sorted((k, c % P) for (k, c) in lc.lc.items() if c % P != 0))
    return (len(B.pubvals), len(B.privvals), tuple((norm(v), norm(w), norm(y)) for (v, w, y) in B.constraints))


def plainval(b):
    if isinstance(b, LinCombBool): return b.lc.value
    if isinstance(b, LinComb): return b.value
    return b


def wireval(b):
    """ value the *circuit* gives to an output (from the witness, not from .value) """
    if isinstance(b, LinCombBool): return ev(b.lc)
    if isinstance(b, LinComb): return ev(b)
    return b % P


# contexts: (name, enforcing?, runner).  runner(fn) runs fn() in the context and returns
# fn's result (for untaken branches: a marker, the branch result is discarded by the mux)
def run_plain(fn): return fn()


def run_ignore(fn):
    rt.ignore_errors(True)
    try: return fn()
    finally: rt.ignore_errors(False)


def branch(condvals):
    """ nested lazy if_then_else; condvals outermost first; fn runs in the innermost 'then' """
    def runner(fn):
        box = []
        def level(i):
            def body():
                if i == len(condvals):
                    box.append(fn())
                    return LinComb.ZERO + 0
                c = PrivValBool(condvals[i])
                return if_then_else(c, level(i + 1), lambda: LinComb.ZERO + 0)
            return body
        level(0)()
        return box[0] if box else None
    return runner


CONTEXTS = [
    ("no guard",             True,  run_plain),
    ("taken branch",         True,  branch([1])),
    ("nested taken",         True,  branch([1, 1])),
    ("untaken branch",       False, branch([0])),
    ("untaken in taken",     False, branch([1, 0])),
    ("taken in untaken",     False, branch([0, 1])),
    ("ignore_errors",        None,  run_ignore),     # None: never raises, rejection = unsatisfied system
]


# ------------------------------------------------------------------ 1. decomposition on many inputs

def values_for(n):
    vs = set(range(-3, (1 << n) + 4))
    vs.update([(1 << n) + 100, -(1 << n), 1 << 20, -(1 << 20), (1 << n) - 1])
    return sorted(vs)


def check_decomposition():
    global ncases
    for bitlength in (4, 16):
        for n in range(0, 7):
            for v in values_for(n):
                inrange = 0 <= v < (1 << n)
                for (cname, enforcing, runner) in CONTEXTS:
                    for op in ("to_bits", "assert_positive"):
                        ncases += 1
                        reset(bitlength)
                        x = PrivVal(v)
                        tag = "%s(%d) v=%d [%s, bitlength %d]" % (op, n, v, cname, bitlength)
                        def fn():
                            if op == "to_bits":
                                return x.to_bits(n)
                            x.assert_positive(n)
                            return "done"
                        try:
                            out = runner(fn)
                            raised = None
                        except (AssertionError, ValueError) as e:
                            out = None; raised = e
                        bad = unsatisfied()
                        if enforcing is True:
                            if inrange:
                                if raised is not None: fail(tag + ": in-range value refused: %r" % raised); continue
                                if bad: fail(tag + ": in-range value, unsatisfied constraints %s" % bad); continue
                            else:
                                if raised is None and not bad:
                                    fail(tag + ": out-of-range value neither raised nor left the system unsatisfied")
                                continue
                        elif enforcing is None:
                            if raised is not None: fail(tag + ": raised under ignore_errors: %r" % raised); continue
                            if inrange and bad: fail(tag + ": in-range value, unsatisfied constraints %s" % bad); continue
                            if not inrange:
                                if not bad: fail(tag + ": out-of-range value accepted by the constraint system")
                                continue
                        else:
                            if raised is not None: fail(tag + ": untaken branch raised %r" % raised); continue
                            if bad: fail(tag + ": untaken branch spoils the proof, unsatisfied constraints %s" % bad)
                            if op == "to_bits" and out is not None:
                                # even here the wires handed out are bits
                                if len(out) != n or any(wireval(b) not in (0, 1) for b in out):
                                    fail(tag + ": bits handed out in untaken branch are not n bits: %s" % [wireval(b) for b in out])
                            continue
                        # in range, enforcing or ignore_errors: the round trip itself
                        if op == "to_bits":
                            if len(out) != n:
                                fail(tag + ": %d bits returned" % len(out)); continue
                            if not all(isinstance(b, LinCombBool) for b in out):
                                fail(tag + ": result is not a list of LinCombBool"); continue
                            wv = [wireval(b) for b in out]
                            if any(b not in (0, 1) for b in wv) or [plainval(b) for b in out] != wv:
                                fail(tag + ": bit wires %s / values %s" % (wv, [plainval(b) for b in out])); continue
                            rec = LinComb.from_bits(out)
                            recv = rec if isinstance(rec, int) else rec.value
                            recw = rec if isinstance(rec, int) else ev(rec)
                            if recv != v or recw != v % P:
                                fail(tag + ": recomposes to %s (wire %s)" % (recv, recw))

    # check_positive at an explicit width
    for bitlength in (4, 16):
        for n in range(0, 6):
            for v in sorted(set(range(-(1 << n) - 3, (1 << n) + 4)) | {1 << 20, -(1 << 20)}):
                if v == -(1 << n): continue          # the constraints allow -2^n, the run-time test does not: either is fine
                fits = -(1 << n) < v < (1 << n)
                for (cname, enforcing, runner) in CONTEXTS:
                    ncases += 1
                    reset(bitlength)
                    x = PrivVal(v)
                    tag = "check_positive(%d) v=%d [%s, bitlength %d]" % (n, v, cname, bitlength)
                    try:
                        out = runner(lambda: x.check_positive(n)); raised = None
                    except (AssertionError, ValueError) as e:
                        out = None; raised = e
                    bad = unsatisfied()
                    if enforcing is True:
                        if fits:
                            if raised is not None or bad:
                                fail(tag + ": refused / unsatisfied (%r, %s)" % (raised, bad)); continue
                            if plainval(out) != (1 if v >= 0 else 0) or wireval(out) != plainval(out):
                                fail(tag + ": answered %s (wire %s)" % (plainval(out), wireval(out)))
                        elif raised is None and not bad:
                            fail(tag + ": value wider than requested accepted")
                    elif enforcing is None:
                        if raised is not None: fail(tag + ": raised under ignore_errors")
                        elif fits and (bad or plainval(out) != (1 if v >= 0 else 0)): fail(tag + ": wrong under ignore_errors")
                        elif not fits and not bad: fail(tag + ": value wider than requested accepted by the system")
                    else:
                        if raised is not None: fail(tag + ": untaken branch raised %r" % raised)
                        elif bad: fail(tag + ": untaken branch spoils the proof %s" % bad)


# ------------------------------------------------------------------ 2. uniformity

def check_uniformity():
    global ncases
    for n in range(0, 5):
        for op in ("to_bits", "assert_positive", "check_positive"):
            for conds in ([], [1], [1, 1]):
                shapes = {}
                for cv in itertools.product(*[(0, 1)] * len(conds)):
                    for v in (0, (1 << n) - 1 if n else 0, (1 << n) + 1, -2):
                        ncases += 1
                        reset(8)
                        x = PrivVal(v)
                        enforcing = all(cv)
                        if enforcing and not (0 <= v < (1 << n)):
                            rt.ignore_errors(True)         # same circuit, failing witness
                        try:
                            branch(list(cv))(lambda: getattr(x, op)(n))
                        except (AssertionError, ValueError) as e:
                            fail("uniformity %s(%d) conds=%s v=%d raised %r" % (op, n, cv, v, e)); continue
                        finally:
                            rt.ignore_errors(False)
                        shapes.setdefault(structure(), []).append((cv, v))
                if len(shapes) != 1:
                    fail("%s(%d) under %d guards: circuit depends on the witness: %s" % (op, n, len(conds), list(shapes.values())))


# ------------------------------------------------------------------ 3. brute force of the emitted gadget

def gadget(op, n, guarded):
    """ emit op(n) on a fresh wire x (under guard wire g if guarded) with an honest witness;
        return (constraints, fresh wire ids in allocation order, outputs) """
    reset(8)
    x = PrivVal(0)          # wire -1
    g = PrivVal(1)          # wire -2   (its own booleanity is the caller's business)
    c0, w0 = len(B.constraints), len(B.privvals)
    bak = rt.add_guard(g) if guarded else None
    try:
        out = getattr(x, op)(n)
    finally:
        if guarded: rt.restore_guard(bak)
    cons = B.constraints[c0:]
    fresh = [-(i + 1) for i in range(w0, len(B.privvals))]
    used = set(k for c in cons for part in c for k in part.lc)
    assert used <= set(fresh) | {0, -1, -2}, used
    if not guarded: assert -2 not in used
    return cons, fresh, out


class SearchTooLarge(Exception):
    pass


def solutions(cons, fresh, fixed, domain, limit=None, budget=400000):
    """ assignments of `fresh` over `domain` satisfying cons (at most `limit` of them), by DFS
        with a constraint checked as soon as its last wire is set.  A sound gadget prunes
        at once; if `budget` nodes do not suffice, wires are left (almost) unconstrained """
    pos = {k: i for (i, k) in enumerate(fresh)}
    due = [[] for _ in range(len(fresh) + 1)]         # constraints checkable once wire i-1 is set
    for c in cons:
        ks = [pos[k] for part in c for k in part.lc if k in pos]
        due[max(ks) + 1 if ks else 0].append(c)
    assign = dict(fixed)
    def ok(c):
        return (_ev(c[0], assign) * _ev(c[1], assign) - _ev(c[2], assign)) % P == 0
    found = []
    if not all(ok(c) for c in due[0]): return found
    nodes = [0]
    def rec(i):
        if limit is not None and len(found) >= limit: return
        nodes[0] += 1
        if nodes[0] > budget: raise SearchTooLarge()
        if i == len(fresh):
            found.append(dict(assign)); return
        for d in domain:
            assign[fresh[i]] = d
            if all(ok(c) for c in due[i + 1]):
                rec(i + 1)
        del assign[fresh[i]]
    rec(0)
    return found


def check_bruteforce():
    global ncases
    for n in range(0, 4):
        for op in ("to_bits", "assert_positive", "check_positive"):
            for guarded in (False, True):
                cons, fresh, out = gadget(op, n, guarded)
                lo = -(1 << n) if op == "check_positive" else 0
                hi = 1 << n
                xs = list(range(-(1 << n) - 3, (1 << n) + 4)) + [P - (1 << n) - 5, (P - 1) // 2, (P + 1) // 2, 1 << 100, hi + P // 3]
                for gval in ((0, 1) if guarded else (1,)):
                    for xv in xs:
                        ncases += 1
                        small = [0, 1, 2, 3, P - 1, P - 2, (P + 1) // 2]
                        # what a dummy may have to absorb: (sum of bits) -/+ x and friends
                        extra = []
                        for s in range(0, (1 << n) + 1):
                            extra += [(s - xv) % P, (xv - s) % P, (-xv - s - 1) % P, (xv + s + 1) % P, (2 * xv - s) % P]
                        domain = list(dict.fromkeys([d % P for d in small + extra]))
                        fixed = {0: 1, -1: xv % P, -2: gval}
                        enforcing = (not guarded) or gval == 1
                        tag = "brute force %s(%d) %s guard=%s x=%d" % (op, n, "guarded" if guarded else "unguarded", gval, xv)
                        try:
                            # enforcing: a handful of solutions is enough to see a wrong one
                            # (there is exactly one for a value in range, none otherwise)
                            sols = solutions(cons, fresh, fixed, domain, limit=4 if enforcing else 1)
                        except SearchTooLarge:
                            fail(tag + ": search space not pruned by the constraints"); continue
                        within = (lo <= xv < hi)
                        if enforcing:
                            if within and not sols: fail(tag + ": no witness for a value in range"); continue
                            if not within and sols: fail(tag + ": witness exists for a value outside the range: %s" % sols[0]); continue
                            if len(sols) > 1: fail(tag + ": %d different witnesses" % len(sols)); continue
                            for s in sols:
                                if op == "to_bits":
                                    bv = [_ev(b.lc.lc, s) for b in out]
                                    if len(bv) != n or any(b not in (0, 1) for b in bv) or sum(b << i for (i, b) in enumerate(bv)) != xv:
                                        fail(tag + ": solution with bits %s" % bv); break
                                elif op == "check_positive":
                                    r = _ev(out.lc.lc, s)
                                    if r != (1 if xv >= 0 else 0):
                                        fail(tag + ": solution with sign bit %s" % r); break
                        else:
                            if not sols: fail(tag + ": untaken branch cannot be satisfied")


# ------------------------------------------------------------------ 4. pack / unpack

def random_schema(depth):
    k = rnd.randrange(0, 6 if depth > 0 else 3)
    if k == 0: return PackBool()
    if k in (1, 2): return PackIntMod(rnd.choice([2, 3, 4, 5, 7, 8, 9, 16, 17, 31, 32, 33, 40]))
    if k in (3, 4): return PackList([random_schema(depth - 1) for _ in range(rnd.randrange(1, 4))])
    return PackRepeat(random_schema(depth - 1), rnd.randrange(1, 4))


def mapleaves(fn, schema, val):
    if isinstance(schema, PackList): return [mapleaves(fn, s, v) for (s, v) in zip(schema.lst, val)]
    if isinstance(schema, PackRepeat): return [mapleaves(fn, schema.packer, v) for v in val]
    return fn(schema, val)


def flat(schema, val):
    if isinstance(schema, PackList): return [x for (s, v) in zip(schema.lst, val) for x in flat(s, v)]
    if isinstance(schema, PackRepeat): return [x for v in val for x in flat(schema.packer, v)]
    return [(schema, val)]


def plain_bits(schema, val):
    """ reference: little-endian bits, field after field """
    out = []
    for (s, v) in flat(schema, val):
        out += [int(bool(v))] if isinstance(s, PackBool) else [(v >> i) & 1 for i in range((s.mod - 1).bit_length())]
    return out


def check_pack():
    global ncases
    for it in range(260):
        schema = random_schema(3)
        val = schema.random()
        ref = plain_bits(schema, val)
        # plain
        ncases += 1
        reset(16)
        bits = schema.pack(val)
        if bits != ref or len(bits) != schema.bitlen():
            fail("plain pack of %s: %s, expected %s" % (val, bits, ref)); continue
        if schema.unpack(bits, 0) != val:
            fail("plain round trip of %s gives %s" % (val, schema.unpack(bits, 0))); continue
        # a plain leaf out of range is refused
        leaves = [(i, s) for (i, (s, v)) in enumerate(flat(schema, val)) if isinstance(s, PackIntMod)]
        if leaves:
            (li, ls) = rnd.choice(leaves)
            for badv in (ls.mod, -1, ls.mod + 7, 1 << ls.bitlen()):
                cnt = [0]
                def poison(s, v):
                    cnt[0] += 1
                    return badv if cnt[0] - 1 == li else v
                try:
                    schema.pack(mapleaves(poison, schema, val))
                    fail("plain value %d accepted by PackIntMod(%d)" % (badv, ls.mod))
                except ValueError:
                    pass
        # secret values / secret bits, in every context
        for (cname, enforcing, runner) in CONTEXTS:
            for flow in ("secret values", "secret bits"):
                ncases += 1
                reset(16)
                tag = "%s, %s, value %s" % (flow, cname, val)
                def fn():
                    if flow == "secret values":
                        sbits = schema.pack(mapleaves(lambda s, v: PrivVal(v), schema, val))
                    else:
                        sbits = [PrivVal(b) for b in schema.pack(val)]
                    return sbits, schema.unpack(sbits, 0)
                try:
                    res = runner(fn)
                except Exception as e:
                    fail(tag + ": raised %r" % e); continue
                bad = unsatisfied()
                if bad: fail(tag + ": unsatisfied constraints %s" % bad); continue
                if res is None: continue
                sbits, back = res
                if [wireval(b) for b in sbits] != ref or [plainval(b) for b in sbits] != ref:
                    fail(tag + ": packed to %s, expected %s" % ([wireval(b) for b in sbits], ref)); continue
                got = mapleaves(lambda s, v: (wireval(v), plainval(v)), schema, back)
                want = mapleaves(lambda s, v: (int(v), int(v)), schema, val)
                if got != want:
                    fail(tag + ": unpacked to %s" % got)
        # a secret value that does not fit the packer's width is rejected when enforced and
        # harmless in an untaken branch
        if leaves:
            (li, ls) = rnd.choice(leaves)
            for badv in (1 << ls.bitlen(), (1 << ls.bitlen()) + 3, -1):
                for (cname, enforcing, runner) in CONTEXTS:
                    ncases += 1
                    reset(16)
                    cnt = [0]
                    def poison(s, v):
                        cnt[0] += 1
                        return PrivVal(badv if cnt[0] - 1 == li else v)
                    tag = "secret %d into PackIntMod(%d) [%s]" % (badv, ls.mod, cname)
                    try:
                        runner(lambda: schema.pack(mapleaves(poison, schema, val))); raised = None
                    except (AssertionError, ValueError) as e:
                        raised = e
                    bad = unsatisfied()
                    if enforcing is False:
                        if raised is not None or bad: fail(tag + ": untaken branch raised / spoils the proof (%r, %s)" % (raised, bad))
                    elif raised is None and not bad:
                        fail(tag + ": not rejected")


check_decomposition()
check_uniformity()
check_bruteforce()
check_pack()

if failures:
    print("PROPERTY C16 VIOLATED in %d of %d cases" % (len(failures), ncases))
    sys.exit(1)
print("C16 held in all %d cases" % ncases)
sys.exit(0)
