# Evidence program for change P (if_then_else selects lists, tuples and dicts element by element and
# refuses branches of different shape).
#
# run as:  PYTHONPATH=<tree> /venv/bin/python P.check.py     (from an empty directory)
#
# For many randomly generated pairs of equally shaped (nested) lists / tuples / dicts with integer, Boolean and
# fixed-point leaves (plain, public and private; negative and large values included), for both values of the secret
# condition, with plain and lazily evaluated branches, inside active / inactive outer guards and with ignore_errors,
# it checks the PROPERTY:
#   1. the selected structure equals what   (truev if cond else falsev)   gives in plain Python,
#   2. every emitted constraint  <v,x>*<w,x> = <y,x>  holds (mod p) on the recorded witness,
#   3. the emitted constraint system (wires and coefficients) is the same for cond=0 and cond=1 and for other secrets,
#   4. (plain mode) every wire allocated by the selection is bound: changing it violates some constraint,
#   5. branches of different shape never yield a value that differs from plain Python (they have to be refused).
# exit status 0 iff all checks passed.

import os, sys, random
os.environ["PYSNARK_BACKEND"] = "snarkjs"

import pysnark.runtime as rt
rt.autoprove = False
import pysnark.snarkjsbackend as be
from pysnark.runtime import PrivVal, PubVal, LinComb, guarded, ignore_errors
from pysnark.boolean import LinCombBool, PrivValBool, PubValBool
from pysnark.fixedpoint import LinCombFxp, PrivValFxp, PubValFxp
from pysnark.branching import if_then_else

assert rt.backend is be, "snarkjs backend expected"
P = be.snarkjsp
failures = []
stats = {"cases": 0, "constraints": 0, "refused": 0, "perturbed": 0}

def fail(msg):
    failures.append(msg)
    print("FAIL:", msg)

def fresh():
    del be.constraints[:]
    del be.privvals[:]
    del be.pubvals[:]
    rt.guard = None
    rt.ignore_errors(False)
    LinComb.ONE = LinComb.ONE_SAFE

def wire(ix, priv=None):
    if ix == 0: return 1
    if ix > 0: return be.pubvals[ix-1]
    return (priv if priv is not None else be.privvals)[-ix-1]

def ev(lc, priv=None):
    return sum(c * wire(ix, priv) for (ix, c) in lc.lc.items()) % P

def violated(priv=None):
    return [n for (n, (v, w, y)) in enumerate(be.constraints) if (ev(v, priv) * ev(w, priv) - ev(y, priv)) % P != 0]

def skeleton():
    return [tuple(tuple(sorted((ix, c % P) for (ix, c) in part.lc.items())) for part in con) for con in be.constraints]

# ---- plain values and their traced counterparts -----------------------------------------------------------------
INTS = [0, 1, -1, 2, -7, 255, 65535, -65536, 2**40 + 3, -(2**33)]

def rnd_leaf(rng):
    """ returns (kind, plain value);  kinds: int pub priv (integers)  bool pbool (bits)  fxp pfxp (fixed point) """
    kind = rng.choice(["int", "pub", "priv", "priv", "bool", "pbool", "fxp", "pfxp"])
    if kind in ("int", "pub", "priv"): return (kind, rng.choice(INTS + [rng.randrange(-1000, 1000)]))
    if kind in ("bool", "pbool"): return (kind, rng.randrange(2))
    return (kind, rng.randrange(-4000, 4000) / 4.0)

def compatible(rng, leaf):
    """ a leaf that can sit opposite `leaf` in the other branch """
    while True:
        other = rnd_leaf(rng)
        # two bits, or anything opposite an integer / fixed point
        if (leaf[0] in ("bool", "pbool")) == (other[0] in ("bool", "pbool")) or rng.random() < 0.3: return other

def rnd_shape(rng, depth):
    r = rng.random()
    if depth == 0 or r < 0.35: return None
    n = rng.choice([0, 1, 1, 2, 3])
    if r < 0.6: return ["list"] + [rnd_shape(rng, depth-1) for _ in range(n)]
    if r < 0.8: return ["tuple"] + [rnd_shape(rng, depth-1) for _ in range(n)]
    keys = rng.sample(["a", "b", "c", 1, 2, (0, 1)], n)
    return ["dict"] + [(k, rnd_shape(rng, depth-1)) for k in keys]

def fill_pair(rng, shape):
    """ two descriptions of the same shape: nested ('list'|'tuple'|'dict', ...) with leaves (kind, value) """
    if shape is None:
        a = rnd_leaf(rng)
        return a, compatible(rng, a)
    if shape[0] == "dict":
        subs = [(k, fill_pair(rng, s)) for (k, s) in shape[1:]]
        other = list(subs)
        rng.shuffle(other)                                 # key order of the other branch may differ
        return ("dict", [(k, p[0]) for (k, p) in subs]), ("dict", [(k, p[1]) for (k, p) in other])
    subs = [fill_pair(rng, s) for s in shape[1:]]
    return (shape[0], [p[0] for p in subs]), (shape[0], [p[1] for p in subs])

def trace(desc):
    """ description -> value handed to the library (allocates wires) """
    kind, val = desc
    if kind == "list": return [trace(d) for d in val]
    if kind == "tuple": return tuple(trace(d) for d in val)
    if kind == "dict": return {k: trace(d) for (k, d) in val}
    if kind == "int": return val
    if kind == "pub": return PubVal(val)
    if kind == "priv": return PrivVal(val)
    if kind == "bool": return PubValBool(val)
    if kind == "pbool": return PrivValBool(val)
    if kind == "fxp": return PubValFxp(val)
    if kind == "pfxp": return PrivValFxp(val)
    raise AssertionError(kind)

def plain(desc):
    kind, val = desc
    if kind == "list": return [plain(d) for d in val]
    if kind == "tuple": return tuple(plain(d) for d in val)
    if kind == "dict": return {k: plain(d) for (k, d) in val}
    return val

def decode(res):
    if isinstance(res, list): return [decode(r) for r in res]
    if isinstance(res, tuple): return tuple(decode(r) for r in res)
    if isinstance(res, dict): return {k: decode(r) for (k, r) in res.items()}
    if isinstance(res, LinCombFxp): return res.lc.value / 256.0
    if isinstance(res, LinCombBool): return res.lc.value
    if isinstance(res, LinComb): return res.value
    return res

def same(a, b):
    """ equal structure (container types included) and numerically equal leaves """
    if isinstance(a, (list, tuple, dict)) or isinstance(b, (list, tuple, dict)):
        if type(a) is not type(b) or len(a) != len(b): return False
        if isinstance(a, dict): return a.keys() == b.keys() and all(same(a[k], b[k]) for k in a)
        return all(same(x, y) for (x, y) in zip(a, b))
    return a == b

def respell(desc, rng):
    """ the same shape and kinds with other secret values (public values and plain ints stay) """
    kind, val = desc
    if kind in ("list", "tuple"): return (kind, [respell(d, rng) for d in val])
    if kind == "dict": return (kind, [(k, respell(d, rng)) for (k, d) in val])
    if kind == "priv": return (kind, rng.choice(INTS))
    if kind == "pbool": return (kind, rng.randrange(2))
    if kind == "pfxp": return (kind, rng.randrange(-4000, 4000) / 4.0)
    return desc

# ---- one run -------------------------------------------------------------------------------------------------------
MODES = ["plain", "lazy_true", "lazy_false", "lazy_both", "outer_active", "outer_inactive", "ignore_errors"]

def run(tdesc, fdesc, condval, mode):
    """ returns (decoded result, skeleton, number of wires before selection) or raises what the library raises """
    fresh()
    cond = PrivValBool(condval)
    witness_extra = PrivVal(5)
    def tlazy():
        v = trace(tdesc)
        (cond.lc - 1).assert_zero()              # only true when this branch is taken
        (witness_extra * witness_extra - 25).assert_zero()
        return v
    def flazy():
        v = trace(fdesc)
        cond.lc.assert_zero()                    # only true when this branch is taken
        return v
    if mode in ("lazy_true", "lazy_both"): tv = tlazy
    else: tv = trace(tdesc)
    if mode in ("lazy_false", "lazy_both"): fv = flazy
    else: fv = trace(fdesc)
    before = len(be.privvals)
    if mode == "outer_active":
        res = guarded(PrivVal(1))(lambda: if_then_else(cond, tv, fv))()
    elif mode == "outer_inactive":
        res = guarded(PrivVal(0))(lambda: if_then_else(cond, tv, fv))()
    elif mode == "ignore_errors":
        ignore_errors(True)
        try: res = if_then_else(cond, tv, fv)
        finally: ignore_errors(False)
    else:
        res = if_then_else(cond, tv, fv)
    return decode(res), skeleton(), before

def check_pair(name, tdesc, fdesc, rng, list_tuple_mix=False):
    for mode in MODES:
        skels = {}
        for condval in (0, 1):
            stats["cases"] += 1
            try:
                got, skel, before = run(tdesc, fdesc, condval, mode)
            except Exception as e:
                fail("%s [%s, cond=%d]: equally shaped branches refused: %r" % (name, mode, condval, e))
                continue
            want = plain(tdesc) if condval else plain(fdesc)
            if list_tuple_mix:    # list in one branch, tuple in the other: compare the elements
                ok = same(list(got), list(want))
            else:
                ok = same(got, want)
            if not ok:
                fail("%s [%s, cond=%d]: selected %r, plain Python gives %r" % (name, mode, condval, got, want))
            bad = violated()
            stats["constraints"] += len(be.constraints)
            if bad:
                fail("%s [%s, cond=%d]: constraints %r do not hold on the witness" % (name, mode, condval, bad))
            skels[condval] = skel
            if mode == "plain" and not bad:
                # every wire the selection allocated is determined by the constraints
                for ix in range(before, len(be.privvals)):
                    priv = list(be.privvals)
                    priv[ix] += 1
                    stats["perturbed"] += 1
                    if not violated(priv):
                        fail("%s [cond=%d]: wire %d allocated by the selection is unconstrained" % (name, condval, ix))
        if len(skels) == 2 and skels[0] != skels[1]:
            fail("%s [%s]: emitted constraints differ between cond=0 and cond=1" % (name, mode))
        # other secrets, same circuit
        try:
            _, skel2, _ = run(respell(tdesc, rng), respell(fdesc, rng), rng.randrange(2), mode)
            if 0 in skels and skel2 != skels[0]:
                fail("%s [%s]: emitted constraints depend on the secret values" % (name, mode))
        except Exception as e:
            fail("%s [%s]: refused with other secret values: %r" % (name, mode, e))

def check_mismatch(name, tdesc, fdesc):
    """ branches of different shape: whatever is returned has to be what plain Python returns; else refuse """
    for mode in ("plain", "lazy_both", "outer_inactive", "ignore_errors"):
        for condval in (0, 1):
            stats["cases"] += 1
            try:
                got, _, _ = run(tdesc, fdesc, condval, mode)
            except (TypeError, ValueError) as e:
                stats["refused"] += 1
                continue
            except Exception as e:
                fail("%s [%s, cond=%d]: unexpected exception %r" % (name, mode, condval, e))
                continue
            want = plain(tdesc) if condval else plain(fdesc)
            if not same(got, want):
                fail("%s [%s, cond=%d]: branches of different shape gave %r, plain Python gives %r" % (name, mode, condval, got, want))
            if violated():
                fail("%s [%s, cond=%d]: constraints do not hold" % (name, mode, condval))

def main():
    rng = random.Random(20261004)

    # hand-written corner cases
    L = lambda *xs: ("list", list(xs))
    T = lambda *xs: ("tuple", list(xs))
    D = lambda **kw: ("dict", list(kw.items()))
    i, pr, pb, fx = (lambda v: ("int", v)), (lambda v: ("priv", v)), (lambda v: ("pbool", v)), (lambda v: ("pfxp", v))
    corner = [
        ("empty lists", L(), L()),
        ("empty tuples", T(), T()),
        ("empty dicts", D(), D()),
        ("flat list", L(pr(3), i(4), pr(-5)), L(i(7), pr(-8), pr(2**40))),
        ("flat tuple", T(pr(3), i(4)), T(i(7), pr(-8))),
        ("1-tuple", T(pr(-1)), T(pr(1))),
        ("dict", D(a=pr(1), b=i(2)), D(b=pr(3), a=pr(-4))),
        ("nested", L(T(pr(1), pb(1)), D(k=L(fx(1.5), i(2)))), L(T(i(0), pb(0)), D(k=L(fx(-2.25), fx(0.5))))),
        ("tuple in dict in tuple", T(D(x=T(pr(1), pr(2)))), T(D(x=T(pr(3), pr(4))))),
        ("mixed leaf kinds", T(fx(1.5), pr(2), pb(1), i(3)), T(pr(2), fx(-0.25), i(0), fx(4.0))),
        ("equal public leaves", L(i(5), i(5)), L(i(5), i(6))),
    ]
    for (name, t, f) in corner:
        check_pair(name, t, f, rng)
    check_pair("list against tuple", L(pr(1), pr(2)), T(pr(3), i(4)), rng, list_tuple_mix=True)
    check_pair("tuple against list", T(pr(1), pr(2)), L(pr(3), i(4)), rng, list_tuple_mix=True)

    # random structures
    for n in range(120):
        shape = rnd_shape(rng, 3)
        if shape is None: shape = ["tuple", None, None]
        t, f = fill_pair(rng, shape)
        check_pair("random #%d %r" % (n, shape), t, f, rng)

    # shapes that differ between the branches
    mismatch = [
        ("longer true list", L(pr(1), pr(2), pr(3)), L(pr(4), pr(5))),
        ("longer false list", L(pr(1)), L(pr(4), pr(5))),
        ("empty against non-empty", L(), L(pr(1))),
        ("longer true tuple", T(pr(1), pr(2), pr(3)), T(pr(4), pr(5))),
        ("longer false tuple", T(pr(1)), T(pr(4), i(5))),
        ("nested length", L(L(pr(1), pr(2)), pr(3)), L(L(pr(1)), pr(3))),
        ("different keys", D(a=pr(1), b=pr(2)), D(a=pr(1), c=pr(2))),
        ("missing key", D(a=pr(1), b=pr(2)), D(a=pr(1))),
        ("extra key", D(a=pr(1)), D(a=pr(1), b=pr(2))),
        ("list against scalar", L(pr(1), pr(2)), pr(3)),
        ("scalar against list", pr(3), L(pr(1), pr(2))),
        ("tuple against int", T(pr(1)), i(1)),
        ("dict against list", D(a=pr(1)), L(pr(1))),
        ("list against dict", L(pr(1)), D(a=pr(1))),
        ("dict against scalar", D(a=pr(1)), pr(1)),
        ("scalar against dict", fx(1.0), D(a=pr(1))),
    ]
    for (name, t, f) in mismatch:
        check_mismatch(name, t, f)

    print("cases: %(cases)d  constraints evaluated: %(constraints)d  wires perturbed: %(perturbed)d  refused mismatches: %(refused)d" % stats)
    if failures:
        print("%d FAILURES: the property did not hold" % len(failures))
        sys.exit(1)
    print("OK: selections equal plain Python, all constraints hold, circuits independent of the secrets")
    sys.exit(0)

main()
