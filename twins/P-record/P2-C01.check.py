# Evidence program for change P ("constraints that hold by construction do not pay for the guard dummy").
#
#   PYTHONPATH=<tree> /venv/bin/python P.check.py        (run from an empty directory)
#
# It checks property C01 itself: after every traced computation that finished without raising (and
# without the user switching error checking off) every rank-1 constraint handed to the backend is
# evaluated on the recorded public/private values modulo the backend's prime.  The computations
# concentrate on the code P touches (__divmod__, assert_zero, assert_nonzero, the LinCombBool
# constructor and everything built on them: to_bits, comparisons, assert_*, val(), Array access)
# in every guard mode: no guard, guard set, guard not set, nested guards, lazy if_then_else branches,
# _if/_elif/_else blocks, loop bodies guarded by a secret bound.  Results are compared with plain Python semantics where
# the region is active.  Some witnesses are then tampered with to see that the new shapes of the
# constraints still reject what they have to reject.  Finally one composite circuit is written with
# backend.prove() and the property is re-checked on the decoded witness.wtns / circuit.r1cs files.
#
# Exit status 0 iff the property held everywhere.

import os, sys, random, itertools, tempfile, shutil

os.environ["PYSNARK_BACKEND"] = "snarkjs"

import pysnark.runtime as rt
from pysnark.runtime import PrivVal, PubVal, ConstVal, LinComb, guarded, ignore_errors
from pysnark.boolean import LinCombBool, PrivValBool, PubValBool
from pysnark.fixedpoint import PrivValFxp, LinCombFxp
from pysnark.branching import if_then_else, BranchingValues, _if, _elif, _else, _endif
from pysnark.array import Array
import pysnark.snarkjsbackend as be

rt.autoprove = False
assert rt.backend is be, "this program needs the snarkjs backend"
P = be.get_modulus()

failures = []
stats = {"runs": 0, "raised": 0, "constraints": 0}


def fresh():
    """forget the circuit recorded so far and all guard state"""
    del be.privvals[:]
    del be.pubvals[:]
    del be.constraints[:]
    rt.guard = None
    rt._ignore_errors = False
    LinComb.ONE = LinComb.ONE_SAFE
    rt.bitlength = 16


def wire(k):
    if k == 0: return 1
    return be.pubvals[k - 1] if k > 0 else be.privvals[-k - 1]


def ev(lc):
    return sum(c * wire(k) for (k, c) in lc.lc.items()) % P


def violated():
    return [i for (i, (a, b, c)) in enumerate(be.constraints) if (ev(a) * ev(b) - ev(c)) % P != 0]


def check(label):
    """the property: the recorded witness satisfies every emitted constraint"""
    stats["runs"] += 1
    stats["constraints"] += len(be.constraints)
    if rt.guard is not None or rt._ignore_errors or LinComb.ONE is not LinComb.ONE_SAFE:
        failures.append(label + ": guard state not restored")
    bad = violated()
    if bad:
        failures.append("%s: %d of %d constraints violated, first #%d" % (label, len(bad), len(be.constraints), bad[0]))
    return not bad


def expect(label, cond, msg=""):
    if not cond: failures.append(label + ": " + msg)


EXC = (AssertionError, ValueError, IndexError, ZeroDivisionError, RuntimeError)

# ---------------------------------------------------------------------------------------------
# guard modes.  Every mode runs body() and says whether the region is active (all guards set)
# ---------------------------------------------------------------------------------------------

def m_plain(body):      return body()
def m_on(body):         return guarded(PrivValBool(1).lc)(body)()
def m_off(body):        return guarded(PrivValBool(0).lc)(body)()
def m_on_on(body):      return guarded(PrivValBool(1).lc)(lambda: guarded(PrivValBool(1).lc)(body)())()
def m_on_off(body):     return guarded(PrivValBool(1).lc)(lambda: guarded(PrivValBool(0).lc)(body)())()
def m_off_on(body):     return guarded(PrivValBool(0).lc)(lambda: guarded(PrivValBool(1).lc)(body)())()
def m_off_off(body):    return guarded(PrivValBool(0).lc)(lambda: guarded(PrivValBool(0).lc)(body)())()
def m_pub1(body):       return guarded(1)(body)()

def m_lazy_true(body):
    box = []
    def tb(): box.append(body()); return PrivVal(1)
    if_then_else(PrivValBool(1), tb, lambda: PrivVal(2))
    return box[0]

def m_lazy_false(body):
    box = []
    def fb(): box.append(body()); return PrivVal(1)
    if_then_else(PrivValBool(1), lambda: PrivVal(2), fb)
    return box[0]

# (_if/_elif/_else blocks: at this revision they only work with plain 0/1 LinComb conditions and
#  without variables in the BranchingValues object, which is enough to open the guarded regions)
def m_if_taken(body):
    _ = BranchingValues()
    try:
        if _if(PrivVal(1), ctx=_):
            r = body()
        if _else(ctx=_):
            PrivVal(3).assert_eq(3)
        _endif(ctx=_)
    except BaseException:
        del _.stack[:]      # a block left half-way by an exception (the contexts are not exception-safe)
        raise
    return r

def m_else_untaken(body):
    _ = BranchingValues()
    try:
        if _if(PrivVal(1), ctx=_):
            PrivVal(3).assert_eq(3)
        if _else(ctx=_):
            r = body()
        _endif(ctx=_)
    except BaseException:
        del _.stack[:]      # a block left half-way by an exception (the contexts are not exception-safe)
        raise
    return r

def m_elif_untaken(body):
    _ = BranchingValues()
    try:
        if _if(PrivVal(0), ctx=_):
            PrivVal(3).assert_eq(4)
        if _elif(lambda: PrivVal(0), ctx=_):
            r = body()
        if _else(ctx=_):
            PrivVal(3).assert_eq(3)
        _endif(ctx=_)
    except BaseException:
        del _.stack[:]      # a block left half-way by an exception (the contexts are not exception-safe)
        raise
    return r

MODES = [("plain", m_plain, True), ("pub1", m_pub1, True), ("on", m_on, True), ("off", m_off, False),
         ("on/on", m_on_on, True), ("on/off", m_on_off, False), ("off/on", m_off_on, False),
         ("off/off", m_off_off, False), ("lazy-true", m_lazy_true, True), ("lazy-false", m_lazy_false, False),
         ("if-taken", m_if_taken, True), ("else-untaken", m_else_untaken, False), ("elif-untaken", m_elif_untaken, False)]
FASTMODES = [m for m in MODES if m[0] in ("plain", "on", "off", "on/off", "off/on", "lazy-false")]


def run(label, body, modes=MODES, oracle=None, must_raise_when_active=None):
    """runs body in every mode; returns nothing, records failures.
       oracle(result) -> bool is evaluated when the region is active and nothing raised.
       must_raise_when_active: True/False/None (None = do not care)"""
    for (mname, mode, active) in modes:
        fresh()
        lab = "%s [%s]" % (label, mname)
        try:
            res = mode(body)
        except EXC as e:
            stats["raised"] += 1
            if (rt.guard is not None or rt._ignore_errors) and not mname.startswith(("if-", "else-", "elif-")):
                failures.append(lab + ": guard state not restored after " + repr(e))
            if active and must_raise_when_active is False:
                failures.append(lab + ": raised unexpectedly: " + repr(e))
            continue
        if active and must_raise_when_active is True:
            failures.append(lab + ": should have raised in an active region")
        check(lab)
        if active and oracle is not None:
            try:
                ok = oracle(res)
            except Exception as e:
                ok = False
            expect(lab, ok, "result differs from Python semantics")


INTS = [0, 1, -1, 2, -2, 3, 5, 7, -7, 12, 100, -100, 255, 256, 32767, 32768, -32768, 65535, 65536, -65537,
        12345678, -12345678, P - 1, P, P + 1, -P, 2 * P + 3]
SMALL = [0, 1, -1, 2, 3, -3, 7, 8, 100, 65535, 65536, -65536]

# ---------------------------------------------------------------------------------------------
# 1. __divmod__ / // / %  (quotient constraint now added without dummy)
# ---------------------------------------------------------------------------------------------
for a in INTS:
    for d in [1, 2, 3, 7, 16, 255, 32767, 65535, 65536, -1, -3, 0, P]:
        def body(a=a, d=d):
            q, r = divmod(PrivVal(a), PrivVal(d))
            return (q.value, r.value)
        run("divmod(%d,%d) secret divisor" % (a, d), body, modes=FASTMODES,
            oracle=lambda res, a=a, d=d: res == divmod(a, d))
for a in SMALL + [32767, 12345678, P + 5]:
    for d in [1, 2, 5, 256, 65535, -2, 0]:
        def body(a=a, d=d):
            x = PrivVal(a)
            return ((x // d).value, (x % d).value)
        run("//,%% (%d,%d) public divisor" % (a, d), body, oracle=lambda res, a=a, d=d: res == divmod(a, d))
        def body2(a=a, d=d):
            return (d // PrivVal(a)).value if a != 0 else None
        run("r// (%d,%d)" % (d, a), body2, modes=FASTMODES)
# fixed point: every product and quotient goes through __divmod__
for (x, y) in [(1.5, 2.25), (0.0, 3.0), (100.5, 0.5), (-1.5, 2.0), (3.0, -0.25), (120.0, 120.0), (255.99609375, 1.0)]:
    def body(x=x, y=y):
        a, b = PrivValFxp(x), PrivValFxp(y)
        return ((a * b).lc.value, (a / b).lc.value if y != 0 else None, (a * y).lc.value)
    run("fxp mul/div %r %r" % (x, y), body, modes=FASTMODES)

# ---------------------------------------------------------------------------------------------
# 2. assert_zero and what is built on it: assert_eq, val(), to_bits, assert_positive, assert_lt ...
# ---------------------------------------------------------------------------------------------
for v in INTS:
    run("assert_zero(%d)" % v, lambda v=v: PrivVal(v).assert_zero(), must_raise_when_active=(v != 0))
    run("assert_eq(%d,3)" % v, lambda v=v: PrivVal(v).assert_eq(3), must_raise_when_active=(v != 3))
    run("assert_eq(%d,secret 3)" % v, lambda v=v: PrivVal(v).assert_eq(PrivVal(3)), modes=FASTMODES,
        must_raise_when_active=(v != 3))
    run("val(%d)" % v, lambda v=v: PrivVal(v).val(), modes=FASTMODES, oracle=lambda r, v=v: r == v,
        must_raise_when_active=False)
    run("to_bits(%d)" % v, lambda v=v: [b.lc.value for b in PrivVal(v).to_bits()], modes=FASTMODES,
        oracle=lambda r, v=v: sum(b << i for (i, b) in enumerate(r)) == v,
        must_raise_when_active=not (0 <= v < 65536))
    for nb in (1, 3, 8):
        run("to_bits(%d,%d)" % (v, nb), lambda v=v, nb=nb: PrivVal(v).to_bits(nb), modes=FASTMODES,
            must_raise_when_active=not (0 <= v < (1 << nb)))
    run("assert_positive(%d)" % v, lambda v=v: PrivVal(v).assert_positive(), modes=FASTMODES,
        must_raise_when_active=not (0 <= v < 65536))
    run("assert_lt/le/gt/ge(%d,100)" % v,
        lambda v=v: (PrivVal(v).assert_lt(100), PrivVal(v).assert_le(PrivVal(100)), PrivVal(200).assert_gt(PrivVal(v)), PrivVal(100).assert_ge(v)),
        modes=FASTMODES, must_raise_when_active=not (100 - 65536 < v < 100))
    run("assert_range(%d,-5,300)" % v, lambda v=v: PrivVal(v).assert_range(-5, 300), modes=FASTMODES,
        must_raise_when_active=not (-5 <= v < 300))
    run(">>,&,|,^,~ (%d)" % v,
        lambda v=v: ((PrivVal(v) >> 3).value, (PrivVal(v) & PrivVal(0x0ff0)).value, (PrivVal(v) | PrivVal(5)).value,
                     (PrivVal(v) ^ PrivVal(0xffff)).value, (~PrivVal(v)).value),
        modes=FASTMODES,
        oracle=lambda r, v=v: r == (v >> 3, v & 0x0ff0, v | 5, v ^ 0xffff, 65535 - v),
        must_raise_when_active=not (0 <= v < 65536))
for (a, b) in itertools.product([0, 1, 5, -5, 65535, -65535, 65536, 70000, -70000, 1 << 40], repeat=2):
    def body(a=a, b=b):
        x, y = PrivVal(a), PrivVal(b)
        return [(x < y).lc.value, (x <= y).lc.value, (x > y).lc.value, (x >= y).lc.value, (x == y).lc.value, (x != y).lc.value]
    run("comparisons(%d,%d)" % (a, b), body, modes=FASTMODES,
        oracle=lambda r, a=a, b=b: r == [int(a < b), int(a <= b), int(a > b), int(a >= b), int(a == b), int(a != b)])

# ---------------------------------------------------------------------------------------------
# 3. assert_nonzero / assert_ne
# ---------------------------------------------------------------------------------------------
for v in INTS:
    run("assert_nonzero(%d)" % v, lambda v=v: PrivVal(v).assert_nonzero(), must_raise_when_active=(v % P == 0))
    run("assert_ne(%d,3)" % v, lambda v=v: PrivVal(v).assert_ne(3), must_raise_when_active=((v - 3) % P == 0))
    run("assert_ne(%d,pub 7)" % v, lambda v=v: PrivVal(v).assert_ne(PubVal(7)), modes=FASTMODES, must_raise_when_active=((v - 7) % P == 0))
    run("fxp assert_nonzero", lambda v=v: LinCombFxp(PrivVal(v % 1000)).assert_nonzero(), modes=FASTMODES,
        must_raise_when_active=(v % 1000 == 0))
    run("bool assert_nonzero", lambda v=v: PrivValBool(v % 2).assert_nonzero(), modes=FASTMODES,
        must_raise_when_active=(v % 2 == 0))

# ---------------------------------------------------------------------------------------------
# 4. LinCombBool constructor
# ---------------------------------------------------------------------------------------------
for v in [0, 1, True, False, 2, -1, 3, P, P + 1, 65536]:
    ok = v in (0, 1)
    run("LinCombBool(PrivVal(%r))" % v, lambda v=v: LinCombBool(PrivVal(int(v))).lc.value, oracle=lambda r, v=v: r == int(v),
        must_raise_when_active=not ok)
    run("LinCombBool(PubVal(%r))" % v, lambda v=v: LinCombBool(PubVal(int(v))), modes=FASTMODES, must_raise_when_active=not ok)
    run("LinCombBool(ConstVal(%r))" % v, lambda v=v: LinCombBool(ConstVal(int(v))), modes=FASTMODES, must_raise_when_active=not ok)
    run("LinCombBool(x*y) %r" % v, lambda v=v: LinCombBool(PrivVal(int(v)) * PrivVal(1)), modes=FASTMODES, must_raise_when_active=not ok)
    run("bool & LinComb(%r)" % v, lambda v=v: ((PrivValBool(1) & PrivVal(int(v))).lc.value, (PrivValBool(1) | PrivVal(int(v))).lc.value,
                                               (PrivValBool(1) ^ PrivVal(int(v))).lc.value, (PrivValBool(0) == PrivVal(int(v))).lc.value),
        modes=FASTMODES, oracle=lambda r, v=v: r == (int(v), 1, 1 - int(v), 1 - int(v)), must_raise_when_active=not ok)
    run("bool op const %r" % v, lambda v=v: (PrivValBool(1) & v, PrivValBool(1) < v, PrivValBool(0) <= v), modes=FASTMODES)
for (a, b) in itertools.product([0, 1], repeat=2):
    def body(a=a, b=b):
        x, y = PrivValBool(a), PubValBool(b)
        return [(x & y).lc.value, (x | y).lc.value, (x ^ y).lc.value, (~x).lc.value, (x == y).lc.value, (x < y).lc.value,
                (x >= y).lc.value, (x * y).value, (x ** 3).lc.value]
    run("bool ops %d %d" % (a, b), body,
        oracle=lambda r, a=a, b=b: r == [a & b, a | b, a ^ b, 1 - a, int(a == b), int(a < b), int(a >= b), a * b, int(a != 0)])

# ---------------------------------------------------------------------------------------------
# 5. Array access with a secret index (indicator bits, assert_eq(1), if_then_else)
# ---------------------------------------------------------------------------------------------
for ix in [-2, -1, 0, 1, 2, 3, 4, 70000]:
    def body(ix=ix):
        arr = Array([PrivVal(10), PrivVal(20), PrivVal(30), PrivVal(40)])
        i = PrivVal(ix)
        got = arr[i].value
        arr[i] = PrivVal(99)
        return (got, [x.value for x in arr.arr])
    def oracle(r, ix=ix):
        ref = [10, 20, 30, 40]; g = ref[ix]; ref[ix] = 99
        return r == (g, ref)
    run("Array[%d]" % ix, body, oracle=oracle, must_raise_when_active=not (0 <= ix < 4))
def body2d():
    arr = Array([Array([PrivVal(1), PrivVal(2)]), Array([PrivVal(3), PrivVal(4)])])
    arr[PrivVal(1), PrivVal(0)] = PrivVal(7)
    return arr[PrivVal(1), PrivVal(0)].value
run("Array 2d", body2d, modes=FASTMODES, oracle=lambda r: r == 7)

# ---------------------------------------------------------------------------------------------
# 6. composed programs: guarded regions inside loops, lazy branches that would fail if taken
# ---------------------------------------------------------------------------------------------
def safe_div_program(a, d):
    x, y = PrivVal(a), PrivVal(d)
    nz = (y != 0)
    # the division (and the assertions around it) are only meaningful when y != 0
    def doit():
        y.assert_nonzero()
        q = x // y
        (q * y + x % y).assert_eq(x)
        LinCombBool(y * 0 + 1)     # a LinComb that is 1
        return q
    return if_then_else(nz, doit if d != 0 else (lambda: PrivVal(0)), lambda: (y.assert_zero(), PrivVal(-1))[1]).value
for (a, d) in [(17, 5), (0, 3), (65535, 7), (17, 0), (0, 0), (5, 65535)]:
    fresh()
    lab = "safe_div(%d,%d)" % (a, d)
    try:
        r = safe_div_program(a, d)
        check(lab); expect(lab, r == (a // d if d else -1), "wrong result %r" % (r,))
    except EXC as e:
        failures.append(lab + ": raised " + repr(e))

def loop_program(n, vals):
    # sum the first n values of a list obliviously (what an oblivious loop does: iteration i runs
    # in a region guarded by "i < n"); inside: divisions, range checks, assertions
    acc = PrivVal(0)
    nn = PrivVal(n)
    for i in range(len(vals)):
        def it(i=i):
            v = PrivVal(vals[i])
            v.assert_range(0, 1000)
            v.assert_ne(13)
            return v // 3 + (v % 3)
        acc = acc + if_then_else(nn > i, it, lambda: PrivVal(0))
    return acc.value
for n in range(0, 6):
    for vals in ([3, 4, 5, 6, 7], [999, 0, 1, 2, 3], [5, 5, 13, 5, 5], [5, 5, 5000, 5, -1]):
        fresh()
        lab = "loop(%d,%r)" % (n, vals)
        try:
            r = loop_program(n, vals)
        except EXC as e:
            stats["raised"] += 1
            expect(lab, any(v == 13 or not (0 <= v < 1000) for v in vals[:n]), "raised " + repr(e))
            continue
        check(lab)
        expect(lab, not any(v == 13 or not (0 <= v < 1000) for v in vals[:n]), "should have raised")
        expect(lab, r == sum(v // 3 + v % 3 for v in vals[:n]), "wrong sum")

rnd = random.Random(20240611)
def random_program(rnd):
    """random straight-line program; returns a callable"""
    ops = []
    nvals = rnd.randint(2, 4)
    init = [rnd.choice([0, 1, 2, 3, 5, 7, 100, 255, 4095, 65535, 65536, -1, -9, 1 << 20]) for _ in range(nvals)]
    for _ in range(rnd.randint(3, 9)):
        ops.append((rnd.choice(["add", "mul", "divmod", "floordiv_c", "lt", "eq", "ne", "assert_nz", "assert_eqself", "bits",
                                "tobool", "and", "ite", "lazy", "guardon", "guardoff", "abs", "truediv"]),
                    rnd.randrange(8), rnd.randrange(8), rnd.choice([1, 2, 3, 10, 256, -4])))
    def prog():
        vals = [PrivVal(v) for v in init]
        def step(op, vals):
            (o, i, j, c) = op
            a, b = vals[i % len(vals)], vals[j % len(vals)]
            if o == "add": vals.append(a + b - c)
            elif o == "mul": vals.append(a * b)
            elif o == "divmod": q, r = divmod(a, b); vals.append(q); vals.append(r)
            elif o == "floordiv_c": vals.append(a // c)
            elif o == "lt": vals.append((a < b).lc)
            elif o == "eq": vals.append((a == b).lc)
            elif o == "ne": vals.append((a != c).lc)
            elif o == "assert_nz": a.assert_nonzero()
            elif o == "assert_eqself": (a + b).assert_eq(b + a)
            elif o == "bits": vals.append(LinComb.from_bits(a.to_bits()[1:]))
            elif o == "tobool": vals.append((LinCombBool(a) & (b == c)).lc)
            elif o == "and": vals.append(a & b)
            elif o == "abs": vals.append(abs(a))
            elif o == "truediv": vals.append(a / b)
            elif o == "ite": vals.append(if_then_else(a >= b, a, b))
        for op in ops:
            if op[0] == "lazy":
                c = vals[op[1] % len(vals)] > vals[op[2] % len(vals)]
                sub = ops[:2]
                def br(k):
                    def f():
                        loc = list(vals)
                        for o2 in sub:
                            if o2[0] not in ("lazy", "guardon", "guardoff"): step(o2, loc)
                        return loc[-1] + k
                    return f
                vals.append(if_then_else(c, br(1), br(2)))
            elif op[0] in ("guardon", "guardoff"):
                g = PrivValBool(1 if op[0] == "guardon" else 0)
                def region():
                    loc = list(vals)
                    for o2 in ops[:3]:
                        if o2[0] not in ("lazy", "guardon", "guardoff"): step(o2, loc)
                guarded(g.lc)(region)()
            else:
                step(op, vals)
        return len(vals)
    return prog
nrand = 0
for k in range(400):
    prog = random_program(rnd)
    fresh()
    try:
        prog()
    except EXC:
        stats["raised"] += 1
        continue
    nrand += 1
    check("random program #%d" % k)
expect("random programs", nrand >= 40, "only %d random programs ran to completion" % nrand)

# other bit lengths
for bl in (1, 2, 5, 8, 30, 64):
    for v in (0, 1, 3, (1 << bl) - 1, 1 << bl, -1):
        def body(v=v, bl=bl):
            rt.bitlength = bl
            x = PrivVal(v)
            q, r = divmod(x, PrivVal(1))
            x.assert_positive(); (x + 1).assert_nonzero(); (x - r - q + v).assert_eq(x)
            return q.value
        run("bitlength %d value %d" % (bl, v), body, modes=FASTMODES, oracle=lambda r, v=v: r == v)

# ---------------------------------------------------------------------------------------------
# 7. the new constraint shapes still bind: tamper with the witness of an ACTIVE region and see
#    that some constraint notices (so the dummy really was not needed for the assertion to bite)
# ---------------------------------------------------------------------------------------------
def tamper_case(label, v, body, bad):
    fresh()
    pos = {}
    def region():
        x = PrivVal(v); pos["ix"] = len(be.privvals) - 1
        body(x)
    guarded(PrivValBool(1).lc)(region)()
    ok = check(label + " (honest)")
    be.privvals[pos["ix"]] = bad
    expect(label, ok and violated(), "tampered witness %d still satisfies every constraint" % bad)
tamper_case("guarded assert_zero binds", 0, lambda x: x.assert_zero(), 5)
tamper_case("guarded assert_eq binds", 9, lambda x: x.assert_eq(9), 10)
tamper_case("guarded assert_nonzero binds", 4, lambda x: x.assert_nonzero(), 0)
tamper_case("guarded LinCombBool binds", 1, lambda x: LinCombBool(x), 2)
tamper_case("guarded to_bits binds", 77, lambda x: x.to_bits(), 78)
tamper_case("guarded divmod binds", 77, lambda x: divmod(x, PrivVal(5)), 78)
# and in a region that is NOT active nothing may depend on the values inside it
fresh()
pos = {}
def region():
    x = PrivVal(5); pos["ix"] = len(be.privvals) - 1
    x.assert_zero(); x.assert_eq(1)
guarded(PrivValBool(0).lc)(region)()
check("inactive region (honest)")

# ---------------------------------------------------------------------------------------------
# 8. through the files: prove() a composite circuit and check the decoded witness against the decoded r1cs
# ---------------------------------------------------------------------------------------------
def rd(buf, off, n): return int.from_bytes(buf[off:off + n], "little"), off + n

def decode_and_check(dirname):
    w = open(os.path.join(dirname, "witness.wtns"), "rb").read()
    c = open(os.path.join(dirname, "circuit.r1cs"), "rb").read()
    assert w[:4] == b"wtns" and c[:4] == b"r1cs"
    off = 12
    _, off = rd(w, off, 4); _, off = rd(w, off, 8)
    fs, off = rd(w, off, 4); prime, off = rd(w, off, fs); nw, off = rd(w, off, 4)
    _, off = rd(w, off, 4); _, off = rd(w, off, 8)
    wit = []
    for _ in range(nw):
        v, off = rd(w, off, fs); wit.append(v)
    assert off == len(w) and prime == P and wit[0] == 1
    off = 12
    _, off = rd(c, off, 4); _, off = rd(c, off, 8)
    fs, off = rd(c, off, 4); prime2, off = rd(c, off, fs)
    nvars, off = rd(c, off, 4); off += 12 + 8
    ncons, off = rd(c, off, 4)
    _, off = rd(c, off, 4); _, off = rd(c, off, 8)
    assert prime2 == P and nvars == nw
    bad = 0
    for _ in range(ncons):
        vals = []
        for _ in range(3):
            n, off = rd(c, off, 4); acc = 0
            for _ in range(n):
                k, off = rd(c, off, 4); co, off = rd(c, off, fs)
                acc += co * wit[k]
            vals.append(acc % P)
        if (vals[0] * vals[1] - vals[2]) % P: bad += 1
    return ncons, bad

fresh()
try:
    for (a, d) in [(17, 5), (17, 0), (65535, 7)]:
        safe_div_program(a, d)
    loop_program(3, [3, 4, 5, 6, 7])
    m_lazy_false(lambda: (PrivVal(70000).assert_zero(), PrivVal(0).assert_nonzero(), divmod(PrivVal(-7), PrivVal(-2)), PrivVal(5) < PrivVal(1 << 20)))
    m_on_off(lambda: Array([PrivVal(1), PrivVal(2)])[PrivVal(9)])
    PubVal(12).assert_eq(PrivVal(3) * PrivVal(4))
    check("composite circuit (in memory)")
    tmp = tempfile.mkdtemp(prefix="pcheck-", dir=os.getcwd())
    cwd = os.getcwd()
    try:
        os.chdir(tmp)
        be.prove()
        ncons, bad = decode_and_check(tmp)
    finally:
        os.chdir(cwd)
        shutil.rmtree(tmp)
    expect("composite circuit (files)", ncons == len(be.constraints), "file has %d constraints, %d recorded" % (ncons, len(be.constraints)))
    expect("composite circuit (files)", bad == 0, "%d constraints of circuit.r1cs violated by witness.wtns" % bad)
except EXC as e:
    failures.append("composite circuit raised " + repr(e))

# informational: what P changes observably
def count(body, mode):
    fresh(); n0 = rt.num_constraints; w0 = len(be.privvals); mode(body)
    return (rt.num_constraints - n0, len(be.privvals) - w0)
print("constraints/wires  plain vs. guarded region:")
for (nm, body) in [("assert_zero", lambda: PrivVal(0).assert_zero()), ("assert_nonzero", lambda: PrivVal(3).assert_nonzero()),
                   ("PrivValBool", lambda: PrivValBool(1)), ("to_bits", lambda: PrivVal(5).to_bits()),
                   ("x // y", lambda: PrivVal(7) // PrivVal(2)), ("x < y", lambda: PrivVal(7) < PrivVal(2))]:
    print("  %-15s %-12r %r" % (nm, count(body, m_plain), tuple(a - b for (a, b) in zip(count(body, m_on), count(lambda: None, m_on)))))

print("%d runs checked (%d constraints evaluated), %d runs raised and were skipped" % (stats["runs"], stats["constraints"], stats["raised"]))
if failures:
    print("PROPERTY C01 VIOLATED / unexpected behaviour in %d cases:" % len(failures))
    for f in failures[:60]: print("   ", f)
    sys.exit(1)
print("OK: in every run that finished without raising, the recorded witness satisfies every emitted constraint")
sys.exit(0)
