#!/usr/bin/env python
"""
P.check.py - exercises pysnark.poseidon_hash (and ggh_hash) against a plain integer reference.

Run as `/venv/bin/python P.check.py` with PYTHONPATH pointing at the tree under test and an
empty scratch directory as cwd.  Exits 0 iff everything observed agrees with property C20.

The driver starts one child process per (backend, way the backend was selected); the module
binds its parameters at import time, so each configuration needs a fresh interpreter.
The zkinterface family needs the `flatbuffers` package only to *write* files; if it is not
installed a two-line stub is put on the children's path (nothing is ever written: autoprove
is switched off).
"""
import os, subprocess, sys, tempfile

CHILD = r'''
import os, sys, random, itertools
way, name = sys.argv[1], sys.argv[2]

MODULI = {
    "zkinterface":      21888242871839275222246405745257275088548364400416034343698204186575808495617,
    "zkifbellman":      52435875175126190479447740508185965837690552500527637822603658699938581184513,
    "zkifbulletproofs": 7237005577332262213973186563042994240857116359379907606001950938285454250989,
    "nobackend":        10000,
}
MODNAMES = {"zkinterface": "pysnark.zkinterface.backend", "nobackend": "pysnark.nobackend"}

# published permutation vectors for the input state (0,1,2,3,4)  (reference implementation / test suite)
VECTORS = {
    "zkinterface": [0x299c867db6c1fdd79dcefa40e4510b9837e60ebb1ce0663dbaa525df65250465,
                    0x1148aaef609aa338b27dafd89bb98862d8bb2b429aceac47d86206154ffe053d,
                    0x24febb87fed7462e23f6665ff9a0111f4044c38ee1672c1ac6b0637d34f24907,
                    0x0eb08f6d809668a981c186beaf6110060707059576406b248e5d9cf6e78b3d3e,
                    0x07748bc6877c9b82c8b98666ee9d0626ec7f5be4205f79ee8528ef1c4a376fc7],
    "zkifbellman": [0x2a918b9c9f9bd7bb509331c81e297b5707f6fc7393dcee1b13901a0b22202e18,
                    0x65ebf8671739eeb11fb217f2d5c5bf4a0c3f210e3f3cd3b08b5db75675d797f7,
                    0x2cc176fc26bc70737a696a9dfd1b636ce360ee76926d182390cdb7459cf585ce,
                    0x4dc4e29d283afd2a491fe6aef122b9a968e74eff05341f3cc23fda1781dcb566,
                    0x03ff622da276830b9451b88b85e6184fd6ae15c8ab3ee25a5667be8592cce3b1],
}

failures = []
def check(cond, msg):
    if not cond:
        failures.append(msg)
        print("FAIL [%s/%s]: %s" % (way, name, msg))

# ---------------------------------------------------------------- select the backend
os.environ.pop("PYSNARK_BACKEND", None)
if way == "env":
    os.environ["PYSNARK_BACKEND"] = name
elif way == "preimport":
    __import__(MODNAMES[name])
# way == "auto": nothing

import pysnark.runtime as runtime
runtime.autoprove = False
from pysnark.runtime import PrivVal, PubVal, ConstVal, LinComb
from pysnark.poseidon_constants import poseidon_constants

if way == "auto":
    name = runtime.backend_name
    print("auto-detected backend:", name)
    if name not in poseidon_constants:
        # no parameters registered: the module must refuse, never fall back to another set
        try:
            import pysnark.poseidon_hash
            check(False, "poseidon_hash imported for backend %s without registered parameters" % name)
        except NotImplementedError:
            pass
        sys.exit(1 if failures else 0)

check(runtime.backend_name == name, "selected backend is %s, wanted %s" % (runtime.backend_name, name))
p = runtime.backend.get_modulus()
check(p == MODULI[name], "modulus of the selected backend is not the field of %s" % name)

import pysnark.poseidon_hash as ph
C = poseidon_constants[name]
check(ph.round_constants is C["round_constants"] and ph.matrix is C["matrix"] and
      (ph.R_F, ph.R_P, ph.t, ph.a) == (C["R_F"], C["R_P"], C["t"], C["a"]),
      "parameters in use are not the ones registered for " + name)
for other in poseidon_constants:
    if other != name:
        check(ph.round_constants is not poseidon_constants[other]["round_constants"], "uses parameters of " + other)

# ---------------------------------------------------------------- plain reference
def ref_permute(state, C, p):
    R_F, R_P, t, a, rc, M = C["R_F"], C["R_P"], C["t"], C["a"], C["round_constants"], C["matrix"]
    s = [x % p for x in state]
    for r in range(R_F + R_P):
        s = [(x + c) % p for (x, c) in zip(s, rc[r])]
        if r < R_F // 2 or r >= R_F // 2 + R_P:
            s = [pow(x, a, p) for x in s]
        else:
            s[0] = pow(s[0], a, p)
        s = [sum(M[i][k] * s[k] for k in range(t)) % p for i in range(t)]
    return s

def ref_pad(msg, rate):
    out = list(msg) + [1]
    while len(out) % rate: out.append(0)
    return out

def ref_hash(msg, C, p):
    t = C["t"]; rate = t - 1
    padded = ref_pad(msg, rate)
    s = [0] * t
    for i in range(0, len(padded), rate):
        for j in range(rate):
            s[1 + j] = (s[1 + j] + padded[i + j]) % p
        s = ref_permute(s, C, p)
    return s[1:]

t, rate = C["t"], C["t"] - 1
per_perm = (C["R_F"] * t + C["R_P"]) * (C["a"] - 1)      # multiplications of the unchanged gadget

# ---------------------------------------------------------------- recording view of the zkinterface backends
zk = sys.modules.get("pysnark.zkinterface.backend")

def lc_eval(lc):
    tot = 0
    for (k, c) in lc.lc.items():
        v = 1 if k == 0 else (zk.pubvals[k - 1] if k > 0 else zk.privvals[-k - 1])
        tot += c * v
    return tot % p

def check_recorded(first_constraint, first_priv, what):
    """ every recorded constraint holds on the witness (mod p) and *defines* one fresh private wire
        as a product of combinations of earlier wires: the witness is unique given the inputs """
    defined = set()
    for (v, w, y) in zk.constraints[first_constraint:]:
        check(lc_eval(v) * lc_eval(w) % p == lc_eval(y), what + ": recorded constraint not satisfied")
        ys = [(k, c) for (k, c) in y.lc.items() if c % p != 0]
        ok = len(ys) == 1 and ys[0][0] < 0 and ys[0][1] % p == 1 and -ys[0][0] - 1 >= first_priv and ys[0][0] not in defined
        check(ok, what + ": constraint does not define a fresh wire")
        for lc in (v, w):
            for (k, c) in lc.lc.items():
                if k < 0 and -k - 1 >= first_priv and c % p != 0:
                    check(k in defined, what + ": constraint uses a wire that no constraint defines")
        if ok: defined.add(ys[0][0])
    return defined

# ---------------------------------------------------------------- 1. published vectors
if name in VECTORS:
    check(ref_permute([0, 1, 2, 3, 4], C, p) == VECTORS[name], "reference does not reproduce published vector")
    n0 = runtime.num_constraints
    out = ph.permute([PrivVal(i) for i in range(5)])
    check([x.value for x in out] == VECTORS[name], "permute does not reproduce the published test vector")
    check(runtime.num_constraints - n0 == per_perm, "permute emitted %d constraints" % (runtime.num_constraints - n0))

# ---------------------------------------------------------------- 2. permutation on states across the field
rnd = random.Random(20)
edge = [0, 1, 2, p - 1, p - 2, p, p + 1, -1, -p, 2 * p + 3, (p - 1) // 2, (p + 1) // 2, 1 << 300, -(1 << 270)]
states = [[0] * t, [p - 1] * t, [-1] * t, [1 << 300] * t]
states += [[rnd.choice(edge) for _ in range(t)] for _ in range(6)]
states += [[rnd.randrange(p) for _ in range(t)] for _ in range(6)]
for st in states:
    ins = [PrivVal(v) if i % 2 else PubVal(v) for (i, v) in enumerate(st)]
    c0, p0 = (len(zk.constraints), len(zk.privvals)) if zk else (0, 0)
    n0 = runtime.num_constraints
    out = ph.permute(ins)
    check(runtime.num_constraints - n0 == per_perm, "permute: constraint count depends on the state")
    check([x.value for x in out] == ref_permute(st, C, p), "permute differs from reference on %r" % (st,))
    check([x.value for x in ins] == st, "permute modified its arguments")
    if zk:
        check(len(zk.constraints) - c0 == per_perm, "backend received a different number of constraints")
        check_recorded(c0, p0, "permute")
        check([lc_eval(x.lc) for x in out] == ref_permute(st, C, p), "output wires do not carry the reference value")

# ---------------------------------------------------------------- 3. sponge: lengths 0..3 blocks, value patterns
counts = {}
for n in range(0, 3 * rate + 1):
    msgs = [[0] * n, [1] * n, [p - 1] * n, [rnd.choice(edge) for _ in range(n)], [rnd.randrange(p) for _ in range(n)]]
    for (j, msg) in enumerate(msgs):
        ins = [PrivVal(v) for v in msg] if j != 1 else [ConstVal(v) for v in msg]
        c0, p0 = (len(zk.constraints), len(zk.privvals)) if zk else (0, 0)
        n0 = runtime.num_constraints
        out = ph.poseidon_hash(ins)
        counts.setdefault(n, set()).add(runtime.num_constraints - n0)
        want = ref_hash(msg, C, p)
        check(len(out) == rate and [x.value for x in out] == want, "poseidon_hash differs from reference on %r" % (msg,))
        if zk and j >= 3:
            check_recorded(c0, p0, "poseidon_hash")
            check([lc_eval(x.lc) for x in out] == want, "hash output wires do not carry the reference value")
    check(counts[n] == {(n // rate + 1) * per_perm}, "len %d: constraint counts %r" % (n, counts[n]))

# mixed input types
from pysnark.boolean import PrivValBool
from pysnark.fixedpoint import PrivValFxp
b0, b1, f = PrivValBool(0), PrivValBool(1), PrivValFxp(1.5)
out = ph.poseidon_hash([b0, b1, f, PrivVal(7), b1])
check([x.value for x in out] == ref_hash([0, 1, f.lc.value, 7, 1], C, p), "bool/fxp inputs differ from reference")
for bad in ([PrivVal(0), 4], (PrivVal(0),), None):
    try:
        ph.poseidon_hash(bad); check(False, "poseidon_hash accepted %r" % (bad,))
    except RuntimeError:
        pass

# ---------------------------------------------------------------- 4. padding: injective, equals 10* reference
blocks = []
real_permute = ph.permute
def spy(sponge):
    blocks.append([x.value for x in sponge])
    return [LinComb.ZERO] * t          # fresh capacity and rate: the next block shows up unmixed
ph.permute = spy
seen = {}
try:
    for n in range(0, 2 * rate + 2):
        for msg in itertools.product((0, 1), repeat=n):
            del blocks[:]
            ph.poseidon_hash([ConstVal(v) for v in msg])
            check(all(b[0] == 0 for b in blocks), "capacity lane touched by absorption")
            padded = tuple(v for b in blocks for v in b[1:])
            check(list(padded) == ref_pad(msg, rate), "padded form of %r is %r" % (msg, padded))
            check(padded not in seen, "messages %r and %r share the padded form %r" % (msg, seen.get(padded), padded))
            seen[padded] = msg
finally:
    ph.permute = real_permute

# ---------------------------------------------------------------- 5. exhaustive small instances (nobackend only)
# permute reads its parameters from the module at call time, so small random parameter sets over a small
# ring can be swapped in and *all* states compared with the reference.
if name == "nobackend" and hasattr(ph, "R_F"):
    saved = (ph.R_F, ph.R_P, ph.t, ph.a, ph.round_constants, ph.matrix, runtime.backend.get_modulus)
    try:
        for (q, tt, rf, rp, aa) in [(7, 3, 2, 3, 3), (5, 3, 4, 2, 3), (11, 2, 2, 5, 5), (6, 3, 2, 4, 3), (13, 2, 4, 0, 5), (3, 4, 2, 1, 2), (10, 2, 2, 7, 3)]:
            for trial in range(3):
                Cs = {"R_F": rf, "R_P": rp, "t": tt, "a": aa,
                      "round_constants": [[rnd.randrange(q) for _ in range(tt)] for _ in range(rf + rp)],
                      "matrix": [[rnd.randrange(q) for _ in range(tt)] for _ in range(tt)]}
                ph.R_F, ph.R_P, ph.t, ph.a, ph.round_constants, ph.matrix = rf, rp, tt, aa, Cs["round_constants"], Cs["matrix"]
                runtime.backend.get_modulus = lambda q=q: q
                cnts = set()
                for st in itertools.product(range(q), repeat=tt):
                    n0 = runtime.num_constraints
                    out = ph.permute([PrivVal(v) for v in st])
                    cnts.add(runtime.num_constraints - n0)
                    check([x.value for x in out] == ref_permute(st, Cs, q), "small instance q=%d t=%d R_F=%d R_P=%d a=%d: permute%r differs" % (q, tt, rf, rp, aa, st))
                check(cnts == {(rf * tt + rp) * (aa - 1)}, "small instance: constraint counts %r" % cnts)
                # sponge on top of it, all messages up to two blocks over the ring (q small)
                if q <= 5:
                    for n in range(0, 2 * (tt - 1) + 1):
                        for msg in itertools.product(range(q), repeat=n):
                            out = ph.poseidon_hash([PrivVal(v) for v in msg])
                            check([x.value for x in out] == ref_hash(msg, Cs, q), "small instance: hash%r differs" % (msg,))
    finally:
        (ph.R_F, ph.R_P, ph.t, ph.a, ph.round_constants, ph.matrix, runtime.backend.get_modulus) = saved
    out = ph.poseidon_hash([PrivVal(3)])
    check([x.value for x in out] == ref_hash([3], C, p), "parameters not restored")

# ---------------------------------------------------------------- 6. subset-sum hash
import hashlib, struct
import pysnark.ggh_hash as gh
def ref_coef(i):
    mask = 2 ** p.bit_length(); it = 0
    while True:
        val = int(hashlib.sha512(struct.pack("=QQ", i, it)).digest()[::-1].hex(), 16) % mask
        if val < p: return val
        it += 1
check(gh.PRIME == p, "ggh modulus is not the backend's")
for n in (1, 2, 5, 17):
    for trial in range(3):
        bits = [rnd.randrange(2) for _ in range(n)]
        want = sum(b * ref_coef(i) for (i, b) in enumerate(bits)) % p
        n0 = runtime.num_constraints
        got = gh.ggh_hash([PrivVal(b) for b in bits])
        check(got.value == want and gh.ggh_hash(bits) == want, "ggh_hash differs from reference on %r" % bits)
        check(runtime.num_constraints == n0, "ggh_hash emitted constraints")

print("[%s/%s] %s" % (way, name, "FAILED: %d" % len(failures) if failures else "ok"))
sys.exit(1 if failures else 0)
'''

def main():
    env = dict(os.environ)
    env.pop("PYSNARK_BACKEND", None)
    scratch = tempfile.mkdtemp(prefix="c20check", dir=os.getcwd())
    try:
        import flatbuffers  # noqa
    except ImportError:
        stub = os.path.join(scratch, "stub", "flatbuffers")
        os.makedirs(stub)
        open(os.path.join(stub, "__init__.py"), "w").write("# stub: nothing is serialised by this check\n")
        open(os.path.join(stub, "compat.py"), "w").write("def import_numpy(): return None\n")
        env["PYTHONPATH"] = os.pathsep.join([p for p in (env.get("PYTHONPATH"), os.path.dirname(stub)) if p])

    configs = [("env", "zkinterface"), ("env", "zkifbellman"), ("env", "zkifbulletproofs"), ("env", "nobackend"),
               ("preimport", "zkinterface"), ("preimport", "nobackend"), ("auto", "-")]
    bad = 0
    for (way, name) in configs:
        r = subprocess.run([sys.executable, "-c", CHILD, way, name], env=env, cwd=scratch,
                           stdout=subprocess.PIPE, stderr=subprocess.STDOUT, universal_newlines=True)
        tail = [l for l in r.stdout.splitlines() if not l.startswith("*** Error loading backend")]
        print("\n".join(tail[-25:]))
        if r.returncode != 0:
            bad += 1
            print("configuration %s/%s: exit status %d" % (way, name, r.returncode))
    print("P.check: %d of %d configurations failed" % (bad, len(configs)))
    sys.exit(1 if bad else 0)

if __name__ == "__main__":
    main()
