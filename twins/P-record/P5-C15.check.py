# Check of property C15 (secret-index array access reads and writes exactly one
# element, out-of-range indices raise and cannot be proven, constraints do not
# depend on the index value) on a tree where the selection vector of
# pysnark/array.py is a witness tied down by ixs[ix]*(item-ix)=0 and sum(ixs)=1.
#
# The snarkjs backend is used as a recorder: it keeps every constraint as three
# {variable: coefficient} maps and every witness value in a list.  With that
#  (a) honest executions are replayed: all constraints hold for the recorded
#      witness (modulo the real field) and results agree with a Python list model;
#  (b) soundness is brute-forced: the recorded constraint system is re-read over
#      a small prime field GF(q) (the gadgets are field-generic, they only need
#      len(arr) < q) and EVERY assignment of the index and of all wires created by
#      the access is enumerated (array contents are pinned); every satisfying
#      assignment must have an in-range index and the right outputs;
#  (c) obliviousness: the recorded constraint systems are compared for all indices;
#  (d) out-of-range indices raise IndexError, and with ignore_errors() the
#      recorded witness violates a constraint, and (b) shows no witness exists.
#
# Exit status 0 iff everything was observed to hold.

import itertools
import os
import random
import sys

os.environ["PYSNARK_BACKEND"] = "snarkjs"

import pysnark.runtime as rt
rt.autoprove = False            # do not write circuit/witness files at exit

import pysnark.snarkjsbackend as be
from pysnark.runtime import PrivVal, PubVal, LinComb, ignore_errors, guarded
from pysnark.boolean import LinCombBool, PrivValBool
from pysnark.branching import if_then_else
from pysnark.array import Array, ArrayRow

assert rt.backend is be, "snarkjs backend not in effect"

P = be.snarkjsp
failures = []

def fail(msg):
    failures.append(msg)
    print("FAIL:", msg)

# ---------------------------------------------------------------- recording

def reset():
    del be.constraints[:]
    del be.privvals[:]
    del be.pubvals[:]

def ev(lc, priv, pub, mod):
    """ value of a backend linear combination under an assignment """
    tot = 0
    for (k, c) in lc.lc.items():
        if k == 0: v = 1
        elif k < 0: v = priv[-k-1]
        else: v = pub[k-1]
        tot += c*v
    return tot % mod

def val(x, priv, pub, mod):
    """ value of an array entry (int, LinComb, LinCombBool) under an assignment """
    if isinstance(x, int): return x % mod
    if isinstance(x, LinCombBool): x = x.lc
    return ev(x.lc, priv, pub, mod)

def flat(x):
    if isinstance(x, Array): return [z for y in x.arr for z in flat(y)]
    if isinstance(x, list): return [z for y in x for z in flat(y)]
    return [x]

def honest_ok():
    """ do all recorded constraints hold for the recorded witness (real field)? """
    for (v, w, y) in be.constraints:
        if (ev(v, be.privvals, be.pubvals, P)*ev(w, be.privvals, be.pubvals, P) - ev(y, be.privvals, be.pubvals, P)) % P != 0:
            return False
    return True

def shape():
    """ canonical form of the recorded constraint system (no witness values) """
    return [tuple(tuple(sorted((k, c % P) for (k, c) in part.lc.items() if c % P != 0)) for part in con) for con in be.constraints]

# ------------------------------------------------- brute force over GF(q)

def solutions(q, pinned):
    """
    All assignments over GF(q) of the recorded witness variables that satisfy
    all recorded constraints; variables in pinned (index -> value) are fixed.
    Backtracking in variable order; a constraint is checked as soon as its
    last variable has a value.
    """
    n = len(be.privvals)
    assert not be.pubvals
    cons = []
    for con in be.constraints:
        parts = [[((-k-1) if k != 0 else None, c % q) for (k, c) in part.lc.items()] for part in con]
        last = max([i for part in parts for (i, _) in part if i is not None] + [-1])
        cons.append((last, parts))
    bylast = [[] for _ in range(n+1)]
    for (last, parts) in cons: bylast[last+1].append(parts)
    asg = [0]*n

    def lcval(part):
        return sum(c*(1 if i is None else asg[i]) for (i, c) in part) % q

    def holds(parts):
        return (lcval(parts[0])*lcval(parts[1]) - lcval(parts[2])) % q == 0

    if not all(holds(parts) for parts in bylast[0]): return

    def rec(i):
        if i == n:
            yield list(asg)
            return
        for v in ([pinned[i] % q] if i in pinned else range(q)):
            asg[i] = v
            if all(holds(parts) for parts in bylast[i+1]):
                for sol in rec(i+1): yield sol

    for sol in rec(0): yield sol

def mk(content, secret):
    """ array content -> entries (ints or fresh witnesses) """
    if isinstance(content, list): return Array([mk(c, secret) for c in content])
    return PrivVal(content) if secret else content

def at(content, ixs):
    for i in ixs: content = content[i]
    return content

def put(content, ixs, v):
    """ model of a write: copy of content with the entry at ixs replaced """
    if not ixs: return v
    return [put(c, ixs[1:], v) if i == ixs[0] else c for (i, c) in enumerate(content)]

def dims(content):
    return [len(content)] + dims(content[0]) if isinstance(content, list) else []

def soundness(content, nidx, secret, write, secretval, q):
    """
    Record arr[i_1,..,i_nidx] (or the assignment of 6 / a witness 6 to it) for
    witness indices and enumerate all witnesses over GF(q).  nidx may be smaller
    than the number of dimensions (row read / row write).
    """
    what = "%s %s %s nidx=%d%s" % ("write" if write else "read", "secret" if secret else "const", content, nidx, " secretval" if secretval else "")
    reset()
    arr = mk(content, secret)
    npinned = len(be.privvals)
    shp = dims(content)
    rest = shp[nidx:]
    def newval(base):
        def bld(sh, b):
            if not sh: return (PrivVal(b) if secretval else b), b
            ents = [bld(sh[1:], b+k+1) for k in range(sh[0])]
            return Array([e[0] for e in ents]), [e[1] for e in ents]
        return bld(rest, base)
    if write:
        newv, newmodel = newval(6)
        npinned = len(be.privvals)
    idx = [PrivVal(0) for _ in range(nidx)]
    idxvars = list(range(npinned, npinned+nidx))
    pinned = {i: be.privvals[i] for i in range(npinned)}
    if write:
        arr[tuple(idx)] = newv
        outs = flat(arr)
    else:
        outs = flat(arr[tuple(idx)])
    if not honest_ok(): fail(what + ": honest witness for index 0 rejected")

    nsol = 0
    seen = set()
    for sol in solutions(q, pinned):
        nsol += 1
        ixv = [sol[i] for i in idxvars]
        if any(not (0 <= iv < shp[d]) for (d, iv) in enumerate(ixv)):
            fail(what + ": out-of-range index %s has a satisfying witness %s over GF(%d)" % (ixv, sol, q))
            return
        seen.add(tuple(ixv))
        got = [val(o, sol, [], q) for o in outs]
        if write:
            want = flat(put(content, ixv, newmodel))
        else:
            want = flat(at(content, ixv))
        want = [w % q for w in want]
        if got != want:
            fail(what + ": index %s: witness %s over GF(%d) gives %s, expected %s" % (ixv, sol, q, got, want))
            return
    allix = set(itertools.product(*[range(s) for s in shp[:nidx]]))
    if seen != allix:
        fail(what + ": indices without a witness over GF(%d): %s" % (q, sorted(allix-seen)))
    return nsol

# ------------------------------------------------------------------ checks

def check_soundness():
    q = 7
    tot = 0
    oned = [[3], [2, 5], [1, 2, 4], [1, 2, 4, 3], [0, 0, 5, 5, 1]]
    twod = [[[1, 2], [3, 4]], [[1, 2, 3], [4, 5, 0]], [[1], [2], [3]]]
    threed = [[[[1, 2], [3, 4]], [[5, 0], [1, 3]]]]
    for secret in (False, True):
        for content in oned:
            tot += soundness(content, 1, secret, False, False, q) or 0
            for secretval in (False, True):
                tot += soundness(content, 1, secret, True, secretval, q) or 0
        for content in twod:
            for nidx in (1, 2):
                tot += soundness(content, nidx, secret, False, False, q) or 0
                for secretval in (False, True):
                    tot += soundness(content, nidx, secret, True, secretval, q) or 0
    for content in threed:
        tot += soundness(content, 3, False, False, False, 5) or 0
        tot += soundness(content, 3, False, True, True, 5) or 0
        tot += soundness(content, 2, True, False, False, 5) or 0
    print("soundness: %d satisfying witnesses over small fields examined" % tot)

def check_honest_and_oblivious():
    """ all in-range indices: results, witness accepted, same constraints """
    random.seed(15)
    nrun = 0
    for shp in [(1,), (2,), (3,), (5,), (8,), (2, 2), (3, 2), (2, 4), (2, 3, 2)]:
        def rnd(sh): return [rnd(sh[1:]) for _ in range(sh[0])] if sh else random.randrange(-50, 50)
        content = rnd(shp)
        for secret in (False, True):
            for nidx in range(1, len(shp)+1):
                for write in (False, True):
                    for secretval in ((False, True) if write else (False,)):
                        shapes = {}
                        for ixv in itertools.product(*[range(s) for s in shp[:nidx]]):
                            what = "honest %s shape %s secret=%s index %s" % ("write" if write else "read", shp, secret, ixv)
                            reset()
                            arr = mk(content, secret)
                            def bld(sh, b):
                                if not sh: return (PrivVal(b) if secretval else b), b
                                ents = [bld(sh[1:], b+k+1) for k in range(sh[0])]
                                return Array([e[0] for e in ents]), [e[1] for e in ents]
                            newv, newmodel = bld(list(shp[nidx:]), 1000)
                            idx = tuple(PrivVal(i) for i in ixv)
                            if write:
                                arr[idx] = newv
                                got = [val(o, be.privvals, be.pubvals, P) for o in flat(arr)]
                                want = flat(put(content, list(ixv), newmodel))
                            else:
                                res = arr[idx]
                                if len(shp) > nidx and not isinstance(res, ArrayRow): fail(what + ": row read does not give an ArrayRow")
                                got = [val(o, be.privvals, be.pubvals, P) for o in flat(res)]
                                want = flat(at(content, ixv))
                            if got != [w % P for w in want]: fail(what + ": got %s expected %s" % (got, want))
                            if not honest_ok(): fail(what + ": honest witness rejected")
                            shapes.setdefault(str(shape()), []).append(ixv)
                            nrun += 1
                        if len(shapes) != 1:
                            fail("constraints depend on the index: shape %s secret=%s write=%s: %s" % (shp, secret, write, list(shapes.values())))
    print("honest/oblivious: %d accesses replayed" % nrun)

def check_out_of_range():
    n = 0
    for ln in (1, 2, 3, 6):
        for secret in (False, True):
            for bad in (-1, -2, -ln, ln, ln+1, 2*ln+3, 1000, -1000, P-1):
                for write in (False, True):
                    what = "len %d index %d %s" % (ln, bad, "write" if write else "read")
                    reset()
                    arr = mk(list(range(10, 10+ln)), secret)
                    try:
                        if write: arr[PrivVal(bad)] = 5
                        else: arr[PrivVal(bad)]
                        fail(what + ": no IndexError")
                    except IndexError:
                        pass
                    if write and [val(o, be.privvals, be.pubvals, P) for o in flat(arr)] != list(range(10, 10+ln)):
                        fail(what + ": refused write changed the array")
                    if bad == P-1: continue   # its inverse-free honest replay below is the same as -1
                    # with errors ignored the same constraints are made but the witness must be rejected
                    reset()
                    arr = mk(list(range(10, 10+ln)), secret)
                    ignore_errors(True)
                    try:
                        if write: arr[PrivVal(bad)] = 5
                        else: arr[PrivVal(bad)]
                    finally:
                        ignore_errors(False)
                    shp_bad = shape()
                    if honest_ok(): fail(what + ": with ignore_errors the out-of-range access is accepted")
                    reset()
                    arr = mk(list(range(10, 10+ln)), secret)
                    if write: arr[PrivVal(0)] = 5
                    else: arr[PrivVal(0)]
                    if shape() != shp_bad: fail(what + ": constraints differ from those of an in-range access")
                    n += 1
    # 2-D: each coordinate
    for (bad, w) in (((2, 0), 0), ((0, 3), 0), ((-1, 1), 1), ((1, -1), 1), ((2, 3), 1)):
        reset()
        arr = mk([[1, 2, 3], [4, 5, 6]], True)
        try:
            if w: arr[PrivVal(bad[0]), PrivVal(bad[1])] = 9
            else: arr[PrivVal(bad[0]), PrivVal(bad[1])]
            fail("2-D index %s: no IndexError" % (bad,))
        except IndexError:
            pass
        n += 1
    print("out of range: %d cases" % n)

def check_sequences():
    random.seed(1515)
    nops = 0
    for trial in range(60):
        twod = trial % 2 == 1
        reset()
        if twod:
            r, c = random.randrange(1, 4), random.randrange(1, 4)
            model = [[random.randrange(100) for _ in range(c)] for _ in range(r)]
        else:
            r = random.randrange(1, 7)
            model = [random.randrange(100) for _ in range(r)]
        arr = mk(model, random.random() < .5)
        for step in range(12):
            op = random.random()
            i = random.randrange(r)
            ii = PrivVal(i) if random.random() < .8 else i
            if twod:
                j = random.randrange(c)
                jj = PrivVal(j) if random.random() < .8 else j
                if op < .4:
                    v = random.randrange(100)
                    arr[ii, jj] = PrivVal(v) if random.random() < .5 else v
                    model = put(model, [i, j], v)
                elif op < .5:
                    row = [random.randrange(100) for _ in range(c)]
                    arr[ii] = mk(row, random.random() < .5)
                    model = put(model, [i], row)
                elif op < .8:
                    if val(arr[ii, jj], be.privvals, be.pubvals, P) != model[i][j]: fail("sequence: wrong 2-D read")
                else:
                    if [val(o, be.privvals, be.pubvals, P) for o in flat(arr[ii])] != model[i]: fail("sequence: wrong row read")
                    if val(arr[ii][jj], be.privvals, be.pubvals, P) != model[i][j]: fail("sequence: wrong chained read")
            else:
                if op < .5:
                    v = random.randrange(100)
                    arr[ii] = PrivVal(v) if random.random() < .5 else v
                    model = put(model, [i], v)
                else:
                    if val(arr[ii], be.privvals, be.pubvals, P) != model[i]: fail("sequence: wrong read")
            if [val(o, be.privvals, be.pubvals, P) for o in flat(arr)] != flat(model):
                fail("sequence: array %s differs from model %s" % (arr, model))
            nops += 1
        if not honest_ok(): fail("sequence: honest witness rejected")
    print("sequences: %d operations against a list model" % nops)

def check_rows_and_guards():
    reset()
    arr = mk([[1, 2], [3, 4]], False)
    try:
        arr[PrivVal(1)][PrivVal(0)] = 5
        fail("chained assignment into a returned row is accepted")
    except TypeError:
        pass
    try:
        arr[PrivVal(1)][0] = 5
        fail("chained assignment into a returned row is accepted")
    except TypeError:
        pass
    if flat(arr) != [1, 2, 3, 4]: fail("refused chained assignment changed the array")

    # accesses in a branch that is not taken: no error even for a bad index,
    # the constraint system stays satisfiable and is the same as in a taken branch
    shapes = []
    for (cond, ix) in ((0, 7), (0, 1), (1, 1), (1, 2), (0, -3)):
        reset()
        arr = mk([5, 6, 7], True)
        c = PrivValBool(cond)
        i = PrivVal(ix)
        res = if_then_else(c, lambda: arr[i], 0)
        if not honest_ok(): fail("guarded read cond=%d ix=%d: witness rejected" % (cond, ix))
        if cond and val(res, be.privvals, be.pubvals, P) != [5, 6, 7][ix]: fail("guarded read: wrong value")
        if not cond and val(res, be.privvals, be.pubvals, P) != 0: fail("guarded read: wrong value in untaken branch")
        shapes.append(shape())
    if any(s != shapes[0] for s in shapes): fail("guarded read: constraints depend on condition or index")
    reset()
    arr = mk([5, 6, 7], True)
    try:
        if_then_else(PrivValBool(1), lambda: arr[PrivVal(3)], 0)
        fail("out-of-range read in a taken branch: no IndexError")
    except IndexError:
        pass
    if rt.guard is not None or ignore_errors(): fail("guard state not restored after IndexError")
    print("rows and guards checked")

check_rows_and_guards()
check_out_of_range()
check_honest_and_oblivious()
check_sequences()
check_soundness()

if failures:
    print("%d FAILURES" % len(failures))
    sys.exit(1)
print("C15 holds on everything examined")
sys.exit(0)
