#!/usr/bin/env python
"""
Evidence program for property C19 ("the backend in use is the one the configuration names").

Run as   PYTHONPATH=<tree> /venv/bin/python P.check.py   from an empty directory.

For several hundred configurations (ordered sets of backend modules imported before the runtime x
PYSNARK_BACKEND unset / exact names / other spellings of names / unknown names / unloadable names) a fresh
interpreter imports pysnark.runtime, builds a small circuit and reports what happened.  The parent then
checks the PROPERTY against an oracle written here (it does not look at how runtime.py decides):

  * a pre-imported backend module  -> that backend is used (name and module agree), environment irrelevant
  * PYSNARK_BACKEND is a known name (exactly as documented) -> exactly that backend, or the import of the
    runtime fails with a traceback (no other backend silently used)
  * PYSNARK_BACKEND is some other spelling of a known name (case / surrounding blanks) -> EITHER it is
    treated as that known name (selected, or loud failure) OR as an unknown name (reported, then auto-detected);
    nothing in between (e.g. never a different backend without the report)
  * unknown name -> "unknown backend" report mentioning the value, printed BEFORE anything about the fallback
  * auto-detection -> the first loadable backend of the documented order, an error line for each one before it
  * always: backend_name is the documented name of the module in runtime.backend; that module receives every
    constraint; wires are objects of that module's family; get_modulus() is the field documented for the
    name; fieldinverse works in that field; all recorded constraints hold on the recorded witness modulo that
    field; the files written by snarkjs name that field; the full backend interface is present.

Pre-importing one of the *derived* modules (libsnarkgg, zkifbellman, zkifbulletproofs) also pre-imports its base
module; what the untouched pre-import loop of runtime.py does then is outside the change under test and not
part of the configurations below (selection of the derived backends through PYSNARK_BACKEND is).
"""
import itertools
import json
import os
import shutil
import subprocess
import sys
import tempfile

DOCUMENTED = [  # documented order of auto-detection, with module and field
    ("libsnark", "pysnark.libsnark.backend", None),
    ("libsnarkgg", "pysnark.libsnark.backendgg", None),
    ("qaptools", "pysnark.qaptools.backend", None),
    ("snarkjs", "pysnark.snarkjsbackend",
     21888242871839275222246405745257275088548364400416034343698204186575808495617),
    ("zkinterface", "pysnark.zkinterface.backend",
     21888242871839275222246405745257275088548364400416034343698204186575808495617),
    ("zkifbellman", "pysnark.zkinterface.backendbellman",
     52435875175126190479447740508185965837690552500527637822603658699938581184513),
    ("zkifbulletproofs", "pysnark.zkinterface.backendbulletproofs",
     7237005577332262213973186563042994240857116359379907606001950938285454250989),
    ("nobackend", "pysnark.nobackend", 10000),
]
NAMES = [d[0] for d in DOCUMENTED]
MODULE = {d[0]: d[1] for d in DOCUMENTED}
FIELD = {d[0]: d[2] for d in DOCUMENTED}
# module whose classes represent the wires of a backend
FAMILY = {"snarkjs": "pysnark.snarkjsbackend", "zkinterface": "pysnark.zkinterface.backend",
          "zkifbellman": "pysnark.zkinterface.backend", "zkifbulletproofs": "pysnark.zkinterface.backend",
          "nobackend": "pysnark.nobackend"}
INTERFACE = ["privval", "pubval", "zero", "one", "fieldinverse", "get_modulus", "add_constraint", "prove"]
MARK = "@@C19@@"

CHILD = r'''
import importlib, json, sys
pre = json.loads(sys.argv[1])
for m in pre: importlib.import_module(m)
import pysnark.runtime as rt
rt.autoprove = False
TABLE = json.loads(sys.argv[2])
INTERFACE = json.loads(sys.argv[3])
out = {"name": rt.backend_name, "module": rt.backend.__name__, "table": rt.backends}
out["interface"] = {n: callable(getattr(rt.backend, n, None)) for n in INTERFACE}
# who receives the constraints: count per loaded backend module (module attribute looked up at call time)
counts = {}
def wrap(modname):
    mod = sys.modules[modname]
    orig = mod.add_constraint
    counts[modname] = 0
    def add_constraint(v, w, y):
        counts[modname] += 1
        return orig(v, w, y)
    mod.add_constraint = add_constraint
for modname in TABLE:
    if modname in sys.modules: wrap(modname)
if rt.backend.__name__ not in counts: wrap(rt.backend.__name__)
x = rt.PrivVal(3); y = rt.PubVal(-5); z = rt.PrivVal(7)
p = x * y
q = p * z + x
q.assert_eq(3 * -5 * 7 + 3)
(q * q).assert_nonzero()
h = (x * 6) / 3
(h * z).assert_eq(42)
rt.ignore_errors(True)
g = rt.PrivVal(12) / 5          # not an integer: value computed with fieldinverse / get_modulus of the backend
rt.ignore_errors(False)
out["counts"] = counts
out["num_constraints"] = rt.num_constraints
out["modulus"] = rt.backend.get_modulus()
out["wire_family"] = [type(w.lc).__module__ for w in (x, y, rt.LinComb.ONE, rt.LinComb.ZERO, q)]
out["inv7"] = rt.backend.fieldinverse(7)
out["gval"] = g.value
be = rt.backend
if hasattr(be, "constraints") and hasattr(be, "pubvals") and hasattr(be, "privvals"):
    mod = be.get_modulus()
    def ev(lc):
        s = 0
        for k, c in lc.lc.items():
            s += c * (1 if k == 0 else be.pubvals[k - 1] if k > 0 else be.privvals[-k - 1])
        return s % mod
    out["recorded"] = len(be.constraints)
    out["unsatisfied"] = [i for i, (a, b, c) in enumerate(be.constraints) if (ev(a) * ev(b) - ev(c)) % mod != 0]
    out["nvars"] = [len(be.pubvals), len(be.privvals)]
if rt.backend_name == "snarkjs":
    be.prove()
    w = open("witness.wtns", "rb").read(); r = open("circuit.r1cs", "rb").read()
    out["wtns_modulus"] = int.from_bytes(w[28:60], "little")
    out["r1cs_modulus"] = int.from_bytes(r[28:60], "little")
    out["r1cs_nconstraints"] = int.from_bytes(r[84:88], "little")
print()
print("''' + MARK + r'''" + json.dumps(out))
'''

failures = []
stats = {"runs": 0, "selected": 0, "loud": 0, "auto": 0, "preimported": 0, "respelled-as-name": 0,
         "respelled-as-unknown": 0}


def fail(cfg, msg, res=None):
    failures.append((cfg, msg))
    print("PROPERTY VIOLATED in", cfg, ":", msg)
    if res is not None:
        print("   stdout:", res.stdout[-600:].replace("\n", "\n           "))
        print("   stderr:", res.stderr[-600:].replace("\n", "\n           "))


def main():
    work = tempfile.mkdtemp(prefix="c19-check-")
    try:
        run_all(work)
    finally:
        shutil.rmtree(work, ignore_errors=True)
    print("runs:", stats)
    if failures:
        print("FAILED:", len(failures), "violations")
        sys.exit(1)
    print("OK: property C19 held in all configurations")


def run_all(work):
    stubs = os.path.join(work, "stubs")
    os.mkdir(stubs)
    os.mkdir(os.path.join(stubs, "flatbuffers"))   # flatbuffers is only really used when writing .zkif files
    with open(os.path.join(stubs, "flatbuffers", "__init__.py"), "w") as f:
        f.write("class Builder:\n    def __init__(self, *a): raise RuntimeError('flatbuffers stub')\n")
    with open(os.path.join(stubs, "flatbuffers", "compat.py"), "w") as f:
        f.write("def import_numpy(): return None\n")
    child = os.path.join(work, "child.py")
    with open(child, "w") as f:
        f.write(CHILD)
    cwd = os.path.join(work, "cwd")
    os.mkdir(cwd)

    base_env = {k: v for k, v in os.environ.items() if k != "PYSNARK_BACKEND"}
    base_env["PYTHONUTF8"] = "1"
    base_env["PYTHONPATH"] = os.pathsep.join([p for p in [base_env.get("PYTHONPATH"), stubs] if p])

    def run(pre, envval):
        env = dict(base_env)
        if envval is not None:
            env["PYSNARK_BACKEND"] = envval
        stats["runs"] += 1
        return subprocess.run([sys.executable, child, json.dumps([MODULE[n] for n in pre]),
                               json.dumps([d[1] for d in DOCUMENTED]), json.dumps(INTERFACE)],
                              env=env, cwd=cwd, capture_output=True, text=True, timeout=120)

    # which backends can be loaded here at all (each in a fresh interpreter)
    loadable = {}
    for name in NAMES:
        r = subprocess.run([sys.executable, "-c", "import importlib,sys; importlib.import_module(sys.argv[1])",
                            MODULE[name]], env=base_env, cwd=cwd, capture_output=True, text=True)
        loadable[name] = (r.returncode == 0)
    print("loadable here:", loadable)
    if not (loadable["snarkjs"] and loadable["nobackend"] and loadable["zkinterface"]):
        print("unexpected environment"); sys.exit(2)
    first_loadable = next(n for n in NAMES if loadable[n])
    unloadable_before = NAMES[:NAMES.index(first_loadable)]

    def parse(res):
        msgs, out = [], None
        for line in res.stdout.splitlines():
            if line.startswith(MARK):
                out = json.loads(line[len(MARK):])
            elif out is None:
                msgs.append(line)
        return msgs, out

    def check_in_effect(cfg, res, out, expected):
        """the reported name identifies the backend in effect, and that backend is `expected`"""
        if [tuple(t) for t in out["table"]] != [(d[0], d[1]) for d in DOCUMENTED]:
            fail(cfg, "table of backends differs from the documented one: %r" % out["table"], res)
        if out["name"] != expected:
            fail(cfg, "backend_name is %r, expected %r" % (out["name"], expected), res)
        if out["name"] not in NAMES:
            return fail(cfg, "backend_name %r is not a documented name" % (out["name"],), res)
        name = out["name"]
        if out["module"] != MODULE[name]:
            fail(cfg, "name %r but constraints go to module %r" % (name, out["module"]), res)
        if not all(out["interface"].values()):
            fail(cfg, "incomplete backend interface: %r" % out["interface"], res)
        if out["modulus"] != FIELD[name]:
            fail(cfg, "name %r but field %r" % (name, out["modulus"]), res)
        if out["num_constraints"] <= 0:
            fail(cfg, "no constraints generated?", res)
        for modname, cnt in out["counts"].items():
            want = out["num_constraints"] if modname == out["module"] else 0
            if cnt != want:
                fail(cfg, "module %s received %d constraints, expected %d" % (modname, cnt, want), res)
        if set(out["wire_family"]) != {FAMILY[name]}:
            fail(cfg, "wires of %r allocated by %r" % (name, out["wire_family"]), res)
        if name != "nobackend":
            if out["inv7"] * 7 % FIELD[name] != 1:
                fail(cfg, "fieldinverse does not work in the field of %r" % name, res)
            if out["gval"] * 5 % FIELD[name] != 12:
                fail(cfg, "12/5 evaluated in another field than that of %r" % name, res)
            if out.get("recorded") != out["num_constraints"] or out.get("unsatisfied"):
                fail(cfg, "constraints recorded %r of %r, unsatisfied %r" %
                     (out.get("recorded"), out["num_constraints"], out.get("unsatisfied")), res)
            if out["nvars"][0] != 1 or out["nvars"][1] < 3:
                fail(cfg, "wires recorded by the backend: %r" % (out["nvars"],), res)
        if name == "snarkjs":
            if out["wtns_modulus"] != FIELD[name] or out["r1cs_modulus"] != FIELD[name]:
                fail(cfg, "files written for another field", res)
            if out["r1cs_nconstraints"] != out["num_constraints"]:
                fail(cfg, "r1cs file has %d constraints" % out["r1cs_nconstraints"], res)

    def is_unknown_report(line, envval):
        return "unknown backend" in line and envval.strip() in line

    def check_auto(cfg, res, msgs, out, envval_reported):
        """auto-detection; if envval_reported is not None, the unknown-name report must come first"""
        lines = [l for l in msgs if l.strip()]
        if envval_reported is not None:
            # a value with embedded newlines is printed over several lines: compare on the joined text
            text = "\n".join(msgs)
            pos_report = text.find("unknown backend")
            pos_fallback = text.find("Error loading backend")
            if pos_report < 0 or envval_reported not in text[pos_report:]:
                fail(cfg, "unknown name %r not reported" % envval_reported, res)
            elif pos_fallback >= 0 and pos_fallback < pos_report:
                fail(cfg, "fallback started before the unknown name was reported", res)
        else:
            if any("unknown backend" in l for l in lines):
                fail(cfg, "an unknown name is reported although none was given", res)
        if out is None:
            return fail(cfg, "auto-detection did not produce a backend (rc=%d)" % res.returncode, res)
        for n in unloadable_before:
            if not any("Error loading backend" in l and MODULE[n] in l for l in lines):
                fail(cfg, "no error line for unloadable %s before the fallback" % n, res)
        check_in_effect(cfg, res, out, first_loadable)
        stats["auto"] += 1

    def check_named(cfg, res, msgs, out, name):
        """a known backend was named: exactly it, or a loud failure"""
        if any("unknown backend" in l for l in msgs):
            fail(cfg, "known name reported as unknown", res)
        if loadable[name]:
            if out is None:
                return fail(cfg, "loadable backend %s named but runtime failed (rc=%d)" % (name, res.returncode), res)
            check_in_effect(cfg, res, out, name)
            if any("Error loading backend" in l for l in msgs):
                fail(cfg, "auto-detection ran although a known backend was named", res)
            stats["selected"] += 1
        else:
            if out is not None or res.returncode == 0:
                fail(cfg, "unloadable backend %s named, but the program went on with %r" %
                     (name, out and out["name"]), res)
            elif "Traceback" not in res.stderr:
                fail(cfg, "unloadable backend %s named: no loud failure" % name, res)
            if any("Error loading backend" in l for l in msgs):
                fail(cfg, "auto-detection ran although a known backend was named", res)
            stats["loud"] += 1

    # ---- environment values ----
    exact = list(NAMES)
    respelled = {}
    for n in NAMES:
        for v in (n.upper(), n.title(), n.swapcase(), n[0].upper() + n[1:], " " + n, n + " ", "  " + n + "\t",
                  "\t" + n.upper() + "  ", n + "\n", "\n " + n, n + "\r", "\x0b" + n + "\x0c"):
            if v != n:
                respelled[v] = n
    # extra spellings for the cheap backends only
    respelled.update({"SnArKjS": "snarkjs", " NoBackend ": "nobackend", "ZKIFBellman": "zkifbellman",
                      "\u2003snarkjs\u2003": "snarkjs", "nobac\u212aend": "nobackend"})  # em space; Kelvin sign
    unknown = ["", " ", "\t", "snarkjs2", "snark js", "s narkjs", "libsnark,snarkjs", "snarkjs,nobackend",
               "pysnark.snarkjsbackend", "pysnark.nobackend", "no_backend", "no-backend", "zkif", "zkinterfac",
               "libsnarkg", "libsnarkggg", "nobackend;", "'snarkjs'", '"nobackend"', "snarkjs=", "none", "None",
               "auto", "0", "snarkjs nobackend", "nobackend\x00x".replace("\x00", "?"), "ſnarkjs",
               "zkifbulletproof", "bellman", "groth16", "qaptool", "*"]

    def norm(v):
        return v.strip().lower()

    for v in unknown:
        assert norm(v) not in NAMES and v not in NAMES, v

    # ---- 1. nothing pre-imported ----
    res = run((), None)
    msgs, out = parse(res)
    check_auto(("pre=()", "env unset"), res, msgs, out, None)

    for v in exact:
        cfg = ("pre=()", "env=%r" % v)
        res = run((), v)
        msgs, out = parse(res)
        check_named(cfg, res, msgs, out, v)

    for v, n in respelled.items():
        cfg = ("pre=()", "env=%r" % v)
        res = run((), v)
        msgs, out = parse(res)
        reported = "unknown backend" in "\n".join(msgs)
        if reported:   # treated as an unknown name: fine, but then it has to be the complete unknown-name behaviour
            check_auto(cfg, res, msgs, out, v.strip())
            stats["respelled-as-unknown"] += 1
        else:          # treated as the known name n: then it has to be the complete known-name behaviour
            check_named(cfg, res, msgs, out, n)
            if out is not None and out["name"] != n:
                fail(cfg, "reported name %r is not the documented spelling %r" % (out["name"], n), res)
            stats["respelled-as-name"] += 1

    for v in unknown:
        cfg = ("pre=()", "env=%r" % v)
        res = run((), v)
        msgs, out = parse(res)
        check_auto(cfg, res, msgs, out, v.strip())

    # ---- 2. backend modules imported before the runtime: they win, whatever the environment says ----
    pres = [("snarkjs",), ("nobackend",), ("zkinterface",), ("snarkjs", "nobackend"), ("nobackend", "snarkjs"),
            ("zkinterface", "snarkjs"), ("nobackend", "zkinterface"), ("zkinterface", "nobackend", "snarkjs")]
    envs = [None, "snarkjs", "nobackend", "zkinterface", "zkifbellman", "libsnark", "qaptools", "SNARKJS",
            " nobackend ", "NoBackend", "LIBSNARK ", "bogus", "", "Zkinterface\n"]
    for pre, v in itertools.product(pres, envs):
        cfg = ("pre=%r" % (pre,), "env=%r" % (v,))
        res = run(pre, v)
        msgs, out = parse(res)
        if out is None:
            fail(cfg, "runtime failed although a backend was pre-imported (rc=%d)" % res.returncode, res)
            continue
        if out["name"] not in pre:
            fail(cfg, "backend %r used although %r had been imported before the runtime" % (out["name"], pre), res)
        check_in_effect(cfg, res, out, out["name"])
        if any("Error loading backend" in l for l in msgs):
            fail(cfg, "auto-detection ran although a backend was pre-imported", res)
        stats["preimported"] += 1


main()
