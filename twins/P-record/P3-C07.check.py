# Evidence program for property C07 (a false guard makes code inert; a true guard is transparent),
# written for the change P (add_constraint raises under a guard that is true exactly as it does unguarded).
#
#   PYTHONPATH=<tree> /venv/bin/python P.check.py          (from an empty directory; exit 0 = property held everywhere)
#
# What is checked, for many bodies x operand values (valid and invalid) x guard contexts (guarded() and lazy
# if_then_else branches, nested up to three deep, every combination of guard values) x ignore_errors off/on:
#   * every guard on the path true ("active"): same exception (type and message) / same values as the unguarded
#     reference run, and the recorded witness satisfies the emitted constraints exactly when it does unguarded
#   * some guard on the path false ("inert"): no exception whatever the operands, and EVERY emitted constraint
#     holds on the recorded witness (evaluated modulo the snarkjs field)
#   * the result of an if_then_else whose body branch is not selected is the value of the other branch, and
#     the wire carrying it is pinned by a constraint (perturbing it breaks the system)
#   * enforcement is keyed on the guard wire: flipping a false guard to 1 in the witness of an inert body with
#     invalid operands breaks the system
#   * add_constraint called directly (the code P changes): all of the above, for holding and violated v*w=y,
#     check=True/False
# The sweep is repeated in a sub-process on the nobackend backend (exceptions and values only).
#
# Known defects of the unchanged tree that are *not* what P is about are kept out of the sweep: a zero divisor
# raises "Division by zero" under a false guard (so b==0 is skipped for the division bodies, and a>>b with a secret
# b, which always divides by 2**b computed from LinComb.ONE==guard==0, is left out), and LinCombBool(x) of a
# non-boolean value raises under a false guard.

import os, sys, subprocess, itertools

BACKEND = os.environ.get("C07_CHECK_BACKEND", "snarkjs")
os.environ["PYSNARK_BACKEND"] = BACKEND

import pysnark.runtime as rt
rt.autoprove = False
from pysnark.runtime import PrivVal, LinComb, guarded, add_constraint
from pysnark.boolean import PrivValBool, LinCombBool
from pysnark.fixedpoint import LinCombFxp
from pysnark.branching import if_then_else

be = rt.backend
assert rt.backend_name == BACKEND, rt.backend_name
HAVE_R1CS = (BACKEND == "snarkjs")
MOD = be.get_modulus()

# ------------------------------------------------------------------ constraint system access

def reset(ign, bitlength=8):
    if HAVE_R1CS:
        be.privvals.clear(); be.pubvals.clear(); be.constraints.clear()
    rt.guard = None
    rt._ignore_errors = ign
    LinComb.ONE = LinComb.ONE_SAFE
    rt.bitlength = bitlength

def wire(k):
    return 1 if k == 0 else (be.pubvals[k-1] if k > 0 else be.privvals[-k-1])

def evlin(lin):
    """ value of a backend linear combination on the recorded witness """
    return sum(c*wire(k) for k, c in lin.lc.items()) % MOD

def ev(x):
    """ value of the wire(s) behind a LinComb on the recorded witness """
    if not HAVE_R1CS: return None
    return evlin(x.lc)

def unsat():
    """ indices of the emitted constraints that do not hold on the recorded witness """
    if not HAVE_R1CS: return []
    return [i for i, (v, w, y) in enumerate(be.constraints) if (evlin(v)*evlin(w) - evlin(y)) % MOD != 0]

def nwires():
    return len(be.privvals) if HAVE_R1CS else 0

def flat(r):
    if r is None: return None
    if isinstance(r, LinComb): return ("lc", r.value % MOD, ev(r))
    if isinstance(r, (LinCombBool, LinCombFxp)): return (type(r).__name__, r.lc.value % MOD, ev(r.lc))
    if isinstance(r, (list, tuple)): return [flat(x) for x in r]
    if isinstance(r, int): return ("int", r % MOD)
    raise TypeError(type(r))

def scalar(r):
    """ squeeze any body result into one LinComb so that it can be a branch of if_then_else """
    if r is None: return LinComb.ZERO
    if isinstance(r, (LinCombBool, LinCombFxp)): return r.lc
    if isinstance(r, (list, tuple)):
        acc = LinComb.ZERO
        for i, x in enumerate(r): acc = acc + scalar(x)*(3**i)
        return acc
    if isinstance(r, int): return LinComb.ZERO + r
    return r

# ------------------------------------------------------------------ guard contexts

OTHER = 9   # value of the branch that is not the body

class Run:
    """ outcome of one traced execution """
    def __init__(self): self.exc = None; self.res = None; self.unsat = None; self.gwires = []; self.last = None

def run(layers, ign, body, a, b, want_scalar, bitlength=8):
    """
    layers (outermost first): ("G",v) body under guarded(PrivValBool(v)); ("T",v) body is the lazy true branch of
    if_then_else(PrivValBool(v), body, lazy other); ("F",v) body is the lazy false branch, other branch lazy too;
    ("E",v) body is the lazy false branch, other branch given eagerly
    """
    reset(ign, bitlength)
    out = Run()
    x, y, z = PrivVal(a), PrivVal(b), PrivVal(3)
    other = lambda: z*z

    def go(i):
        if i == len(layers):
            r = body(x, y)
            return scalar(r) if want_scalar else r
        kind, v = layers[i]
        out.gwires.append(nwires())
        c = PrivValBool(v)
        inner = lambda: go(i+1)
        if kind == "G": return guarded(c.lc)(inner)()
        if kind == "T": return if_then_else(c, inner, other)
        if kind == "F": return if_then_else(c, other, inner)
        if kind == "E": return if_then_else(c, other(), inner)
        raise ValueError(kind)

    try:
        r = go(0)
        out.res = flat(r)
    except Exception as e:
        out.exc = (type(e).__name__, str(e))
    out.unsat = unsat()
    out.last = nwires()-1
    # the library must have cleaned up after itself, also after an exception
    assert rt.guard is None and rt._ignore_errors == ign and LinComb.ONE is LinComb.ONE_SAFE, "guard state leaked"
    return out

def passes(layer):
    kind, v = layer
    return v == 1 if kind in "GT" else v == 0

def classify(layers):
    """ -> (active, selected_other) ; selected_other: the overall result must be OTHER """
    failing = [i for i, l in enumerate(layers) if not passes(l)]
    if not failing: return True, False
    first = failing[0]
    return False, layers[first][0] != "G"   # all layers outside `first` pass, so its other branch is what comes out

def all_layers(kinds, depth):
    opts = [(k, v) for k in kinds for v in (0, 1)]
    return [list(p) for p in itertools.product(opts, repeat=depth)]

# ------------------------------------------------------------------ bodies

nz = lambda a, b: b != 0
def B(name, fn, ok=lambda a, b: True): return (name, fn, ok)

BODIES = [
 B("mul", lambda a,b: a*b),
 B("truediv", lambda a,b: a/b, nz),
 B("truediv_int", lambda a,b: a/3),
 B("floordiv", lambda a,b: a//b, nz),
 B("mod", lambda a,b: a%b, nz),
 B("divmod", lambda a,b: divmod(a,b), nz),
 B("floordiv_int", lambda a,b: a//5),
 B("rfloordiv", lambda a,b: 100//b, nz),
 B("lt", lambda a,b: a<b), B("le", lambda a,b: a<=b), B("gt", lambda a,b: a>b), B("ge", lambda a,b: a>=b),
 B("eq", lambda a,b: a==b), B("ne", lambda a,b: a!=b),
 B("lt_int", lambda a,b: a<7),
 B("assert_lt", lambda a,b: a.assert_lt(b)), B("assert_le", lambda a,b: a.assert_le(b)),
 B("assert_gt", lambda a,b: a.assert_gt(b)), B("assert_ge", lambda a,b: a.assert_ge(b)),
 B("assert_eq", lambda a,b: a.assert_eq(b)), B("assert_ne", lambda a,b: a.assert_ne(b)),
 B("assert_lt_int", lambda a,b: a.assert_lt(7)),
 B("assert_zero", lambda a,b: a.assert_zero()), B("assert_nonzero", lambda a,b: a.assert_nonzero()),
 B("assert_positive", lambda a,b: a.assert_positive()), B("assert_positive4", lambda a,b: a.assert_positive(4)),
 B("assert_range", lambda a,b: a.assert_range(b, 12)),
 B("to_bits", lambda a,b: a.to_bits()),
 B("and", lambda a,b: a&b), B("or", lambda a,b: a|b), B("xor", lambda a,b: a^b), B("invert", lambda a,b: ~a),
 B("rshift_int", lambda a,b: a>>2), B("lshift", lambda a,b: a<<b),
 B("pow_int", lambda a,b: a**3), B("pow0", lambda a,b: a**0), B("pow", lambda a,b: a**b),
 B("abs", lambda a,b: abs(a)),
 B("check_positive", lambda a,b: a.check_positive()), B("check_zero", lambda a,b: a.check_zero()),
 B("composed1", lambda a,b: ((a*b + 3)//7 < a).lc * (a % 5)),
 B("composed2", lambda a,b: (a/b + 1).assert_lt(b*b), nz),
 B("composed3", lambda a,b: if_then_else(a<b, a, b)),
 B("composed4", lambda a,b: [x & (a>=b) for x in (a-b).to_bits()]),
 B("composed5", lambda a,b: if_then_else(a<=b, lambda: (b-a).to_bits(4)[0].lc, lambda: (a-b)/2)),
 B("boolops", lambda a,b: ((a<b) & (a!=b)) | ~(a==3)),
 B("boolassert", lambda a,b: (a<b).assert_eq(a<=b)),
 B("fxp_mul", lambda a,b: LinCombFxp(a)*LinCombFxp(b)),
 B("fxp_div", lambda a,b: LinCombFxp(a)/LinCombFxp(b), nz),
 B("fxp_lt", lambda a,b: LinCombFxp(a)<LinCombFxp(b)),
 B("fxp_floordiv", lambda a,b: LinCombFxp(a)//LinCombFxp(b), nz),
 B("fxp_assert", lambda a,b: LinCombFxp(a).assert_lt(LinCombFxp(b))),
]

def AC(v, w, y, check):
    # add_constraint called directly: x*y = z' where the third operand is a constant; "a" carries v, "b" carries w
    return B("add_constraint(%d*%d=%d,check=%s)" % (v, w, y, check),
             lambda a, b: add_constraint(a, b, LinComb.ZERO + y, check=check))

DIRECT = [(AC(v, w, y, chk), v, w) for v in (-2, 0, 1, 3) for w in (-1, 0, 2) for y in (-2, 0, 2, 3, 6) for chk in (True, False)]
# the same through linear combinations / a secret right-hand side
DIRECT += [(B("add_constraint(a+1,b,a*b+b+%d)" % d, lambda a, b, d=d: add_constraint(a+1, b, a*b+b+d)), v, w)
           for d in (0, 1) for v in (-2, 0, 3) for w in (0, 2)]

# ------------------------------------------------------------------ the checks

failures = []
stats = {"raised_like_unguarded": 0, "runs": 0, "active": 0, "inert": 0, "flips": 0, "tampers": 0, "constraints": 0}

def fail(msg):
    failures.append(msg)
    if len(failures) <= 25: print("VIOLATION:", msg)

refs = {}
def reference(bodyt, a, b, ign, want_scalar, bitlength, direct=False):
    key = (bodyt[0], a, b, ign, want_scalar, bitlength)
    if key not in refs:
        refs[key] = run([], ign, bodyt[1], a, b, want_scalar, bitlength)
        r = refs[key]
        if not ign and r.exc is None and r.unsat and not direct:
            fail("unguarded %s(%d,%d): no error but constraints %s fail" % (bodyt[0], a, b, r.unsat[:3]))
    return refs[key]

def check(bodyt, a, b, layers, ign, direct=False, bitlength=8):
    name, fn, ok = bodyt
    if not ok(a, b): return
    want_scalar = any(k != "G" for k, _ in layers)
    active, sel_other = classify(layers)
    what = "%s(%d,%d) in %s ignore_errors=%s bits=%d" % (name, a, b, layers, ign, bitlength)
    # reference runs first: they reset the backend
    ref = reference(bodyt, a, b, ign, want_scalar, bitlength, direct) if active else None
    refign = reference(bodyt, a, b, True, False, bitlength, direct) if layers == [("G", 0)] else None
    r = run(layers, ign, fn, a, b, want_scalar, bitlength)
    stats["runs"] += 1
    stats["constraints"] += len(be.constraints) if HAVE_R1CS else 0

    if active:
        stats["active"] += 1
        if ref.exc is not None:
            if r.exc is None:
                # tolerated only for a direct add_constraint (unchanged tree): silent, but then the system must
                # be unsatisfied so that the violation is still enforced
                if not (direct and (r.unsat or not HAVE_R1CS)):
                    fail(what + ": unguarded raises %s, true guard does not" % (ref.exc,))
            elif direct:
                stats["raised_like_unguarded"] += 1
                if r.exc[0] != ref.exc[0] or not r.exc[1].startswith("constraint did not hold"):
                    fail(what + ": unguarded raises %s, true guard raises %s" % (ref.exc, r.exc))
            elif r.exc != ref.exc:
                fail(what + ": unguarded raises %s, true guard raises %s" % (ref.exc, r.exc))
        else:
            if r.exc is not None:
                fail(what + ": raises %s under true guards, nothing unguarded" % (r.exc,))
            else:
                if r.res != ref.res:
                    fail(what + ": value %s under true guards, %s unguarded" % (r.res, ref.res))
                if bool(r.unsat) != bool(ref.unsat):
                    fail(what + ": constraints failing under true guards %s, unguarded %s" % (r.unsat[:3], ref.unsat[:3]))
                if not ign and r.unsat and not direct:   # (add_constraint with check=False is allowed to record a violated constraint)
                    fail(what + ": no error but constraints %s fail" % r.unsat[:3])
    else:
        stats["inert"] += 1
        if r.exc is not None:
            fail(what + ": raises %s although a guard is false" % (r.exc,))
            return
        if r.unsat:
            fail(what + ": a guard is false but constraints %s of %d fail on the recorded witness" % (r.unsat[:3], len(be.constraints)))
            return
        if sel_other and r.res[1] != OTHER:
            fail(what + ": result %s, the other branch gives %d" % (r.res, OTHER))
        if sel_other and HAVE_R1CS and r.res[2] != OTHER:
            fail(what + ": result wire %s, the other branch gives %d" % (r.res, OTHER))
        # enforcement hangs on the guard wire: one guarded() layer that is false, operands that violate the body
        if HAVE_R1CS and layers == [("G", 0)]:
            if refign.unsat:
                g = r.gwires[0]
                be.privvals[g] = 1
                stats["flips"] += 1
                if not unsat():
                    fail(what + ": flipping the guard wire to 1 leaves the system satisfied although the body is violated")
                be.privvals[g] = 0

    # the multiplexer pins its output
    if HAVE_R1CS and r.exc is None and layers and layers[0][0] != "G" and not r.unsat:
        be.privvals[r.last] += 1
        stats["tampers"] += 1
        if not unsat():
            fail(what + ": the selected value is not pinned (changing the product wire goes unnoticed)")
        be.privvals[r.last] -= 1

VALS = [-300, -5, -1, 0, 1, 3, 7, 12, 256, 1 << 40]
PAIRS_SMALL = [(7, 2), (6, 3), (-5, 3), (3, -5), (0, 7), (300, 7), (7, 300), (1 << 40, -1), (-300, 256), (12, 12), (255, 1), (2, 0)]

L1 = all_layers("GTFE", 1)
L2 = all_layers("GTFE", 2)
L3 = all_layers("GTF", 3)

def main():
    full = HAVE_R1CS
    # A: every body, every operand pair, every single-layer context, ignore_errors off and on
    for bodyt in BODIES:
        for a in VALS:
            for b in (VALS if full else [-5, 0, 3, 300]):
                for layers in L1:
                    for ign in (False, True):
                        check(bodyt, a, b, layers, ign)
    # B: every body, selected pairs, every two-layer context
    for bodyt in BODIES:
        for (a, b) in PAIRS_SMALL:
            for layers in L2:
                check(bodyt, a, b, layers, False)
            for layers in L2[::5]:
                check(bodyt, a, b, layers, True)
    # C: three layers, fewer bodies
    for bodyt in BODIES[::4]:
        for (a, b) in PAIRS_SMALL[::3]:
            for layers in L3:
                check(bodyt, a, b, layers, False)
    # D: default bitlength
    for bodyt in BODIES[::3]:
        for (a, b) in [(7, 2), (-5, 3), (70000, 3), (3, 70000), (-(1 << 16), 1), (65535, 65535)]:
            for layers in L1 + L2[::7]:
                check(bodyt, a, b, layers, False, bitlength=16)
    # E: add_constraint called directly
    for (bodyt, v, w) in DIRECT:
        for layers in L1 + L2 + L3[::9]:
            for ign in (False, True):
                check(bodyt, v, w, layers, ign, direct=True)

    print("backend %s: %d runs (%d with all guards true, %d with a false guard), %d constraints evaluated, "
          "%d guard flips, %d multiplexer tampers, %d direct add_constraint calls raised under true guards as they do unguarded, %d violations"
          % (BACKEND, stats["runs"], stats["active"], stats["inert"], stats["constraints"], stats["flips"], stats["tampers"],
             stats["raised_like_unguarded"], len(failures)))
    if failures: sys.exit(1)

    if BACKEND == "snarkjs":
        env = dict(os.environ); env["C07_CHECK_BACKEND"] = "nobackend"
        rc = subprocess.call([sys.executable, os.path.abspath(__file__)], env=env)
        if rc != 0:
            print("VIOLATION on nobackend"); sys.exit(1)
        print("C07 held in all cases")

main()
