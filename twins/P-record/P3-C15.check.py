# Evidence program for C15 (secret-index array access reads and writes exactly one element).
#
#   PYTHONPATH=<tree> /venv/bin/python P.check.py
#
# A recording backend is installed in place of pysnark.nobackend: every wire gets a number and a witness
# value, every constraint v*w=y is stored with its linear combinations.  With that the program checks, for
# many array shapes / contents / index patterns (each position of an index tuple secret or public):
#   1. the value returned by a read / the array left by a write equals plain Python list semantics;
#   2. every emitted constraint holds on the recorded witness (large prime field);
#   3. the emitted constraint system (wires, coefficients, order) is the same for every value of the secret
#      indices (and of the array contents);
#   4. soundness and completeness IN THE CIRCUIT (small prime field, exhaustive search over all wires that are
#      not inputs): for every in-range value of the index wires there is a satisfying witness and every
#      satisfying witness carries the right element on the output wires; for every out-of-range value of an
#      index wire there is no satisfying witness at all;
#   5. an out-of-range secret index raises IndexError; with ignore_errors it does not raise but the recorded
#      witness violates a constraint; in a disabled lazy if_then_else branch it neither raises nor spoils the
#      proof; in an enabled one everything is as without the guard;
#   6. random sequences of reads and writes on 1-, 2- and 3-dimensional arrays track a plain Python model;
#   7. kinds of results (ArrayRow exactly when the last index applied is secret) and error cases.
# Exit status 0 iff everything held.

import os, sys, itertools, random

os.environ["PYSNARK_BACKEND"] = "nobackend"
import pysnark.nobackend as nb

BIG = 21888242871839275222246405745257275088548364400416034343698204186575808495617
MOD = BIG

class LC:
    __slots__ = ("t",)
    def __init__(self, t=None): self.t = t if t is not None else {}
    def __add__(self, o):
        t = dict(self.t)
        for (k, c) in o.t.items(): t[k] = t.get(k, 0) + c
        return LC(t)
    def __sub__(self, o): return self + (-o)
    def __neg__(self): return LC({k: -c for (k, c) in self.t.items()})
    def __mul__(self, k):
        assert isinstance(k, int)
        return LC({w: c * k for (w, c) in self.t.items()})

wires = [1]          # witness values, wire 0 is the constant one
cons = []            # (LC, LC, LC)

def _newwire(val):
    wires.append(val)
    return LC({len(wires) - 1: 1})

nb.privval = _newwire
nb.pubval = _newwire
nb.zero = lambda: LC()
nb.one = lambda: LC({0: 1})
nb.fieldinverse = lambda v: pow(v % MOD, -1, MOD) if v % MOD else 0
nb.get_modulus = lambda: MOD
nb.add_constraint = lambda v, w, y: cons.append((v, w, y))
nb.prove = lambda: None

import pysnark.runtime as rt
from pysnark.runtime import PrivVal, LinComb, ignore_errors
from pysnark.boolean import LinCombBool
from pysnark.fixedpoint import LinCombFxp, PrivValFxp
from pysnark.branching import if_then_else
from pysnark.array import Array, ArrayRow

assert rt.backend is nb, "recording backend not picked up"

def reset(mod=BIG):
    global MOD
    MOD = mod
    del wires[1:]
    del cons[:]
    rt.guard = None
    ignore_errors(False)
    LinComb.ONE = LinComb.ONE_SAFE

def ev(lc, asg):
    return sum(c * asg[w] for (w, c) in lc.t.items()) % MOD

def violated(asg=None):
    asg = wires if asg is None else asg
    return [n for (n, (v, w, y)) in enumerate(cons) if (ev(v, asg) * ev(w, asg) - ev(y, asg)) % MOD != 0]

def canon(lc):
    return tuple(sorted((w, c % MOD) for (w, c) in lc.t.items() if c % MOD))

def structure():
    return (len(wires), tuple((canon(v), canon(w), canon(y)) for (v, w, y) in cons))

def solutions(fixed, limit=200000):
    """ all assignments of the wires that satisfy all constraints, given the values of the wires in fixed """
    n = len(wires)
    bucket = [[] for _ in range(n)]
    for c in cons:
        last = max([w for lc in c for w in lc.t] + [0])
        bucket[last].append(c)
    asg = [None] * n
    asg[0] = 1
    out = []
    def ok(ix):
        for (v, w, y) in bucket[ix]:
            if (ev(v, asg) * ev(w, asg) - ev(y, asg)) % MOD: return False
        return True
    def rec(ix):
        if ix == n:
            out.append(list(asg))
            if len(out) > limit: raise RuntimeError("too many solutions")
            return
        for val in ([fixed[ix]] if ix in fixed else range(MOD)):
            asg[ix] = val
            if ok(ix): rec(ix + 1)
        asg[ix] = None
    assert ok(0)
    rec(1)
    return out

failures = []
nchecks = [0]
def check(cond, *msg):
    nchecks[0] += 1
    if not cond:
        failures.append(" ".join(str(m) for m in msg))
        if len(failures) <= 25: print("FAIL:", *msg)

# ---------------------------------------------------------------------------------------------------------
# plain Python model

def shape_indices(shape):
    return itertools.product(*[range(n) for n in shape])

def model_make(shape, f, pos=()):
    if len(shape) == 0: return f(pos)
    return [model_make(shape[1:], f, pos + (k,)) for k in range(shape[0])]

def model_get(m, ix):
    for k in ix: m = m[k]
    return m

def model_set(m, ix, v):
    for k in ix[:-1]: m = m[k]
    m[ix[-1]] = v

def model_copy(m):
    return [model_copy(x) for x in m] if isinstance(m, list) else m

def wrap(m, conv):
    """ nested list -> Array of Arrays, leaves converted by conv """
    if isinstance(m, list): return Array([wrap(x, conv) for x in m])
    return conv(m)

def plain(x):
    """ Array / LinComb / ... -> nested list of integers (fixed point values stay scaled) """
    if isinstance(x, Array): return [plain(y) for y in x.arr]
    if isinstance(x, list): return [plain(y) for y in x]
    if isinstance(x, LinCombFxp): return x.lc.value
    if isinstance(x, LinCombBool): return x.lc.value
    if isinstance(x, LinComb): return x.value
    return x

def leaves(x):
    if isinstance(x, Array): return [z for y in x.arr for z in leaves(y)]
    if isinstance(x, list): return [z for y in x for z in leaves(y)]
    return [x]

def aslc(x):
    if isinstance(x, (LinCombFxp, LinCombBool)): x = x.lc
    if isinstance(x, int): x = rt.ConstVal(x)
    return x.lc

KINDS = {
    "const":  lambda pos, v: v,
    "secret": lambda pos, v: PrivVal(v),
    "mixed":  lambda pos, v: PrivVal(v) if sum(pos) % 2 else v,
    "fxp":    lambda pos, v: PrivValFxp(float(v)),
}

def build(shape, kind, valf):
    vals = model_make(shape, valf)                       # valf may be random: evaluate it once per position
    arr = model_make(shape, lambda pos: KINDS[kind](pos, model_get(vals, pos)))
    scale = (1 << 8) if kind == "fxp" else 1
    return model_make(shape, lambda pos: model_get(vals, pos) * scale), wrap(arr, lambda x: x)

SHAPES = [(1,), (2,), (3,), (4,), (1, 1), (1, 3), (3, 1), (2, 2), (2, 3), (3, 2), (4, 3), (2, 2, 2), (3, 2, 2), (2, 1, 3), (2, 3, 2), (2, 2, 2, 2)]

def patterns(n):
    return ["".join(p) for p in itertools.product("sp", repeat=n)]

def mkindex(pat, vals):
    return tuple(PrivVal(v) if c == "s" else v for (c, v) in zip(pat, vals))

def expected_kind(res, pat):
    """ array-valued results: ArrayRow exactly when the last index applied was a secret one """
    if not isinstance(res, Array): return True
    return isinstance(res, ArrayRow) == (pat[-1] == "s")

# ---------------------------------------------------------------------------------------------------------
# 1-3, 7: reads of every pattern, every index value

def valf_default(pos):
    return 3 + sum((7 ** (d + 1)) * k for (d, k) in enumerate(pos)) * (-1 if sum(pos) % 3 == 2 else 1)

def reads():
    counts = {}
    for shape in SHAPES:
        for kind in KINDS:
            if kind == "fxp" and len(shape) > 2: continue
            for depth in range(1, len(shape) + 1):
                for pat in patterns(depth):
                    if "s" not in pat: continue
                    structs = {}
                    for ixv in shape_indices(shape[:depth]):
                        # public positions are also exercised with the negative spelling of the index
                        for neg in ([False, True] if "p" in pat else [False]):
                            reset()
                            (m, arr) = build(shape, kind, valf_default)
                            ixs = tuple((v - shape[d] if (neg and pat[d] == "p") else v) for (d, v) in enumerate(ixv))
                            idx = mkindex(pat, ixs)
                            what = ("read", shape, kind, pat, ixs)
                            try:
                                res = arr[idx] if depth > 1 else arr[idx[0]]
                            except Exception as e:
                                check(False, what, "raised", repr(e))
                                continue
                            check(plain(res) == model_get(m, ixv), what, "returned", plain(res), "expected", model_get(m, ixv))
                            check(not violated(), what, "violated constraints", violated())
                            check(expected_kind(res, pat), what, "result kind", type(res).__name__)
                            check(plain(arr) == m, what, "read modified the array")
                            pubkey = tuple(v for (c, v) in zip(pat, ixs) if c == "p")
                            structs.setdefault(pubkey, set()).add(structure())
                            counts[(shape, kind, pat)] = len(cons)
                    for (pubkey, ss) in structs.items():
                        check(len(ss) == 1, "read", shape, kind, pat, pubkey, "constraint system depends on the secret index:", len(ss), "variants")
    return counts

def reads_contents_independent():
    """ the constraint system does not depend on the secret contents either """
    for shape in [(3,), (3, 2), (2, 2, 2)]:
        for pat in patterns(len(shape)):
            if "s" not in pat: continue
            ss = set()
            for seed in range(4):
                rnd = random.Random(seed)
                reset()
                (m, arr) = build(shape, "secret", lambda pos: rnd.randrange(-50, 50))
                ixv = tuple((rnd.randrange(n) if c == "s" else n - 1) for (n, c) in zip(shape, pat))
                res = arr[mkindex(pat, ixv)]
                check(plain(res) == model_get(m, ixv), "contents", shape, pat, ixv)
                check(not violated(), "contents", shape, pat, ixv, "violated")
                ss.add(structure())
            check(len(ss) == 1, "contents", shape, pat, "constraint system depends on contents")

# ---------------------------------------------------------------------------------------------------------
# 4: the circuit itself, exhaustively over a small field

def circuit(shape, pat, write, mod, guardmode=None):
    """ trace one access with secret contents, then look at ALL witnesses for ALL values of the index wires """
    reset(mod)
    valf = lambda pos: 1 + (sum((len(shape) + 1) ** d * k for (d, k) in enumerate(reversed(pos)))) % (mod - 1)
    (m, arr) = build(shape, "secret", valf)
    fixed = {w: wires[w] for w in range(1, len(wires))}          # contents are inputs
    depth = len(pat)
    ixv0 = tuple(0 for _ in pat)
    idx = mkindex(pat, ixv0)
    idxw = [max(i.lc.t) for i in idx if isinstance(i, LinComb)]
    newv = None
    if guardmode is not None:
        cond = LinCombBool(PrivVal(1))
        condw = max(cond.lc.lc.t)
        assert depth == len(shape)
        res = if_then_else(cond, lambda: arr[idx], lambda: 0)
        outs = [aslc(x) for x in leaves(res)]
    elif write:
        newv = mod - 1
        val = PrivVal(newv)
        fixed[max(val.lc.t)] = newv
        if depth < len(shape):  # write a whole sub-array
            sub = model_make(shape[depth:], lambda pos: newv)
            arr[idx] = wrap(sub, lambda x: val)
        else:
            arr[idx] = val
        outs = [aslc(x) for x in leaves(arr)]
    else:
        res = arr[idx]
        outs = [aslc(x) for x in leaves(res)]
    check(not violated(), "circuit", shape, pat, write, "violated on the recorded witness")

    secretdims = [d for d in range(depth) if pat[d] == "s"]
    for svals in itertools.product(range(mod), repeat=len(secretdims)):
        ixv = list(ixv0)
        for (d, v) in zip(secretdims, svals): ixv[d] = v
        inrange = all(ixv[d] < shape[d] for d in range(depth))
        for gval in ([None] if guardmode is None else [0, 1]):
            fx = dict(fixed)
            for (w, v) in zip(idxw, svals): fx[w] = v
            if gval is not None: fx[condw] = gval
            sols = solutions(fx)
            what = ("circuit", shape, pat, "write" if write else "read", "index wires", tuple(ixv), "guard", gval)
            if gval == 0:
                check(len(sols) > 0, what, "disabled branch cannot be proven")
                for s in sols:
                    check([ev(o, s) for o in outs] == [0] * len(outs), what, "disabled branch leaks into the result")
                continue
            if not inrange:
                check(len(sols) == 0, what, "out-of-range index CAN be proven:", len(sols), "witnesses")
                continue
            check(len(sols) > 0, what, "no witness for an in-range index")
            if write:
                mm = model_copy(m)
                if depth < len(shape): model_set(mm, ixv[:depth], model_make(shape[depth:], lambda pos: newv))
                else: model_set(mm, ixv, newv)
                exp = [x % mod for x in leaves(mm)]
            else:
                exp = [x % mod for x in leaves(model_get(m, ixv[:depth]))]
            for s in sols:
                got = [ev(o, s) for o in outs]
                if got != exp:
                    check(False, what, "a satisfying witness carries", got, "instead of", exp)
                    break
            else:
                check(True)

def circuits():
    for (shape, mod) in [((1,), 5), ((2,), 5), ((3,), 5), ((4,), 7), ((2, 2), 5), ((3, 2), 5), ((2, 3), 5), ((1, 2), 5), ((2, 2, 2), 5)]:
        for depth in range(1, len(shape) + 1):
            for pat in patterns(depth):
                if "s" not in pat: continue
                if pat.count("s") > 2: continue
                circuit(shape, pat, False, mod)
                if len(shape) <= 2: circuit(shape, pat, True, mod)
    for (shape, pat) in [((3,), "s"), ((3, 2), "sp"), ((2, 3), "sp"), ((2, 2), "ss"), ((2, 2, 2), "sps"), ((2, 2, 2), "ssp"), ((2, 2, 2), "spp")]:
        circuit(shape, pat, False, 5, guardmode=True)

# ---------------------------------------------------------------------------------------------------------
# 5: out-of-range indices, ignore_errors, guards

def out_of_range():
    for shape in [(1,), (3,), (2, 3), (3, 2), (2, 2, 2), (2, 3, 2)]:
        for kind in ["const", "secret"]:
            for depth in range(1, len(shape) + 1):
                for pat in patterns(depth):
                    for bad in [d for d in range(depth) if pat[d] == "s"]:
                        for badval in [-1, shape[bad], shape[bad] + 1, -shape[bad], 1000]:
                            ixv = [n - 1 for n in shape[:depth]]
                            ixv[bad] = badval
                            what = ("oob", shape, kind, pat, tuple(ixv))
                            # plain: raises
                            reset()
                            (m, arr) = build(shape, kind, valf_default)
                            try:
                                arr[mkindex(pat, ixv)]
                                check(False, what, "did not raise")
                            except IndexError: check(True)
                            except Exception as e: check(False, what, "raised", repr(e), "instead of IndexError")
                            # ignore_errors: no exception, but not provable
                            reset()
                            (m, arr) = build(shape, kind, valf_default)
                            ignore_errors(True)
                            try:
                                arr[mkindex(pat, ixv)]
                                check(len(violated()) > 0, what, "ignore_errors: out-of-range read left a provable witness")
                            except Exception as e: check(False, what, "ignore_errors: raised", repr(e))
                            ignore_errors(False)
                            # the system is the one of an in-range access
                            s_bad = structure()
                            reset()
                            (m, arr) = build(shape, kind, valf_default)
                            ok = [0 if pat[d] == "s" else ixv[d] for d in range(depth)]
                            arr[mkindex(pat, ok)]
                            check(structure() == s_bad, what, "ignore_errors: different constraint system than for an in-range index")
                            # disabled lazy branch: no exception, provable, other value
                            for cv in [0, 1]:
                                reset()
                                (m, arr) = build(shape, kind, valf_default)
                                cond = LinCombBool(PrivVal(cv))
                                use = ixv if cv == 0 else ok
                                idx = mkindex(pat, use)
                                try:
                                    if depth == len(shape):
                                        res = if_then_else(cond, lambda: arr[idx], lambda: PrivVal(77))
                                        exp = 77 if cv == 0 else model_get(m, use)
                                        check(plain(res) == exp, what, "guard", cv, "gave", plain(res), "expected", exp)
                                    else:
                                        rt.guarded(cond.lc)(lambda: arr[idx])()
                                    check(not violated(), what, "guard", cv, "violated", violated())
                                    check(rt.guard is None and not ignore_errors(), what, "guard state not restored")
                                except Exception as e: check(False, what, "guard", cv, "raised", repr(e))
                            # enabled branch with a bad index raises
                            reset()
                            (m, arr) = build(shape, kind, valf_default)
                            cond = LinCombBool(PrivVal(1))
                            idx = mkindex(pat, ixv)
                            try:
                                rt.guarded(cond.lc)(lambda: arr[idx])()
                                check(False, what, "enabled branch did not raise")
                            except IndexError: check(True)
                            except Exception as e: check(False, what, "enabled branch raised", repr(e))
                            check(rt.guard is None and not ignore_errors(), what, "guard state not restored after exception")

def errors():
    reset()
    a1 = Array([PrivVal(1), PrivVal(2), PrivVal(3)])
    a2 = wrap([[1, 2], [3, 4], [5, 6]], PrivVal)
    for (arr, idx, exc) in [
            (a1, (PrivVal(1), 0), TypeError),                 # too many indices
            (a1, (PrivVal(1), PrivVal(0)), TypeError),
            (a2, (PrivVal(1), 0, 0), TypeError),
            (a2, (PrivVal(1), PrivVal(0), 0), TypeError),
            (a2, (PrivVal(1), 2), IndexError),                # public index out of range
            (a2, (PrivVal(1), -3), IndexError),
            (a2, (PrivVal(1), "x"), TypeError),
            (a2, (PrivVal(1), 1.0), TypeError),
            (a2, "x", TypeError)]:
        try:
            r = arr[idx]
            check(False, "errors", plain(arr), idx, "returned", r)
        except exc: check(True)
        except Exception as e: check(False, "errors", plain(arr), idx, "raised", repr(e), "instead of", exc.__name__)
    # a one-element tuple is the same as the bare index; boolean public indices are integers
    reset()
    a2 = wrap([[1, 2], [3, 4], [5, 6]], PrivVal)
    check(plain(a2[(PrivVal(2),)]) == [5, 6], "1-tuple")
    check(plain(a2[PrivVal(2), True]) == 6, "bool index")
    check(plain(a2[PrivVal(2)][1]) == 6 and plain(a2[PrivVal(2)][PrivVal(0)]) == 5, "chained")
    check(not violated(), "errors: violated")
    # rows handed out by a read cannot be written through, rows obtained with a trailing public index can
    # (they are fresh copies: the array itself is not affected)
    reset()
    a3 = wrap(model_make((2, 2, 2), lambda pos: sum(pos)), PrivVal)
    before = plain(a3)
    try:
        a3[PrivVal(1), PrivVal(1)][0] = 9
        check(False, "ArrayRow write accepted")
    except TypeError: check(True)
    r = a3[PrivVal(1), 1]
    check(type(r) is Array, "trailing public index gives", type(r).__name__)
    r[0] = 99
    r[PrivVal(1)] = 98
    check(plain(r) == [99, 98] and plain(a3) == before, "copy semantics of a[i,c]")
    check(not violated(), "errors: violated")

# ---------------------------------------------------------------------------------------------------------
# 6: sequences of reads and writes

def sequences(nseq=250):
    for seed in range(nseq):
        rnd = random.Random(1000 + seed)
        shape = rnd.choice([(1,), (2,), (5,), (2, 3), (3, 2), (1, 4), (2, 2, 2), (3, 2, 2), (2, 3, 2)])
        kind = rnd.choice(["const", "secret", "mixed"])
        reset()
        (m, arr) = build(shape, kind, lambda pos: rnd.randrange(-9, 10))
        trace = []
        for step in range(rnd.randrange(2, 7)):
            depth = rnd.randrange(1, len(shape) + 1)
            pat = "".join(rnd.choice("sp") for _ in range(depth))
            ixv = tuple(rnd.randrange(n) for n in shape[:depth])
            idx = mkindex(pat, ixv)
            if len(idx) == 1 and rnd.random() < .5: idx = idx[0]
            if rnd.random() < .5:
                trace.append(("r", pat, ixv))
                try: res = arr[idx]
                except Exception as e:
                    check(False, "seq", seed, shape, kind, trace, "raised", repr(e)); break
                check(plain(res) == model_get(m, ixv), "seq", seed, shape, kind, trace, "read", plain(res), "expected", model_get(m, ixv))
                check(expected_kind(res, pat), "seq", seed, trace, "kind", type(res).__name__)
            else:
                sub = model_make(shape[depth:], lambda pos: rnd.randrange(100, 200))
                secretval = rnd.random() < .5
                val = wrap(model_copy(sub), (lambda x: PrivVal(x)) if secretval else (lambda x: x))
                trace.append(("w", pat, ixv, sub))
                try: arr[idx] = val
                except Exception as e:
                    check(False, "seq", seed, shape, kind, trace, "raised", repr(e)); break
                model_set(m, ixv, sub)
            check(plain(arr) == m, "seq", seed, shape, kind, trace, "array is", plain(arr), "expected", m)
        check(not violated(), "seq", seed, shape, kind, trace, "violated", violated())

def sequences_in_branches(nseq=120):
    """ reads and writes inside a guarded section (what lazy if_then_else branches and pysnark.branching use):
        enabled, disabled with in-range indices, disabled with out-of-range secret indices """
    import copy
    for seed in range(nseq):
        rnd = random.Random(5000 + seed)
        shape = rnd.choice([(3,), (2, 3), (3, 2), (2, 2, 2)])
        reset()
        (m, arr) = build(shape, rnd.choice(["secret", "const", "mixed"]), lambda pos: rnd.randrange(-9, 10))
        cv = rnd.randrange(2)
        ixv = tuple(rnd.randrange(n) for n in shape)
        pat = "".join(rnd.choice("sp") for _x in shape)
        oob = (cv == 0 and "s" in pat and rnd.random() < .5)
        use = tuple((n + rnd.randrange(3)) if c == "s" else v for (n, c, v) in zip(shape, pat, ixv)) if oob else ixv
        cond = LinCombBool(PrivVal(cv))
        what = ("branch", seed, shape, pat, use, "guard", cv)
        def body():
            work = copy.deepcopy(arr)
            r1 = work[mkindex(pat, use)]
            work[mkindex(pat, use)] = PrivVal(500)
            r2 = work[mkindex(pat, use)]
            return [r1 + 0, r2 + 0, leaves(work)]
        try:
            res = if_then_else(cond, body, lambda: [PrivVal(-1), PrivVal(-2), [PrivVal(-3) for _x in leaves(arr)]])
        except Exception as e:
            check(False, what, "raised", repr(e)); continue
        mm = model_copy(m)
        model_set(mm, ixv, 500)
        exp = [model_get(m, ixv), 500, leaves(mm)] if cv else [-1, -2, [-3] * len(leaves(m))]
        check(plain(res) == exp, what, "gave", plain(res), "expected", exp)
        check(plain(arr) == m, what, "original array changed")
        check(not violated(), what, "violated", violated())
        check(rt.guard is None and not ignore_errors(), what, "guard state")

if __name__ == "__main__":
    counts = reads()
    reads_contents_independent()
    circuits()
    out_of_range()
    errors()
    sequences()
    sequences_in_branches()
    for key in [((4, 3), "secret", "sp"), ((4, 3), "secret", "ss"), ((4, 3), "const", "sp"), ((3, 2, 2), "secret", "spp"), ((3, 2, 2), "secret", "ssp"), ((3, 2, 2), "secret", "sps")]:
        print("constraints for read", key, ":", counts[key])
    print(nchecks[0], "checks,", len(failures), "failures")
    sys.exit(1 if failures else 0)
