# Evidence program for change P (ordering comparisons of LinCombBool decided by one product).
#
# Run as:  PYTHONPATH=<tree> /venv/bin/python P.check.py      (from an empty directory; writes no files)
#
# It checks the PROPERTY C05 itself ("traced arithmetic agrees with Python semantics, or raises"),
# not equality with the previous behaviour:
#   1. every ordering comparison (<, <=, >, >=) with a LinCombBool operand, for all operand kinds
#      (secret / public wire / constant LinCombBool, Boolean-valued LinComb, int 0/1, True/False, both
#      operand orders), all values and many bitlength settings, returns a LinCombBool whose value is the
#      Python result as 0/1, does not raise, the returned linear combination evaluates to that value on
#      the recorded witness, and every emitted constraint holds on the recorded witness;
#   2. soundness: the emitted constraints are re-read over small prime fields and ALL assignments of the
#      wires the gadget allocated are enumerated, for ALL assignments of the operand wires: whenever the
#      constraints are satisfiable the output is the Python result; Boolean operands are always satisfiable;
#      a non-Boolean secret LinComb operand is never satisfiable;
#   3. the same inside guards: lazy if_then_else branches (taken and not taken, nested), an explicit
#      nested guard stack (add_guard / restore_guard, as the _if/_while contexts use), and ignore_errors;
#   4. invalid operands raise (ValueError for non-Boolean values, RuntimeError for foreign types);
#   5. the results compose with selection / logical operators as in Python;
#   6. the untouched integer comparisons still agree with Python or raise (boundary sweep);
#   7. everything value-related again on the nobackend backend (in a subprocess).

import os, sys, operator, itertools, subprocess

BACKEND = os.environ.get("P_CHECK_BACKEND", "snarkjs")
os.environ["PYSNARK_BACKEND"] = BACKEND

import pysnark.runtime as rt
rt.autoprove = False                      # never write witness / circuit files

from pysnark.runtime import PrivVal, PubVal, ConstVal, LinComb, ignore_errors, add_guard, restore_guard
from pysnark.boolean import LinCombBool, PrivValBool, PubValBool
from pysnark.fixedpoint import PrivValFxp
from pysnark.branching import if_then_else

assert rt.backend_name == BACKEND, rt.backend_name
RECORD = BACKEND == "snarkjs"
if RECORD:
    import pysnark.snarkjsbackend as be
    P = be.snarkjsp

OPS = {"<": operator.lt, "<=": operator.le, ">": operator.gt, ">=": operator.ge}
ncases = 0
failures = []
skipped_bruteforce = [0]

def fail(msg):
    failures.append(msg)
    if len(failures) < 25:
        print("FAIL:", msg)

# ---------------------------------------------------------------- witness / constraint helpers
def mark():
    return (len(be.constraints), len(be.privvals), len(be.pubvals)) if RECORD else None

def wire(k, assign=None):
    if assign is not None and k in assign: return assign[k]
    if k == 0: return 1
    return be.pubvals[k - 1] if k > 0 else be.privvals[-k - 1]

def ev(lc, mod, assign=None):
    return sum(c * wire(k, assign) for (k, c) in lc.lc.items()) % mod

def constraints_hold(m, what):
    """ every constraint emitted since mark m holds on the recorded witness (mod the real field) """
    if not RECORD: return
    for (v, w, y) in be.constraints[m[0]:]:
        if (ev(v, P) * ev(w, P) - ev(y, P)) % P != 0:
            fail("constraint violated on the recorded witness: " + what)
            return

def lc_matches(res, expect, what):
    """ the wire expression that is returned carries the value that is reported """
    if not RECORD: return
    if ev(res.lc.lc, P) != expect % P:
        fail("returned linear combination evaluates to %d, expected %d: %s" % (ev(res.lc.lc, P), expect, what))

# ---------------------------------------------------------------- operand kinds
def k_priv(v):   return PrivValBool(v)
def k_pub(v):    return PubValBool(v)
def k_const(v):  return LinCombBool(ConstVal(v))
def k_not(v):    return ~PrivValBool(1 - v)                 # derived: 1 - wire
def k_and(v):    return PrivValBool(1) & PrivValBool(v)     # derived: product wire
def k_eq(v):     return PrivVal(7) == (7 if v else 8)       # produced by check_zero (unconstrained ctor)
def k_lc(v):     return PrivVal(v)                          # Boolean-valued LinComb (right operand / left via LinComb ops)
def k_publc(v):  return PubVal(v)
def k_int(v):    return v
def k_pybool(v): return bool(v)

BOOLKINDS = [k_priv, k_pub, k_const, k_not, k_and, k_eq]
OTHERKINDS = BOOLKINDS + [k_lc, k_publc, k_int, k_pybool]

def check_result(res, expect, m, what):
    global ncases
    ncases += 1
    if not isinstance(res, LinCombBool):
        fail("result is %s, not a LinCombBool: %s" % (type(res).__name__, what)); return
    if res.lc.value != expect or type(res.lc.value) is not int:
        fail("value %r, Python says %r: %s" % (res.lc.value, expect, what)); return
    lc_matches(res, expect, what)
    constraints_hold(m, what)

# ---------------------------------------------------------------- 1. all operators x kinds x values x bitlengths
def sweep_plain():
    for bl in [0, 1, 2, 3, 8, 16, 64, 200]:
        rt.bitlength = bl
        for (sym, op) in OPS.items():
            for ka in BOOLKINDS:
                for kb in OTHERKINDS:
                    for (a, b) in itertools.product((0, 1), repeat=2):
                        what = "bitlength=%d %s(%d) %s %s(%d)" % (bl, ka.__name__, a, sym, kb.__name__, b)
                        m = mark()
                        try:
                            # LinCombBool on the left: the changed code, must not raise
                            res = op(ka(a), kb(b))
                        except Exception as e:
                            # the documented domain wants the difference of the operands (-2..1) to fit the bitlength;
                            # outside of it raising ValueError / AssertionError is allowed, anything else is not
                            if bl >= 2 or not isinstance(e, (ValueError, AssertionError)):
                                fail("raised %r on Boolean operands: %s" % (e, what))
                            continue
                        check_result(res, int(op(a, b)), m, what)
                        # reflected: plain int / bool on the left ends up in the changed code as well
                        if kb in (k_int, k_pybool):
                            m = mark()
                            try:
                                res = op(kb(b), ka(a))
                            except Exception as e:
                                if bl >= 2 or not isinstance(e, (ValueError, AssertionError)):
                                    fail("raised %r on Boolean operands (reflected): %s" % (e, what))
                                continue
                            check_result(res, int(op(b, a)), m, "reflected " + what)
                        # LinComb on the left goes through the unchanged integer path: agrees or raises
                        if kb in (k_lc, k_publc):
                            m = mark()
                            try:
                                res = op(kb(b), ka(a))
                            except (ValueError, AssertionError):
                                if bl >= 2: fail("integer path raised inside its domain: " + what)
                                continue
                            check_result(res, int(op(b, a)), m, "LinComb-left " + what)
    rt.bitlength = 16

# ---------------------------------------------------------------- 2. brute-force soundness over small fields
def sweep_soundness():
    if not RECORD: return
    global ncases
    rt.bitlength = 16
    for (sym, op) in OPS.items():
        for (mk_a, mk_b, bvals) in [(PrivValBool, PrivValBool, (0, 1)),      # secret bit  vs secret bit
                                    (PrivValBool, PubValBool,  (0, 1)),      # secret bit  vs public bit
                                    (PrivValBool, PrivVal,     (0, 1, 2, 3)),# secret bit  vs secret LinComb (not yet known to be a bit)
                                    (PrivValBool, None,        (0, 1))]:     # secret bit  vs constant
            for flip in (False, True):
                if flip and mk_b is PrivVal: continue            # LinComb on the left is the unchanged integer path
                for (a0, b0) in itertools.product((0, 1), repeat=2):
                    # trace once with (a0,b0) to get the constraint structure, then quantify over everything
                    a = mk_a(a0)
                    b = mk_b(b0) if mk_b is not None else b0
                    inwires = [next(iter(a.lc.lc.lc))]
                    if mk_b is not None:
                        inwires.append(next(iter((b.lc if isinstance(b, LinCombBool) else b).lc.lc)))
                    m = mark()
                    res = op(b, a) if flip else op(a, b)
                    cons = be.constraints[m[0]:]
                    newwires = [-(i + 1) for i in range(m[1], len(be.privvals))]
                    assert len(be.pubvals) == m[2]
                    if len(newwires) > 3:        # a gadget this large cannot be enumerated (not the case for the product gadget)
                        skipped_bruteforce[0] += 1
                        continue
                    for q in (5, 7, 11):
                        for ins in itertools.product((0, 1), bvals if mk_b is not None else (None,)):
                            av = ins[0]; bv = ins[1] if mk_b is not None else b0
                            base = {inwires[0]: av}
                            if mk_b is not None: base[inwires[1]] = bv
                            sat = 0
                            for news in itertools.product(range(q), repeat=len(newwires)):
                                asg = dict(base); asg.update(zip(newwires, news))
                                if all((ev(v, q, asg) * ev(w, q, asg) - ev(y, q, asg)) % q == 0 for (v, w, y) in cons):
                                    sat += 1
                                    ncases += 1
                                    if bv not in (0, 1):
                                        fail("non-Boolean LinComb operand %d accepted by the constraints (%s, q=%d)" % (bv, sym, q))
                                    else:
                                        expect = int(op(bv, av) if flip else op(av, bv))
                                        if ev(res.lc.lc, q, asg) != expect:
                                            fail("unsound: %s a=%d b=%d flip=%s q=%d admits output %d" % (sym, av, bv, flip, q, ev(res.lc.lc, q, asg)))
                            if bv in (0, 1) and sat != 1:
                                fail("expected exactly one witness, found %d: %s a=%d b=%d q=%d" % (sat, sym, av, bv, q))

# ---------------------------------------------------------------- 3. guards, lazy branches, ignore_errors
def sweep_guards():
    rt.bitlength = 16
    for (sym, op) in OPS.items():
        for kb in OTHERKINDS:
            for (c, d, a, b) in itertools.product((0, 1), repeat=4):
                what = "guarded c=%d d=%d: %d %s %s(%d)" % (c, d, a, sym, kb.__name__, b)
                # (i) lazy branches, one level: the comparison is traced in a taken and in a skipped branch
                m = mark()
                try:
                    cond = PrivValBool(c)
                    x = PrivValBool(a)
                    res = if_then_else(cond, lambda: op(x, kb(b)), lambda: op(kb(b), x) if kb not in (k_lc, k_publc) else op(x, kb(1 - b)))
                    expect = int(op(a, b)) if c else (int(op(b, a)) if kb not in (k_lc, k_publc) else int(op(a, 1 - b)))
                except Exception as e:
                    fail("raised %r: %s" % (e, what)); continue
                global ncases
                ncases += 1
                val = res.value if isinstance(res, LinComb) else res.lc.value
                if val != expect: fail("selected %r, Python says %r: %s" % (val, expect, what))
                constraints_hold(m, what)
                # (ii) nested lazy branches: inner comparison result also steers an inner selection
                m = mark()
                try:
                    cond = PrivValBool(c); cond2 = PrivValBool(d); x = PrivValBool(a)
                    res = if_then_else(cond,
                            lambda: if_then_else(cond2, lambda: op(x, kb(b)) + 10, lambda: if_then_else(op(x, kb(b)), 21, 20)),
                            lambda: if_then_else(cond2, lambda: (~op(x, kb(b))) + 30, 40))
                    r = int(op(a, b))
                    expect = ((r + 10) if d else (21 if r else 20)) if c else ((1 - r + 30) if d else 40)
                except Exception as e:
                    fail("raised %r (nested): %s" % (e, what)); continue
                ncases += 1
                if res.value != expect: fail("nested selection gave %r, Python says %r: %s" % (res.value, expect, what))
                constraints_hold(m, "nested " + what)
                # (iii) explicit guard stack (what _if/_while contexts do), nested, active and inactive
                m = mark()
                try:
                    x = PrivValBool(a)
                    bak = add_guard(PrivVal(c))
                    try:
                        bak2 = add_guard(PrivVal(d))
                        try: r_in = op(x, kb(b))
                        finally: restore_guard(bak2)
                        r_out = op(kb(b), x) if kb not in (k_lc, k_publc) else op(x, kb(b))
                    finally: restore_guard(bak)
                    e_out = int(op(b, a)) if kb not in (k_lc, k_publc) else int(op(a, b))
                except Exception as e:
                    fail("raised %r (guard stack): %s" % (e, what)); continue
                ncases += 1
                # values traced under a guard that is off are discarded by every caller and are not part of the
                # property; under a guard that is on they must be the Python values
                if (c and d and r_in.lc.value != int(op(a, b))) or (c and r_out.lc.value != e_out):
                    fail("under active guards got %r / %r: %s" % (r_in, r_out, what))
                if c and d: lc_matches(r_in, int(op(a, b)), "guard stack " + what)
                if c: lc_matches(r_out, e_out, "guard stack " + what)
                constraints_hold(m, "guard stack " + what)
                # (iv) explicit ignore_errors: still the Python value
                m = mark()
                ignore_errors(True)
                try:
                    res = op(PrivValBool(a), kb(b))
                except Exception as e:
                    fail("raised %r under ignore_errors: %s" % (e, what)); continue
                finally:
                    ignore_errors(False)
                check_result(res, int(op(a, b)), m, "ignore_errors " + what)
    if rt.guard is not None or ignore_errors(): fail("guard state leaked")

# ---------------------------------------------------------------- 4. invalid operands raise
def sweep_invalid():
    global ncases
    rt.bitlength = 16
    for (sym, op) in OPS.items():
        for a in (0, 1):
            for (mk, exc) in [(lambda: 2, ValueError), (lambda: -1, ValueError), (lambda: 7 ** 40, ValueError),
                              (lambda: PrivVal(2), ValueError), (lambda: PrivVal(-1), ValueError), (lambda: PubVal(5), ValueError),
                              (lambda: 0.5, RuntimeError), (lambda: "1", RuntimeError), (lambda: None, RuntimeError),
                              (lambda: PrivValFxp(1.0), RuntimeError), (lambda: [1], RuntimeError)]:
                for guarded in (None, 1, 0):
                    ncases += 1
                    try:
                        if guarded is None:
                            res = op(PrivValBool(a), mk())
                        else:
                            res = if_then_else(PrivValBool(guarded), lambda: op(PrivValBool(a), mk()), lambda: PrivValBool(0))
                    except exc:
                        continue
                    except Exception as e:
                        fail("invalid operand %r: raised %r instead of %s" % (mk(), e, exc.__name__)); continue
                    fail("invalid operand %r accepted by %s (returned %r)" % (mk(), sym, res))
    if rt.guard is not None or ignore_errors(): fail("guard state leaked after exceptions")

# ---------------------------------------------------------------- 5. composition as in Python
def sweep_compose():
    global ncases
    rt.bitlength = 16
    for (s1, o1) in OPS.items():
        for (s2, o2) in OPS.items():
            for (a, b, c, d) in itertools.product((0, 1), repeat=4):
                m = mark()
                A, B, C, D = PrivValBool(a), PrivValBool(b), PubValBool(c), PrivValBool(d)
                what = "(%d %s %d) ? (%d %s %d)" % (a, s1, b, c, s2, d)
                r1, r2 = o1(A, B), o2(C, D)
                p1, p2 = int(o1(a, b)), int(o2(c, d))
                got = [(r1 & r2).lc.value, (r1 | r2).lc.value, (r1 ^ r2).lc.value, (~r1).lc.value,
                       if_then_else(r1, PrivVal(123), PrivVal(-456)).value, (r1 + r2 * 3).value,
                       o1(r1, r2).lc.value, o2(r2, 1).lc.value, (r1 == r2).lc.value, (r1 != p2).lc.value]
                exp = [p1 & p2, p1 | p2, p1 ^ p2, 1 - p1, 123 if p1 else -456, p1 + p2 * 3,
                       int(o1(p1, p2)), int(o2(p2, 1)), int(p1 == p2), int(p1 != p2)]
                ncases += 1
                if got != exp: fail("composition %s: %r, Python says %r" % (what, got, exp))
                constraints_hold(m, "composition " + what)

# ---------------------------------------------------------------- 6. integer comparisons unchanged: agree or raise
def sweep_integers():
    global ncases
    allops = dict(OPS); allops["=="] = operator.eq; allops["!="] = operator.ne
    for bl in (2, 4, 8, 16):
        rt.bitlength = bl
        half = 1 << (bl - 1)
        vals = sorted(set([0, 1, -1, 2, half - 1, half, -half, -half - 1, (1 << bl) - 1, 1 << bl, -(1 << bl), (1 << bl) + 1]))
        for (sym, op) in allops.items():
            for (x, y) in itertools.product(vals, repeat=2):
                for (mx, my) in [(PrivVal, PrivVal), (PrivVal, int), (int, PrivVal), (PubVal, PrivVal)]:
                    m = mark()
                    indomain = abs(x - y).bit_length() <= bl and abs(x - y - 1).bit_length() <= bl and abs(y - x - 1).bit_length() <= bl
                    try:
                        res = op(mx(x), my(y))
                    except (ValueError, AssertionError):
                        if indomain: fail("integer %d %s %d raised inside the domain (bitlength %d)" % (x, sym, y, bl))
                        continue
                    ncases += 1
                    if res.lc.value != int(op(x, y)):
                        fail("integer %d %s %d gave %r (bitlength %d)" % (x, sym, y, res.lc.value, bl))
                    constraints_hold(m, "integer %d %s %d" % (x, sym, y))
    rt.bitlength = 16

# ---------------------------------------------------------------- informational: what changed observably
def report_costs():
    rt.bitlength = 16
    def cost(fn):
        before = rt.num_constraints; fn(); return rt.num_constraints - before
    a, b, l = PrivValBool(1), PrivValBool(0), PrivVal(1)
    print("[%s] constraints for a<b: bit,bit=%d  bit,LinComb=%d  bit,int=%d   (general sign check would be bitlength+2=%d)"
          % (BACKEND, cost(lambda: a < b), cost(lambda: a < l), cost(lambda: a < 1), rt.bitlength + 2))

sweep_plain()
sweep_soundness()
sweep_guards()
sweep_invalid()
sweep_compose()
sweep_integers()
report_costs()
if skipped_bruteforce[0]: print("[%s] note: %d gadgets too large for exhaustive enumeration were skipped" % (BACKEND, skipped_bruteforce[0]))
print("[%s] %d checks, %d failures" % (BACKEND, ncases, len(failures)))
if failures:
    sys.exit(1)

# ---------------------------------------------------------------- 7. the same on nobackend
if BACKEND == "snarkjs":
    env = dict(os.environ); env["P_CHECK_BACKEND"] = "nobackend"
    rc = subprocess.run([sys.executable, os.path.abspath(__file__)], env=env).returncode
    if rc != 0:
        print("nobackend run failed"); sys.exit(1)
print("OK" if BACKEND == "snarkjs" else "")
sys.exit(0)
