#!/usr/bin/env python
"""
Evidence program for change P (Poseidon parameter sets carry the order of their field;
poseidon_hash.select_constants checks it against the modulus of the active backend).

Run as   PYTHONPATH=<tree> /venv/bin/python P.check.py   from an empty directory.

The parent process starts one child per way of selecting a backend (environment variable,
pre-import, both in conflict, auto-detection, a zkinterface module with a foreign modulus).
Each child checks property C20 itself, against a plain integer Poseidon written here and
against constants the child knows independently of the code under test:

  * the parameter set in use is the one registered for the backend that is in effect
    (never the toy set of 'nobackend' unless nobackend itself is in effect, never a set of
    another field); where no set exists, importing poseidon_hash raises NotImplementedError
  * permute() and poseidon_hash() return the field elements of the plain implementation on
    states / messages of 0..12 elements (0..3 blocks and the block after), with values all
    over the field, negative and above the modulus, LinComb / LinCombBool / LinCombFxp /
    public inputs, inside lazy if_then_else branches and with ignore_errors
  * the published test vectors are reproduced
  * the number of constraints depends on the length only
  * every emitted constraint holds on the recorded witness, and the returned wires evaluate
    to the reference digest on that witness (backends that record their constraints)
  * messages of different length never share a padded form / digest
  * the subset-sum hash (unchanged by P) still equals its plain reference

Exit status 0 when all of that held in every configuration.
"""
import os
import subprocess
import sys

BN254 = 21888242871839275222246405745257275088548364400416034343698204186575808495617
BLS381 = 52435875175126190479447740508185965837690552500527637822603658699938581184513
ED25519 = 7237005577332262213973186563042994240857116359379907606001950938285454250989

FIELD = {"zkinterface": BN254, "zkifbellman": BLS381, "zkifbulletproofs": ED25519, "nobackend": 10000}
MODULE = {"zkinterface": "pysnark.zkinterface.backend", "zkifbellman": "pysnark.zkinterface.backendbellman",
          "zkifbulletproofs": "pysnark.zkinterface.backendbulletproofs", "nobackend": "pysnark.nobackend",
          "snarkjs": "pysnark.snarkjsbackend"}

VECTORS = {
    "zkinterface": [0x299c867db6c1fdd79dcefa40e4510b9837e60ebb1ce0663dbaa525df65250465,
                    0x1148aaef609aa338b27dafd89bb98862d8bb2b429aceac47d86206154ffe053d,
                    0x24febb87fed7462e23f6665ff9a0111f4044c38ee1672c1ac6b0637d34f24907,
                    0x0eb08f6d809668a981c186beaf6110060707059576406b248e5d9cf6e78b3d3e,
                    0x07748bc6877c9b82c8b98666ee9d0626ec7f5be4205f79ee8528ef1c4a376fc7],
    "zkifbellman": [0x2a918b9c9f9bd7bb509331c81e297b5707f6fc7393dcee1b13901a0b22202e18,
                    0x65ebf8671739eeb11fb217f2d5c5bf4a0c3f210e3f3cd3b08b5db75675d797f7,
                    0x2cc176fc26bc70737a696a9dfd1b636ce360ee76926d182390cdb7459cf585ce,
                    0x4dc4e29d283afd2a491fe6aef122b9a968e74eff05341f3cc23fda1781dcb566,
                    0x03ff622da276830b9451b88b85e6184fd6ae15c8ab3ee25a5667be8592cce3b1],
}
# no usable vector for zkifbulletproofs: the one in test/test_poseidon_hash.py repeats the bellman digits, which are
# not even elements of the bulletproofs field

# name -> (pre-imported backend, PYSNARK_BACKEND, backend expected to be in effect or None = unsupported)
CONFIGS = {
    "env-nobackend":        (None, "nobackend", "nobackend"),
    "env-zkinterface":      (None, "zkinterface", "zkinterface"),
    "env-zkifbellman":      (None, "zkifbellman", "zkifbellman"),
    "env-zkifbulletproofs": (None, "zkifbulletproofs", "zkifbulletproofs"),
    "env-snarkjs":          (None, "snarkjs", None),
    "pre-nobackend":        ("nobackend", None, "nobackend"),
    "pre-zkinterface":      ("zkinterface", None, "zkinterface"),
    "pre-zkifbellman":      ("zkifbellman", None, "zkifbellman"),
    "pre-zkifbulletproofs": ("zkifbulletproofs", None, "zkifbulletproofs"),
    "pre-snarkjs":          ("snarkjs", None, None),
    "pre-zkifbellman+env-nobackend":   ("zkifbellman", "nobackend", "zkifbellman"),
    "pre-zkifbulletproofs+env-zkinterface": ("zkifbulletproofs", "zkinterface", "zkifbulletproofs"),
    "pre-nobackend+env-zkinterface":   ("nobackend", "zkinterface", "nobackend"),
    "pre-zkinterface+env-nobackend":   ("zkinterface", "nobackend", "zkinterface"),
    "pre-zkinterface+foreign-modulus": ("zkinterface", None, None),
    "auto":                            (None, None, "auto"),
}


class Failure(Exception):
    pass


def check(cond, msg):
    if not cond:
        raise Failure(msg)


def stub_flatbuffers():
    """flatbuffers is only needed to write files; the zkinterface modules import it at the top"""
    import types
    fb = types.ModuleType("flatbuffers")
    fb.__path__ = []
    fc = types.ModuleType("flatbuffers.compat")
    fc.import_numpy = lambda: None
    fb.compat = fc
    sys.modules["flatbuffers"] = fb
    sys.modules["flatbuffers.compat"] = fc


# ---------------------------------------------------------------- plain integer reference

def ref_permute(state, C, p):
    R_F, R_P, t, a = C["R_F"], C["R_P"], C["t"], C["a"]
    rc, M = C["round_constants"], C["matrix"]
    state = [x % p for x in state]
    assert len(state) == t
    for r in range(R_F + R_P):
        state = [(x + c) % p for x, c in zip(state, rc[r])]
        if r < R_F // 2 or r >= R_F // 2 + R_P:
            state = [pow(x, a, p) for x in state]
        else:
            state[0] = pow(state[0], a, p)
        state = [sum(M[i][k] * state[k] for k in range(t)) % p for i in range(t)]
    return state


def ref_pad(msg, rate):
    out = list(msg) + [1]
    while len(out) % rate:
        out.append(0)
    return out


def ref_hash(msg, C, p):
    t = C["t"]
    padded = ref_pad(msg, t - 1)
    state = [0] * t
    for i in range(0, len(padded), t - 1):
        state = [state[0]] + [(s + m) % p for s, m in zip(state[1:], padded[i:i + t - 1])]
        state = ref_permute(state, C, p)
    return state[1:]


def ref_ggh(bits, p):
    import hashlib
    import struct
    total = 0
    for i, b in enumerate(bits):
        it = 0
        while True:
            h = hashlib.sha512(struct.pack("<QQ", i, it)).digest()
            v = int.from_bytes(h, "little") % (1 << p.bit_length())
            if v < p:
                break
            it += 1
        total = (total + b * v) % p
    return total


# ---------------------------------------------------------------- child

def child(name):
    pre, env, expect = CONFIGS[name]
    stub_flatbuffers()
    if "PYSNARK_BACKEND" in os.environ:
        del os.environ["PYSNARK_BACKEND"]
    if env is not None:
        os.environ["PYSNARK_BACKEND"] = env
    import importlib
    if pre is not None:
        premod = importlib.import_module(MODULE[pre])
        if name.endswith("foreign-modulus"):
            premod.set_modulus(2 ** 127 - 1)

    import pysnark.runtime as runtime
    runtime.autoprove = False
    from pysnark.poseidon_constants import poseidon_constants

    if expect == "auto":
        # whatever auto-detection found on this machine is the backend in effect
        expect = runtime.backend_name if runtime.backend_name in FIELD else None
        print("   auto-detection selected", runtime.backend_name)

    if expect is None:
        try:
            import pysnark.poseidon_hash
        except NotImplementedError as e:
            print("   unsupported, as it must be:", str(e)[:100])
            return
        raise Failure("backend %s (modulus %d) has no Poseidon parameters of its own, yet poseidon_hash imported with "
                      "R_F=%d R_P=%d" % (runtime.backend_name, runtime.backend.get_modulus(),
                                         pysnark.poseidon_hash.R_F, pysnark.poseidon_hash.R_P))

    p = FIELD[expect]
    check(runtime.backend.get_modulus() == p, "backend in effect should compute modulo the field of " + expect)
    C = poseidon_constants[expect]

    import pysnark.poseidon_hash as ph
    from pysnark.poseidon_hash import permute, poseidon_hash
    from pysnark.runtime import PrivVal, PubVal, LinComb
    from pysnark.boolean import PrivValBool
    from pysnark.fixedpoint import PrivValFxp
    from pysnark.branching import if_then_else

    # --- the parameter set in use
    for key in ("R_F", "R_P", "t", "a", "round_constants", "matrix"):
        check(getattr(ph, key) == C[key],
              "parameter %s in use is not the one registered for %s (runtime reports %s)" % (key, expect, runtime.backend_name))
    if expect != "nobackend":
        check((ph.R_F, ph.R_P, ph.t, ph.a) == (8, 60, 5, 5), "toy parameters in use with a real backend")
        check(all(0 <= c < p for row in ph.round_constants + ph.matrix for c in row), "constants outside the field in effect")
        check(len({c for row in ph.matrix for c in row}) > 1, "degenerate matrix with a real backend")
    t, a = C["t"], C["a"]
    per_perm = (C["R_F"] * t + C["R_P"]) * (a - 1)

    records = hasattr(runtime.backend, "constraints")

    def evaluate(lc):
        total = 0
        for var, coef in lc.lc.items():
            if var == 0:
                val = 1
            elif var > 0:
                val = runtime.backend.pubvals[var - 1]
            else:
                val = runtime.backend.privvals[-var - 1]
            total += coef * val
        return total % p

    checked = [0]

    def constraints_hold(since):
        if not records:
            return
        for (v, w, y) in runtime.backend.constraints[since:]:
            check(evaluate(v) * evaluate(w) % p == evaluate(y), "an emitted constraint does not hold on the recorded witness")
            checked[0] += 1

    def mark():
        return len(runtime.backend.constraints) if records else 0

    def wires_equal(outs, ref, what):
        check([o.value % p for o in outs] == ref, what + ": values differ from the plain implementation")
        check(all(0 <= o.value < p for o in outs), what + ": values are not canonical field elements")
        if records:
            check([evaluate(o.lc) for o in outs] == ref, what + ": returned wires do not carry the reference digest")

    # --- published vectors
    vec = VECTORS.get(expect)
    if vec is not None:
        before, m = runtime.num_constraints, mark()
        out = permute([PrivVal(i) for i in range(5)])
        wires_equal(out, vec, "published test vector")
        check(ref_permute(list(range(5)), C, p) == vec, "reference implementation does not reproduce the published vector")
        check(runtime.num_constraints - before == per_perm, "permutation should cost %d constraints" % per_perm)
        constraints_hold(m)

    import random
    rnd = random.Random(20)
    special = [0, 1, p - 1, p, p + 1, -1, -p, -p - 7, 2 * p + 3, p // 2, -(p // 2), 2 ** 300 + 11, -2 ** 300, 2 ** 16, -2 ** 15]

    def values(n, k):
        """k = 0: corner values mixed with field elements; k = 1: anywhere in [-p, 2p); k = 2: canonical field elements"""
        if k == 0:
            return [special[(i * 7 + n) % len(special)] if (i + n) % 2 == 0 else rnd.randrange(p) for i in range(n)]
        if k == 1:
            return [rnd.randrange(-p, 2 * p) for i in range(n)]
        return [rnd.randrange(p) for i in range(n)]

    # --- permutation on states across the field
    for k in range(3):
        state = values(t, k)
        before, m = runtime.num_constraints, mark()
        out = permute([PrivVal(x) for x in state])
        wires_equal(out, ref_permute(state, C, p), "permute(%s)" % state)
        check(runtime.num_constraints - before == per_perm, "constraint count of permute depends on the values")
        constraints_hold(m)

    # --- sponge: lengths 0 .. 3 blocks and one more, several kinds of input
    digests = {}
    for n in range(0, 3 * (t - 1) + 2):
        blocks = n // (t - 1) + 1
        for k in range(2 if n % 3 else 3):
            msg = values(n, k)
            before, m = runtime.num_constraints, mark()
            out = poseidon_hash([PrivVal(x) if (i + k) % 3 else PubVal(x) for i, x in enumerate(msg)])
            ref = ref_hash(msg, C, p)
            wires_equal(out, ref, "poseidon_hash of %d elements" % n)
            check(runtime.num_constraints - before == blocks * per_perm,
                  "poseidon_hash of %d elements should cost %d constraints whatever the values" % (n, blocks * per_perm))
            constraints_hold(m)
            digests[tuple(x % p for x in msg)] = tuple(ref)

    # booleans and fixed point numbers hash as the integers their wires carry
    bits = [1, 0, 1, 1, 0, 1]
    m = mark()
    wires_equal(poseidon_hash([PrivValBool(b) for b in bits]), ref_hash(bits, C, p), "poseidon_hash of booleans")
    fx = [PrivValFxp(1.5), PrivValFxp(-2.25), PrivValFxp(0.0)]
    wires_equal(poseidon_hash(fx + [PrivVal(7)]), ref_hash([f.lc.value for f in fx] + [7], C, p), "poseidon_hash of fixed point numbers")
    constraints_hold(m)
    for bad in ([PrivVal(1), 2], (PrivVal(1),), "ab", [None]):
        try:
            poseidon_hash(bad)
        except RuntimeError:
            pass
        else:
            raise Failure("poseidon_hash accepted " + repr(bad))

    # --- padding: messages of different length never share a padded form, nor a digest
    rate = t - 1
    base = [5, 6, 7]
    family = [base, base + [1], base + [1, 0], base + [0], base + [1, 0, 0, 0], base + [1, 0, 0, 0, 0], [], [0], [1], [0, 0, 0, 0],
              [1, 0, 0, 0], [5, 6, 7, 1, 0, 0, 0, 1], [5, 6, 7, 1, 0, 0, 0, 1, 0, 0, 0]]
    padded = [tuple(ref_pad(msg, rate)) for msg in family]
    check(len(set(padded)) == len(family), "two messages of the family share a padded form in the reference")
    seen = {}
    for msg in family:
        m = mark()
        out = poseidon_hash([PrivVal(x) for x in msg])
        wires_equal(out, ref_hash(msg, C, p), "poseidon_hash(%s)" % msg)
        constraints_hold(m)
        dig = tuple(o.value for o in out)
        if expect != "nobackend":   # the toy set (all-ones matrix, modulus 10000) is not collision resistant at all
            check(dig not in seen, "messages %s and %s of different length share a digest" % (seen.get(dig), msg))
        seen[dig] = msg

    # --- lazy branches: the branch that is not taken runs on whatever values it is given
    for cond in (0, 1):
        for ign in (False, True):
            xs, ys = values(3, 1), values(6, 1)
            m = mark()
            old = runtime.ignore_errors()
            runtime.ignore_errors(ign)
            try:
                c = PrivValBool(cond)
                px, py = [PrivVal(x) for x in xs], [PrivVal(y) for y in ys]
                out = if_then_else(c, lambda: poseidon_hash(px), lambda: poseidon_hash(py))
                nested = if_then_else(c, lambda: if_then_else(~c, lambda: poseidon_hash(px), lambda: poseidon_hash(py)), lambda: poseidon_hash(px))
            finally:
                runtime.ignore_errors(old)
            ref = ref_hash(xs if cond else ys, C, p)
            check([o.value % p for o in out] == ref, "if_then_else over two digests: wrong value")
            refn = ref_hash(ys if cond else xs, C, p)
            check([o.value % p for o in nested] == refn, "nested if_then_else over digests: wrong value")
            if records:
                check([evaluate(o.lc) for o in out] == ref and [evaluate(o.lc) for o in nested] == refn, "if_then_else over digests: wrong wire")
            constraints_hold(m)
            check(runtime.guard is None and LinComb.ONE is LinComb.ONE_SAFE, "guard left behind")

    # --- subset-sum hash (not touched by P; same property)
    import pysnark.ggh_hash as ggh
    check(ggh.PRIME == p, "ggh_hash works in another field than the backend")
    for n in (0, 1, 7, 40):
        bits = [rnd.randrange(2) for _ in range(n)]
        check(ggh.ggh_hash(bits) == ref_ggh(bits, p), "plain ggh_hash differs from the reference")
        if n:
            m, before = mark(), runtime.num_constraints
            tr = ggh.ggh_hash([PrivVal(b) for b in bits])
            check(tr.value == ref_ggh(bits, p) and (not records or evaluate(tr.lc) == tr.value), "traced ggh_hash differs from the reference")
            check(runtime.num_constraints == before, "ggh_hash is linear")
            constraints_hold(m)

    print("   parameters of %s (runtime reports %s); %d digests compared, %d constraints evaluated"
          % (expect, runtime.backend_name, len(digests) + len(family), checked[0]))


# ---------------------------------------------------------------- parent

def main():
    if len(sys.argv) == 3 and sys.argv[1] == "--child":
        try:
            child(sys.argv[2])
        except Failure as e:
            print("   PROPERTY VIOLATED:", e)
            sys.stdout.flush()
            os._exit(1)
        sys.stdout.flush()
        os._exit(0)     # skip pysnark's exit hook: nothing is to be written into the directory

    env = dict(os.environ)
    env.pop("PYSNARK_BACKEND", None)
    procs = [(name, subprocess.Popen([sys.executable, os.path.abspath(__file__), "--child", name], env=env,
                                     stdout=subprocess.PIPE, stderr=subprocess.STDOUT, text=True)) for name in CONFIGS]
    failed = []
    for name, proc in procs:
        out = proc.communicate()[0]
        lines = [l for l in out.splitlines() if not l.startswith("*** Error loading backend")]
        print("%s: %s" % (name, "ok" if proc.returncode == 0 else "FAILED"))
        print("\n".join(lines[-12:] if proc.returncode else lines))
        if proc.returncode != 0:
            failed.append(name)
    if failed:
        print("C20 violated in:", ", ".join(failed))
        sys.exit(1)
    print("C20 held in all %d configurations" % len(CONFIGS))


if __name__ == "__main__":
    main()
