#!/usr/bin/env python
"""Evidence program for property C13 (backend linear combinations: faithful immutable
algebra over a prime field) on the snarkjs backend (and, for comparison, the
zkinterface backend's LinearCombination through a flatbuffers stub).

It checks the PROPERTY, not equality with older behaviour:
  1. random expression trees over variables, constants and integer scalars
     (0, +-1, negatives, values above the prime, multiples of the prime, bools,
     __index__ objects) evaluate, on several random assignments, to the field
     expression of the operands' evaluations; operands are never altered;
  2. operands constructed by hand with unreduced / negative / zero coefficients
     are handled equally well;
  3. get_modulus() is the (prime) BN254 scalar field order, fieldinverse() is the
     inverse modulo it for non-zero, negative and unreduced arguments;
  4. end-to-end: a runtime program is traced, prove() is run, circuit.r1cs and
     witness.wtns are decoded byte by byte and every constraint is evaluated on
     the written witness; section lengths must match the bytes actually written.
Exits 0 iff everything held.
"""
import os, sys, random, tempfile, shutil, types, copy

os.environ["PYSNARK_BACKEND"] = "snarkjs"
_workdir = tempfile.mkdtemp(prefix="c13check")
_olddir = os.getcwd()
os.chdir(_workdir)
import atexit
atexit.register(lambda: (os.chdir(_olddir), shutil.rmtree(_workdir, ignore_errors=True)))

import pysnark.snarkjsbackend as sj

BN254_R = 21888242871839275222246405745257275088548364400416034343698204186575808495617
rnd = random.Random(20261004)
failures = []
nchecks = 0

def check(cond, msg):
    global nchecks
    nchecks += 1
    if not cond:
        failures.append(msg)
        if len(failures) < 20: print("FAIL:", msg)

# ---------------------------------------------------------------- helpers
def miller_rabin(n, rounds=40):
    if n < 2: return False
    for q in (2, 3, 5, 7, 11, 13, 17, 19, 23, 29, 31, 37):
        if n % q == 0: return n == q
    d, r = n - 1, 0
    while d % 2 == 0: d //= 2; r += 1
    for _ in range(rounds):
        a = rnd.randrange(2, n - 1)
        x = pow(a, d, n)
        if x in (1, n - 1): continue
        for _ in range(r - 1):
            x = x * x % n
            if x == n - 1: break
        else:
            return False
    return True

class Idx:
    """an integer-like scalar that is not an int (as numpy / gmpy2 integers are)"""
    def __init__(self, v): self.v = v
    def __index__(self): return self.v

def evaluate(lcobj, assignment, p):
    """value of a backend LinearCombination on an assignment {key: value} (key 0 -> 1)"""
    tot = 0
    for k, c in lcobj.lc.items():
        tot += c * (1 if k == 0 else assignment[k])
    return tot % p

def snapshot(lcobj):
    return (id(lcobj.lc), list(lcobj.lc.items()))

def interesting_scalar(p):
    c = rnd.randrange(14)
    if c == 0: return 0
    if c == 1: return 1
    if c == 2: return -1
    if c == 3: return p
    if c == 4: return -p
    if c == 5: return p * rnd.randrange(2, 1000)
    if c == 6: return p + rnd.randrange(1, 10)
    if c == 7: return -rnd.randrange(1, 1 << 300)
    if c == 8: return rnd.randrange(1, 1 << 300)
    if c == 9: return p - 1
    if c == 10: return rnd.choice([True, False])
    if c == 11: return pow(rnd.randrange(1, p), -1, p)
    return rnd.randrange(-50, 50)

# ------------------------------------------------- 1+2. expression trees
def algebra_checks(LC, p, label, nvars=6, ntrees=1500, allow_index=True):
    keys = [0] + list(range(1, nvars // 2 + 1)) + [-i for i in range(1, nvars - nvars // 2 + 1)]

    def leaf():
        c = rnd.randrange(8)
        if c == 0: return LC({})                                  # zero()
        if c == 1: return LC({0: 1})                              # one()
        if c <= 4: return LC({rnd.choice(keys[1:]): 1})           # a variable
        # hand-made operand: unreduced, negative and explicit zero coefficients
        d = {}
        for k in rnd.sample(keys, rnd.randrange(0, len(keys) + 1)):
            d[k] = rnd.choice([0, p, -p, 2 * p, 1, -1, rnd.randrange(-3 * p, 3 * p), rnd.randrange(-5, 5)])
        return LC(d)

    def build(depth):
        """returns (lc object, python function assignment -> expected field value)"""
        if depth == 0 or rnd.random() < 0.15:
            l = leaf()
            frozen = list(l.lc.items())
            return l, (lambda asg, frozen=frozen: sum(c * (1 if k == 0 else asg[k]) for k, c in frozen) % p)
        op = rnd.choice(["add", "sub", "neg", "mul", "mul", "same"])
        if op in ("add", "sub"):
            (a, fa), (b, fb) = build(depth - 1), build(depth - 1)
            sa, sb = snapshot(a), snapshot(b)
            ca, cb = copy.deepcopy(a.lc), copy.deepcopy(b.lc)
            r = a + b if op == "add" else a - b
            check(snapshot(a) == sa and snapshot(b) == sb and a.lc == ca and b.lc == cb,
                  "%s: %s altered an operand" % (label, op))
            check(r is not a and r is not b and r.lc is not a.lc and r.lc is not b.lc, "%s: %s result aliases operand" % (label, op))
            if op == "add": return r, (lambda asg: (fa(asg) + fb(asg)) % p)
            return r, (lambda asg: (fa(asg) - fb(asg)) % p)
        if op == "same":   # x+x, x-x : the same object on both sides
            a, fa = build(depth - 1)
            sa = snapshot(a)
            if rnd.random() < 0.5:
                r = a - a; f = (lambda asg: 0)
            else:
                r = a + a; f = (lambda asg: 2 * fa(asg) % p)
            check(snapshot(a) == sa, "%s: self-combination altered operand" % label)
            return r, f
        if op == "neg":
            a, fa = build(depth - 1)
            sa = snapshot(a)
            r = -a
            check(snapshot(a) == sa, "%s: neg altered operand" % label)
            check(r is not a and r.lc is not a.lc, "%s: neg aliases operand" % label)
            return r, (lambda asg: (-fa(asg)) % p)
        a, fa = build(depth - 1)
        s = interesting_scalar(p)
        sa = snapshot(a)
        r = a * (Idx(int(s)) if (allow_index and rnd.random() < 0.1) else s)
        check(snapshot(a) == sa, "%s: mul altered operand" % label)
        check(r is not a and r.lc is not a.lc, "%s: mul aliases operand" % label)
        return r, (lambda asg, s=int(s): fa(asg) * s % p)

    for t in range(ntrees):
        r, f = build(rnd.randrange(0, 7))
        check(type(r) is LC, "%s: result type" % label)
        for _ in range(4):
            asg = {k: rnd.choice([0, 1, p - 1, rnd.randrange(p)]) for k in keys[1:]}
            check(evaluate(r, asg, p) == f(asg), "%s: tree %d evaluates wrongly" % (label, t))

algebra_checks(sj.LinearCombination, sj.get_modulus(), "snarkjs")

# canonical-form promise of the changed snarkjs class (documented in its docstring):
# results carry only coefficients in 1..p-1.  (Extra evidence, implied by nothing in C13,
# but it is what makes the r1cs writer's length arithmetic easy to audit.)
def canonical(l): return all(isinstance(c, int) and 0 < c < sj.snarkjsp for c in l.lc.values())
x = sj.LinearCombination({-1: 1}); y = sj.LinearCombination({2: 1}); o = sj.one()
for r in [x - x, x * 0, x * sj.snarkjsp, (x + y) * -sj.snarkjsp, x + (-x), (x + y) - y - x, -(x * sj.snarkjsp),
          x * 5 - x * (5 + sj.snarkjsp), sj.zero() + sj.zero(), -sj.zero(), sj.zero() * 7]:
    check(r.lc == {}, "expected the empty combination, got %r" % (r.lc,))
for r in [x - y, -x, x * -3, x * (sj.snarkjsp + 4), (x + o * 3) * sj.fieldinverse(3), x + y + o, -(x - y * 2)]:
    check(canonical(r) and len(r.lc) > 0, "non-canonical result %r" % (r.lc,))
check(x.lc == {-1: 1} and y.lc == {2: 1} and o.lc == {0: 1}, "leaf operands changed")

# invalid scalars are refused with TypeError (never silently mis-evaluated)
for bad in [1.5, 2.0, "3", None, [1], x]:
    try:
        x * bad
        check(False, "scaling by %r accepted" % (bad,))
    except TypeError:
        check(True, "")
for bad in [1, None, "a"]:
    for fn in (lambda: x + bad, lambda: x - bad):
        try:
            fn(); check(False, "combining with %r accepted" % (bad,))
        except TypeError:
            check(True, "")
check(x.lc == {-1: 1}, "operand changed by refused operation")

# ------------------------------------------------- zkinterface (flatbuffers stub): unchanged code, same property
try:
    fb = types.ModuleType("flatbuffers"); fbc = types.ModuleType("flatbuffers.compat")
    fbc.import_numpy = lambda: None
    fb.compat = fbc
    for nm in ("number_types", "packer", "encode", "table", "util", "builder"):
        m = types.ModuleType("flatbuffers." + nm); setattr(fb, nm, m); sys.modules["flatbuffers." + nm] = m
    sys.modules.setdefault("flatbuffers", fb); sys.modules.setdefault("flatbuffers.compat", fbc)
    import pysnark.zkinterface.backend as zk
    algebra_checks(zk.LinearCombination, zk.get_modulus(), "zkinterface", ntrees=300, allow_index=False)
    zk_mods = [zk]
except Exception as e:     # the stub is best effort only
    print("note: zkinterface backend not checked (%s: %s)" % (type(e).__name__, e))
    zk_mods = []

# ------------------------------------------------- 3. modulus and inverse
for mod in [sj] + zk_mods:
    p = mod.get_modulus()
    check(p == BN254_R, "%s: modulus is not the BN254 scalar field order" % mod.__name__)
    check(miller_rabin(p), "%s: modulus not prime" % mod.__name__)
    args = [1, -1, 2, -2, p - 1, p + 1, 1 - p, 2 * p + 3, -5 * p - 7, 1 << 300, -(1 << 300)]
    args += [rnd.randrange(1, p) for _ in range(200)]
    args += [rnd.randrange(-(1 << 600), 1 << 600) for _ in range(200)]
    for a in args:
        if a % p == 0: continue
        inv = mod.fieldinverse(a)
        check(isinstance(inv, int) and 0 < inv < p and inv * a % p == 1, "%s: fieldinverse(%d) wrong" % (mod.__name__, a))
    # x * fieldinverse(k) * k == x as linear combinations, for k above the prime and negative
    for k in [3, -3, p + 3, -(p + 3), 1 << 300]:
        v = mod.LinearCombination({-1: 1, 0: 7})
        w = v * mod.fieldinverse(k) * k
        for val in [0, 1, 12345, p - 1]:
            check(evaluate(w, {-1: val}, p) == evaluate(v, {-1: val}, p), "%s: scale/unscale by %d" % (mod.__name__, k))

# ------------------------------------------------- 4. end to end through the runtime and the file writers
import pysnark.runtime as rt
from pysnark.runtime import PrivVal, PubVal, LinComb
from pysnark.branching import if_then_else
check(rt.backend is sj, "runtime did not pick the snarkjs backend")
rt.autoprove = False
P = sj.snarkjsp

a = PrivVal(5); b = PrivVal(-7); c = PubVal(11); d = PrivVal(0)
exprs = []
exprs.append(a - a)                          # empty combination
exprs.append((a + b) * P)                    # scaled by the modulus: empty
exprs.append(a * (P + 2) - a * 2)            # empty after reduction
exprs.append(a * b + c)                      # a product wire
exprs.append((a - a) * b)                    # constraint with an empty factor
exprs.append((a * 6) / 3)                    # scaling by a field inverse
exprs.append(-(a * b) + a * b)               # cancels
exprs.append((a + 3) * (b - 3) - c * (P - 1))
exprs.append(if_then_else(a == 5, lambda: b * b, lambda: c * c))
exprs.append(if_then_else(d != 0, lambda: a / d, 3) if False else d * d)
exprs.append((a < c) * (b - b + c))
exprs.append((a & 3) + (a ^ c) + (c >> 1) + (a ** 3) + (c % 4) + (c // 2))
(a - a).assert_zero()
(a * (P + 2) - a * 2 - a * P).assert_zero()
(a * b + 35).assert_zero()
(a - 4).assert_nonzero()
for e in exprs:
    if isinstance(e, LinComb): e.val()

# every LinComb's backend combination evaluates to its value on the recorded witness
def wit_assignment():
    asg = {}
    for i, v in enumerate(sj.pubvals): asg[i + 1] = v % P
    for i, v in enumerate(sj.privvals): asg[-(i + 1)] = v % P
    return asg
asg = wit_assignment()
for e in exprs + [a, b, c, d]:
    if isinstance(e, LinComb):
        check(evaluate(e.lc, asg, P) == e.value % P, "LinComb value %d disagrees with its linear combination" % e.value)
for (v, w, yy) in sj.constraints:
    check(evaluate(v, asg, P) * evaluate(w, asg, P) % P == evaluate(yy, asg, P), "in-memory constraint violated")

sj.prove()

class Reader:
    def __init__(self, data): self.d = data; self.i = 0
    def u(self, n):
        v = int.from_bytes(self.d[self.i:self.i + n], "little"); check(self.i + n <= len(self.d), "file truncated"); self.i += n; return v
    def raw(self, n):
        v = self.d[self.i:self.i + n]; self.i += n; return v

w = Reader(open("witness.wtns", "rb").read())
check(w.raw(4) == b"wtns" and w.u(4) == 2 and w.u(4) == 2, "wtns header")
check(w.u(4) == 1 and w.u(8) == 40 and w.u(4) == 32 and w.u(32) == BN254_R, "wtns section 1")
nw = w.u(4)
check(w.u(4) == 2 and w.u(8) == 32 * nw, "wtns section 2 header")
witness = [w.u(32) for _ in range(nw)]
check(w.i == len(w.d), "wtns trailing bytes")
check(witness[0] == 1 and all(0 <= v < P for v in witness), "wtns values")
check(nw == 1 + len(sj.pubvals) + len(sj.privvals), "wtns count")

r = Reader(open("circuit.r1cs", "rb").read())
check(r.raw(4) == b"r1cs" and r.u(4) == 1 and r.u(4) == 3, "r1cs header")
check(r.u(4) == 1 and r.u(8) == 64 and r.u(4) == 32 and r.u(32) == BN254_R, "r1cs section 1")
nvars, nout, npub, nprv, nlabels, ncons = r.u(4), r.u(4), r.u(4), r.u(4), r.u(8), r.u(4)
check(nvars == nw and nout == len(sj.pubvals) and ncons == len(sj.constraints), "r1cs counts")
check(r.u(4) == 2, "r1cs section 2 tag")
sec2len = r.u(8); start = r.i
nterms = 0; nempty = 0
for ci in range(ncons):
    vals = []
    for part in range(3):
        n = r.u(4); tot = 0; seen = set()
        if n == 0: nempty += 1
        for _ in range(n):
            k = r.u(4); cf = r.u(32); nterms += 1
            check(0 <= k < nvars and k not in seen, "bad / repeated wire id in constraint %d" % ci); seen.add(k)
            check(0 < cf < P, "constraint %d carries a zero or unreduced coefficient" % ci)
            tot += cf * witness[k]
        vals.append(tot % P)
    check(vals[0] * vals[1] % P == vals[2], "written constraint %d not satisfied by written witness" % ci)
check(r.i - start == sec2len, "r1cs section 2 length field (%d) != bytes written (%d)" % (sec2len, r.i - start))
check(r.u(4) == 3 and r.u(8) == 8 * nvars, "r1cs section 3 header")
r.raw(8 * nvars)
check(r.i == len(r.d), "r1cs trailing bytes")
check(ncons > 20 and nempty > 0, "end-to-end program too small to be meaningful (%d constraints, %d empty sides)" % (ncons, nempty))

print("%d checks, %d failures; %d constraints / %d terms decoded from circuit.r1cs" % (nchecks, len(failures), ncons, nterms))
sys.exit(1 if failures else 0)
