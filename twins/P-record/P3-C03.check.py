# Evidence program for P (LinCombBool.assert_lt/le/gt/ge in one constraint, err= forwarded).
#
#   PYTHONPATH=<tree> /venv/bin/python P.check.py
#
# Installs a recording backend (in place of pysnark.nobackend), then for every comparison assertion of
# LinCombBool, every pair of Boolean operand values, many operand kinds (witness / public / raw LinComb
# that gets declared / int / bool / negation / conjunction / result of a comparison) and every mode
# (plain, ignore_errors, guard 0/1, nested guards, operands declared inside the guard, several bitlengths)
#   1. compares acceptance of the call with plain Python semantics,
#   2. evaluates EVERY emitted constraint on the recorded witness (mod the field prime),
#   3. over a small prime field, searches ALL assignments of the auxiliary wires (and, separately, of the
#      operand wires themselves) and checks that the constraint system is satisfiable exactly when the
#      asserted relation holds (or the guard is off).
# Exit 0 iff the property held in all cases.

import sys, types, operator, itertools

# ---------------------------------------------------------------- recording backend
BIG = 21888242871839275222246405745257275088548364400416034343698204186575808495617
rec = types.ModuleType("pysnark.nobackend")
rec.P = BIG
rec.vals = [1]          # wire 0 is the constant one
rec.pub = set()
rec.cons = []

class LC:
    def __init__(self, d): self.d = {k: v for k, v in d.items() if v != 0}
    def __add__(self, o):
        d = dict(self.d)
        for k, v in o.d.items(): d[k] = d.get(k, 0) + v
        return LC(d)
    def __neg__(self): return LC({k: -v for k, v in self.d.items()})
    def __sub__(self, o): return self + (-o)
    def __mul__(self, c): return LC({k: v * c for k, v in self.d.items()})

def _new(val, pub):
    rec.vals.append(val)
    if pub: rec.pub.add(len(rec.vals) - 1)
    return LC({len(rec.vals) - 1: 1})

rec.LC = LC
rec.privval = lambda val: _new(val, False)
rec.pubval = lambda val: _new(val, True)
rec.zero = lambda: LC({})
rec.one = lambda: LC({0: 1})
rec.fieldinverse = lambda val: pow(val % rec.P, -1, rec.P)
rec.get_modulus = lambda: rec.P
rec.add_constraint = lambda v, w, y: rec.cons.append((v.d, w.d, y.d))
rec.prove = lambda: None
sys.modules["pysnark.nobackend"] = rec

import pysnark.runtime as rt
from pysnark.runtime import LinComb, PrivVal, PubVal, guarded, ignore_errors
from pysnark.boolean import LinCombBool, PrivValBool, PubValBool
assert rt.backend is rec, "recording backend not picked up"
rt.autoprove = False

HAVE_P = hasattr(LinCombBool, "_assert_order")

def reset(p=BIG, bitlength=16):
    rec.P = p
    del rec.vals[1:]; rec.pub.clear(); del rec.cons[:]
    rt.guard = None
    rt._ignore_errors = False
    LinComb.ONE = LinComb.ONE_SAFE
    rt.bitlength = bitlength

def ev(d, vals, p): return sum(c * vals[k] for k, c in d.items()) % p
def holds(con, vals, p):
    a, b, c = con
    return (ev(a, vals, p) * ev(b, vals, p) - ev(c, vals, p)) % p == 0
def all_hold(): return all(holds(c, rec.vals, rec.P) for c in rec.cons)

# ---------------------------------------------------------------- operands
RELS = {"lt": operator.lt, "le": operator.le, "gt": operator.gt, "ge": operator.ge,
        "eq": operator.eq, "ne": operator.ne}

SELF_KINDS = {
    "priv": lambda v: PrivValBool(v),
    "pub":  lambda v: PubValBool(v),
    "pybool": lambda v: PrivValBool(bool(v)),
    "not":  lambda v: ~PrivValBool(1 - v),
    "and":  lambda v: PrivValBool(v) & PrivValBool(1),
    "or0":  lambda v: PrivValBool(v) | 0,
    "cmp":  lambda v: (PrivVal(3) == (3 if v else 4)),
}
OTHER_KINDS = dict(SELF_KINDS)
OTHER_KINDS.update({
    "lc":   lambda v: PrivVal(v),           # declared Boolean by _ensurebool
    "publc": lambda v: PubVal(v),
    "int":  lambda v: v,
    "bool": lambda v: bool(v),
})

failures = []
ncases = 0
def fail(msg):
    failures.append(msg)
    if len(failures) <= 25: print("VIOLATION:", msg)

def call(rel, a, b, err=None):
    fn = getattr(a, "assert_" + rel)
    return fn(b) if err is None else fn(b, err=err)

# ---------------------------------------------------------------- 1+2: witness evaluation in all modes
def run_case(rel, ka, kb, va, vb, mode, bl):
    """ mode: ("plain",) ("ignore",) ("guard", gvals, ignore, inside) """
    global ncases
    ncases += 1
    tag = "%s %s(%d) %s(%d) %s bitlength=%d" % (rel, ka, va, kb, vb, mode, bl)
    truth = RELS[rel](va, vb)
    reset(bitlength=bl)
    exc = None
    on = True
    try:
        if mode[0] == "plain":
            call(rel, SELF_KINDS[ka](va), OTHER_KINDS[kb](vb))
        elif mode[0] == "ignore":
            ignore_errors(True)
            call(rel, SELF_KINDS[ka](va), OTHER_KINDS[kb](vb))
        else:
            _, gvals, ign, inside = mode
            on = all(gvals)
            gs = [PrivValBool(g) for g in gvals]
            if ign: ignore_errors(True)
            if not inside:
                a = SELF_KINDS[ka](va); b = OTHER_KINDS[kb](vb)
            def body():
                if inside: call(rel, SELF_KINDS[ka](va), OTHER_KINDS[kb](vb))
                else: call(rel, a, b)
            fn = body
            for g in reversed(gs): fn = guarded(g.lc)(fn)
            fn()
    except AssertionError as e:
        exc = e
    except Exception as e:
        fail(tag + ": unexpected " + repr(e)); return

    strict_completeness = HAVE_P or bl >= 1
    suppressed = mode[0] == "ignore" or (mode[0] == "guard" and (mode[2] or not on))
    if exc is not None:
        if suppressed: fail(tag + ": raised although errors are suppressed: " + repr(exc))
        elif truth and strict_completeness: fail(tag + ": true relation rejected: " + repr(exc))
        return
    # accepted
    if not suppressed and not truth:
        fail(tag + ": false relation accepted at run time")
    sat = all_hold()
    want = truth or not on
    if sat and not want:
        fail(tag + ": relation is false and the guard is on, but all %d constraints hold on the witness" % len(rec.cons))
    if not sat and want and strict_completeness:
        fail(tag + ": relation true / guard off, but a constraint fails on the witness")

BASIC = [("plain",), ("ignore",)]
NESTED = []
for ign in (False, True):
    for inside in (False, True):
        for gv in [(0,), (1,)]: BASIC.append(("guard", gv, ign, inside))
        for gv in [(1, 1), (1, 0), (0, 1), (0, 0)]: NESTED.append(("guard", gv, ign, inside))

for bl in (0, 1, 16):
    for rel in RELS:
        for ka in SELF_KINDS:
            for kb in OTHER_KINDS:
                modes = list(BASIC)
                # nested guards are combined with the bitwise & of LinComb, which needs bitlength >= 1
                if bl >= 1 and ka in ("priv", "not") and kb in ("priv", "lc", "int", "cmp"): modes += NESTED
                for va in (0, 1):
                    for vb in (0, 1):
                        for mode in modes:
                            run_case(rel, ka, kb, va, vb, mode, bl)

# err= is honoured (only with P; the unchanged tree drops it) and failures stay AssertionErrors
for rel in RELS:
    for va in (0, 1):
        for vb in (0, 1):
            reset()
            try:
                call(rel, PrivValBool(va), PrivValBool(vb), err="boom")
                if not RELS[rel](va, vb): fail("%s(%d,%d) with err= accepted" % (rel, va, vb))
            except AssertionError as e:
                if RELS[rel](va, vb): fail("%s(%d,%d) with err= rejected" % (rel, va, vb))
                if HAVE_P and str(e) != "boom": fail("%s(%d,%d): err= not used: %r" % (rel, va, vb, e))

# non-Boolean operands are still refused before anything is compared
for rel in RELS:
    for bad in (2, -1):
        for mk in (lambda v: v, lambda v: PrivVal(v)):
            reset(); ignore_errors(True)
            try:
                call(rel, PrivValBool(1), mk(bad))
                fail("%s accepted non-Boolean operand %d" % (rel, bad))
            except ValueError: pass

# ---------------------------------------------------------------- 3: exhaustive search over a small field
SMALL = 13

def solve(cons, nwires, fixed, p, limit=None):
    """ all assignments (list) of wires 1..nwires-1 extending `fixed` satisfying cons; backtracking """
    last = []
    for con in cons:
        ws = [k for d in con for k in d if k != 0]
        last.append(max(ws) if ws else 0)
    by_last = {}
    for i, l in enumerate(last): by_last.setdefault(l, []).append(cons[i])
    vals = [1] + [0] * (nwires - 1)
    if not all(holds(c, vals, p) for c in by_last.get(0, [])): return []
    out = []
    def rec_(w):
        if limit is not None and len(out) >= limit: return
        if w == nwires:
            out.append(list(vals)); return
        cand = [fixed[w]] if w in fixed else range(p)
        for x in cand:
            vals[w] = x
            if all(holds(c, vals, p) for c in by_last.get(w, [])):
                rec_(w + 1)
    rec_(1)
    return out

def build(rel, ka, kb, va, vb, guardval, bl):
    """ builds the system with errors suppressed; returns (cons, nwires, wire of a, wire of b or None, wire of guard or None) """
    reset(p=SMALL, bitlength=bl)
    mk = {"priv": PrivValBool, "pub": PubValBool, "lc": PrivVal, "int": lambda v: v}
    gw = None
    if guardval is not None:
        g = PrivValBool(guardval); gw = len(rec.vals) - 1
    ignore_errors(True)
    a = mk[ka](va); aw = len(rec.vals) - 1
    b = mk[kb](vb); bw = (len(rec.vals) - 1) if kb != "int" else None
    if guardval is None: call(rel, a, b)
    else: guarded(g.lc)(lambda: call(rel, a, b))()
    return list(rec.cons), len(rec.vals), aw, bw, gw

nsearch = 0
for bl in (1, 2):
    for rel in RELS:
        for ka in ("priv", "pub"):
            for kb in ("priv", "lc", "int"):
                for guardval in (None, 0, 1):
                    # (a) operand (and guard) wires fixed to every Boolean combination, all other wires free
                    for va in (0, 1):
                        for vb in (0, 1):
                            cons, n, aw, bw, gw = build(rel, ka, kb, va, vb, guardval, bl)
                            fixed = {aw: va}
                            if bw is not None: fixed[bw] = vb
                            if gw is not None: fixed[gw] = guardval
                            sols = solve(cons, n, fixed, SMALL, limit=1)
                            nsearch += 1
                            want = RELS[rel](va, vb) or guardval == 0
                            tag = "small field p=%d bitlength=%d %s %s(%d) %s(%d) guard=%s" % (SMALL, bl, rel, ka, va, kb, vb, guardval)
                            if sols and not want:
                                fail(tag + ": relation false but an auxiliary witness satisfies all constraints: " + str(sols[0]))
                            if not sols and want:
                                fail(tag + ": relation true / guard off but no auxiliary witness satisfies the constraints")
                    # (b) operand wires free over the whole field (guard fixed on / absent): every solution has
                    #     Boolean operands in the asserted relation
                    if guardval == 0: continue
                    cons, n, aw, bw, gw = build(rel, ka, kb, 0, 1, guardval, bl)
                    fixed = {} if gw is None else {gw: 1}
                    for sol in solve(cons, n, fixed, SMALL):
                        nsearch += 1
                        x = sol[aw]; y = sol[bw] if bw is not None else 1
                        if x not in (0, 1) or y not in (0, 1) or not RELS[rel](x, y):
                            fail("small field %s %s %s guard=%s bitlength=%d: satisfying assignment with operands %d,%d" % (rel, ka, kb, guardval, bl, x, y))

print("P present:" if HAVE_P else "unchanged code:", ncases, "witness cases,", nsearch, "exhaustive searches,", len(failures), "violations")
sys.exit(1 if failures else 0)
