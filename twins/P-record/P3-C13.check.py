# Evidence program for property C13 (backend linear combinations: faithful immutable algebra over a
# prime field; modulus is the prime scalar-field order; fieldinverse is the inverse mod that prime).
#
#   PYTHONPATH=<tree> /venv/bin/python P.check.py        (from an empty directory; exit 0 = property held)
#
# Part A  random expression DAGs over variables / zero / one / integer scalars in every proof-producing
#         backend that can be loaded here (snarkjs; zkinterface with a stubbed flatbuffers in its three field
#         configurations bn128 / bellman (BLS12-381) / bulletproofs (ristretto); qaptools with a stub
#         qapgen on PATH): every node is evaluated on several assignments and compared with the field
#         expression of its operands; every node's terms are snapshotted at creation and re-compared
#         after each operation and at the end (operands are never altered).
# Part B  modulus is the expected prime curve order, fieldinverse(a)*a == 1 mod p for small, negative,
#         unreduced, power-of-two and random arguments.
# Part C  (snarkjs, through pysnark.runtime) circuits with long/short sums on either side of + and -,
#         guards, if_then_else, ignore_errors, comparisons, divisions, fixed point: every emitted
#         constraint is evaluated on the recorded witness, every LinComb's lc is evaluated and compared
#         with its value, and circuit.r1cs / witness.wtns are decoded and checked again.

import os, random, stat, sys, tempfile, types, shutil

os.environ["PYSNARK_BACKEND"] = "snarkjs"
rnd = random.Random(20261004)
failures = []

def fail(msg):
    failures.append(msg)
    print("VIOLATION:", msg)
    if len(failures) > 20:
        print("too many violations, stopping"); sys.exit(1)

# ---------------------------------------------------------------- helpers
def is_prime(n):
    if n < 2: return False
    small = [2, 3, 5, 7, 11, 13, 17, 19, 23, 29, 31, 37, 41, 43, 47, 53, 59, 61, 67, 71]
    for q in small:
        if n % q == 0: return n == q
    d, r = n-1, 0
    while d % 2 == 0: d //= 2; r += 1
    for a in small + [rnd.randrange(2, n-1) for _ in range(30)]:
        x = pow(a, d, n)
        if x in (1, n-1): continue
        for _ in range(r-1):
            x = x*x % n
            if x == n-1: break
        else:
            return False
    return True

BN128 = 21888242871839275222246405745257275088548364400416034343698204186575808495617
BLS12_381 = 0x73eda753299d7d483339d80809a1d80553bda402fffe5bfeffffffff00000001
RISTRETTO = 2**252 + 27742317777372353535851937790883648493

def scalars(p):
    fixed = [0, 1, -1, 2, -2, 3, -7, 255, p, p-1, p+1, -p, -p-3, 2*p+5, 2**300, -(2**300), 2**16, -(2**31)]
    return fixed + [rnd.randrange(-2*p, 2*p) for _ in range(6)] + [rnd.randrange(-50, 50) for _ in range(6)]

# ---------------------------------------------------------------- Part A
class DictView:
    """ snarkjs / zkinterface: LinearCombination with .lc = {wire: coeff}; wire 0 is the constant one """
    def __init__(self, B): self.B = B
    def terms(self, o): return tuple(o.lc.items())
    def pairs(self, o): return [(k, c) for (k, c) in o.lc.items()]
    def varkey(self, o): (k,) = o.lc.keys(); return k
    def onekey(self): return 0

class SigView:
    """ qaptools: Sig with .sig = [(coeff, wirename)] """
    def __init__(self, B): self.B = B
    def terms(self, o): return tuple(o.sig)
    def pairs(self, o): return [(v, c) for (c, v) in o.sig]
    def varkey(self, o): ((c, v),) = o.sig; return v
    def onekey(self): return self.B.vc_ctx + "/onex"

def check_algebra(name, B, V, rounds, nodes_per_round):
    p = B.get_modulus()
    for rd in range(rounds):
        nodes = []      # (object, op, args)
        snaps = []
        def add(obj, op, *args):
            nodes.append((obj, op, args)); snaps.append(V.terms(obj))
        varkeys = []
        nvars = rnd.randrange(1, 9)
        for i in range(nvars):
            val = rnd.choice([0, 1, -1, p-1, p+5, -3*p+2, rnd.randrange(p), rnd.randrange(-2**64, 2**64)])
            o = B.pubval(val) if rnd.random() < 0.4 else B.privval(val)
            varkeys.append(V.varkey(o))
            add(o, "var", V.varkey(o))
        add(B.zero(), "zero"); add(B.one(), "one")
        sc = scalars(p)
        # a long accumulator so that both "longer left" and "longer right" occur often
        acc = len(nodes)-2
        for i in range(nvars):
            k = rnd.choice(sc)
            add(nodes[i][0]*k, "mul", i, k)
            add(nodes[acc][0]+nodes[-1][0], "add", acc, len(nodes)-1)
            acc = len(nodes)-1
        while len(nodes) < nodes_per_round:
            op = rnd.choice(["add", "add", "sub", "sub", "neg", "mul"])
            i = rnd.randrange(len(nodes)); j = rnd.choice([i, rnd.randrange(len(nodes)), rnd.randrange(len(nodes))])
            before = [V.terms(nodes[i][0]), V.terms(nodes[j][0])]
            if op == "add":   add(nodes[i][0]+nodes[j][0], "add", i, j)
            elif op == "sub": add(nodes[i][0]-nodes[j][0], "sub", i, j)
            elif op == "neg": add(-nodes[i][0], "neg", i)
            else:
                k = rnd.choice(sc); add(nodes[i][0]*k, "mul", i, k)
            if [V.terms(nodes[i][0]), V.terms(nodes[j][0])] != before:
                fail("%s: operation %s altered one of its operands" % (name, op))
        # assignments: the constant wire is 1, everything else arbitrary
        onek = V.onekey()
        assigns = [{k: 0 for k in varkeys}, {k: p-1 for k in varkeys}] + \
                  [{k: rnd.randrange(p) for k in varkeys} for _ in range(4)]
        for asg in assigns:
            asg = dict(asg); asg[onek] = 1
            expect = []
            for (obj, op, args) in nodes:
                if op == "var":    e = asg[args[0]]
                elif op == "zero": e = 0
                elif op == "one":  e = 1
                elif op == "add":  e = expect[args[0]] + expect[args[1]]
                elif op == "sub":  e = expect[args[0]] - expect[args[1]]
                elif op == "neg":  e = -expect[args[0]]
                elif op == "mul":  e = expect[args[0]] * args[1]
                e %= p
                expect.append(e)
                got = sum(c*asg[k] for (k, c) in V.pairs(obj)) % p
                if got != e:
                    fail("%s: node %d (%s %s) evaluates to %d, field expression gives %d" % (name, len(expect)-1, op, args, got, e))
                    break
        for ix, (obj, op, args) in enumerate(nodes):
            if V.terms(obj) != snaps[ix]:
                fail("%s: node %d (%s) was altered after its creation" % (name, ix, op)); break

# ---------------------------------------------------------------- Part B
def check_field(name, B, expected):
    p = B.get_modulus()
    if p != expected: fail("%s: modulus %d is not the scalar field order %d" % (name, p, expected))
    if not is_prime(p): fail("%s: modulus %d is not prime" % (name, p))
    args = list(range(1, 70)) + [-a for a in range(1, 70)] + [2**k for k in range(0, 310, 3)] + [-2**k for k in range(1, 300, 7)]
    args += [p-1, p+1, 2*p+3, -p+1, -p-1, 5*p-2, p**2+1, (p+1)//2, (p-1)//2]
    args += [rnd.randrange(1, p) for _ in range(40)] + [rnd.randrange(-p**2, p**2) for _ in range(40)]
    for a in args:
        if a % p == 0: continue
        try:
            inv = B.fieldinverse(a)
        except Exception as e:
            fail("%s: fieldinverse(%d) raised %r" % (name, a, e)); continue
        if not isinstance(inv, int) or (inv*a) % p != 1:
            fail("%s: fieldinverse(%d) = %r is not the inverse modulo %d" % (name, a, inv, p))

# ---------------------------------------------------------------- load backends
import pysnark.runtime as runtime
runtime.autoprove = False
assert runtime.backend_name == "snarkjs", runtime.backend_name
SJ = runtime.backend

fb = types.ModuleType("flatbuffers"); fbc = types.ModuleType("flatbuffers.compat")
fbc.import_numpy = lambda: None; fb.compat = fbc
sys.modules.setdefault("flatbuffers", fb); sys.modules.setdefault("flatbuffers.compat", fbc)
import pysnark.zkinterface.backend as ZK

check_field("snarkjs", SJ, BN128)
check_algebra("snarkjs", SJ, DictView(SJ), 25, 160)
check_field("zkinterface", ZK, BN128)
check_algebra("zkinterface", ZK, DictView(ZK), 10, 160)
import pysnark.zkinterface.backendbellman as ZKB
check_field("zkifbellman", ZKB, BLS12_381)
check_algebra("zkifbellman", ZKB, DictView(ZKB), 10, 160)
import pysnark.zkinterface.backendbulletproofs as ZKP
check_field("zkifbulletproofs", ZKP, RISTRETTO)
check_algebra("zkifbulletproofs", ZKP, DictView(ZKP), 10, 160)

# qaptools refuses to load without its executables: give it a stub qapgen (never run here)
stubdir = tempfile.mkdtemp(prefix="r7-C13-")
try:
    exe = os.path.join(stubdir, "qapgen")
    with open(exe, "w") as f: f.write("#!/bin/sh\nexit 1\n")
    os.chmod(exe, os.stat(exe).st_mode | stat.S_IXUSR)
    os.environ["PATH"] = stubdir + os.pathsep + os.environ.get("PATH", "")
    os.environ.pop("QAPTOOLS_BIN", None)
    import pysnark.qaptools.backend as QT
    check_field("qaptools", QT, BN128)
    QT.one()    # opens the main function context
    check_algebra("qaptools", QT, SigView(QT), 8, 120)
finally:
    shutil.rmtree(stubdir, ignore_errors=True)

# ---------------------------------------------------------------- Part C
from pysnark.runtime import PrivVal, PubVal, ConstVal, LinComb
from pysnark.boolean import PrivValBool, LinCombBool
from pysnark.fixedpoint import PrivValFxp, LinCombFxp
from pysnark.branching import if_then_else
P = SJ.get_modulus()

def wire(k): return 1 if k == 0 else (SJ.pubvals[k-1] if k > 0 else SJ.privvals[-k-1])
def ev(lc): return sum(c*wire(k) for (k, c) in lc.lc.items()) % P
def check_lc(what, x):
    if isinstance(x, (LinCombFxp,)): x = x.lc
    if isinstance(x, (LinCombBool,)): x = x.lc
    if ev(x.lc) != x.value % P:
        fail("runtime: %s: linear combination evaluates to %d but the value is %d" % (what, ev(x.lc), x.value))

def check_constraints(what, frm=0):
    for ix, (a, b, c) in enumerate(SJ.constraints[frm:]):
        if (ev(a)*ev(b) - ev(c)) % P != 0:
            fail("runtime: %s: constraint #%d is not satisfied by the recorded witness" % (what, frm+ix))

for trial in range(30):
    c0 = len(SJ.constraints)
    n = rnd.randrange(2, 12)
    vals = [rnd.choice([0, 1, -1, 7, -32768, 32767, rnd.randrange(-1000, 1000)]) for _ in range(n)]
    xs = [PrivVal(v) if rnd.random() < 0.7 else PubVal(v) for v in vals]
    long_ = xs[0]*3
    for x in xs[1:]: long_ = long_ + x*rnd.choice([1, -1, 5, P-2, 2**40])
    short = xs[rnd.randrange(n)] - 4
    for what, z in [("long+short", long_+short), ("short+long", short+long_), ("long-short", long_-short),
                    ("short-long", short-long_), ("int-long", 11-long_), ("long-int", long_-11), ("long-long", long_-long_),
                    ("neg", -(short-long_)), ("mixed", (long_-short)*(-3) + (short-long_)*P - (xs[0]-xs[-1]))]:
        check_lc(what, z)
    a, b = xs[0], xs[-1]
    prod = (long_-short)*(short-long_); check_lc("product", prod)
    check_lc("product expr", prod - a*b + (a-b)*(b-a))
    for what, f in [("lt", lambda: a < b), ("ge", lambda: a >= b), ("eq", lambda: a == b), ("ne", lambda: a != b),
                    ("and", lambda: (a < b) & (b != 3)), ("xor", lambda: a ^ b), ("or", lambda: a | 5),
                    ("shift", lambda: (a << 2) >> 1), ("floordiv", lambda: a // 7), ("mod", lambda: a % 7),
                    ("divlc", lambda: (a*b) / b if b.value != 0 else a), ("div4", lambda: (a*4) / 4), ("div-8", lambda: (a*-8) / -8),
                    ("pow", lambda: (a-b)**3), ("abs", lambda: abs(a-b)), ("ifelse", lambda: if_then_else(a <= b, a-long_, long_-b))]:
        try:
            r = f()
        except (ValueError, AssertionError, OverflowError, ZeroDivisionError):
            continue    # out-of-range operands are legitimately rejected; nothing was promised
        check_lc(what, r)
    # guarded / branching code, both taken and untaken branches
    gb = PrivValBool(rnd.randrange(2))
    def taken():
        t = (a*b) - long_
        t.assert_eq(a.value*b.value - long_.value)
        return short - (long_-short)*2
    def other():
        u = (long_ - short) - (a*b)
        (u + 0).assert_eq(u)
        return u
    check_lc("lazy if_then_else", if_then_else(gb, taken, other))
    g = PrivVal(rnd.randrange(2))
    @runtime.guarded(g)
    def guarded_block():
        s = (short - long_) * (long_ - short)
        s.assert_eq(-(short.value-long_.value)**2)
        (long_ - short).assert_ne(long_.value - short.value + 1)
        return s
    check_lc("guarded block result", guarded_block())
    # ignore_errors: wrong claims are recorded but every unsafe constraint still has to hold
    old = runtime.ignore_errors(); runtime.ignore_errors(True)
    try:
        q = (a*2+1) / 2; check_lc("inexact division under ignore_errors", q)
        q2 = (long_ - short) / 3; check_lc("inexact division of a long combination", q2)
    finally:
        runtime.ignore_errors(old)
    f1 = PrivValFxp(rnd.uniform(-20, 20)); f2 = PrivValFxp(rnd.uniform(-20, 20))
    for what, r in [("fxp sub", f1-f2), ("fxp mul", f1*f2), ("fxp mix", (f2-f1)*f1 - f2 + a)]:
        check_lc(what, r)
    check_constraints("trial %d" % trial, c0)

# decode what prove() writes and check it once more, independently of the in-memory objects
SJ.prove()
def rd(buf, pos, n): return int.from_bytes(buf[pos:pos+n], "little"), pos+n
w = open("witness.wtns", "rb").read()
assert w[:4] == b"wtns"
pos = 12
_, pos = rd(w, pos, 4); _, pos = rd(w, pos, 8); flen, pos = rd(w, pos, 4); wp, pos = rd(w, pos, flen); nw, pos = rd(w, pos, 4)
_, pos = rd(w, pos, 4); seclen, pos = rd(w, pos, 8)
wit = []
for i in range(nw):
    v, pos = rd(w, pos, flen); wit.append(v)
if wp != P or seclen != nw*flen or pos != len(w) or wit[0] != 1: fail("witness.wtns: malformed header / length")
c = open("circuit.r1cs", "rb").read()
assert c[:4] == b"r1cs"
pos = 12
_, pos = rd(c, pos, 4); _, pos = rd(c, pos, 8); flen, pos = rd(c, pos, 4); cp, pos = rd(c, pos, flen)
nvars, pos = rd(c, pos, 4); nout, pos = rd(c, pos, 4); pos += 8; pos += 8; ncons, pos = rd(c, pos, 4)
_, pos = rd(c, pos, 4); seclen, pos = rd(c, pos, 8); start = pos
if cp != P or nvars != nw or ncons != len(SJ.constraints): fail("circuit.r1cs: header does not match the circuit")
for ci in range(ncons):
    sides = []
    for s in range(3):
        nt, pos = rd(c, pos, 4); acc = 0
        for t in range(nt):
            wid, pos = rd(c, pos, 4); coef, pos = rd(c, pos, flen)
            if coef >= P: fail("circuit.r1cs: unreduced coefficient")
            acc += coef*wit[wid]
        sides.append(acc % P)
    if (sides[0]*sides[1] - sides[2]) % P != 0:
        fail("circuit.r1cs: constraint #%d is not satisfied by witness.wtns" % ci); break
if pos-start != seclen: fail("circuit.r1cs: constraint section length %d, header says %d" % (pos-start, seclen))

if failures:
    print("%d violation(s) of C13" % len(failures)); sys.exit(1)
print("C13 held: %d constraints checked in memory and on disk" % len(SJ.constraints))
sys.exit(0)
