# Evidence program for change P (dyadic float constants in LinCombFxp.__mul__ / __truediv__).
#
# Run as:  PYTHONPATH=<tree> /venv/bin/python P.check.py     (from an empty directory; nothing is written)
#
# It checks property C14 itself, not equality with the old behaviour:
#   * products      repr(x*f), repr(f*x)  == floor(A*B / 2^r)
#   * quotients     repr(x/f)             == floor(A*2^r / B),   repr(f/x) == floor(B*2^r / A)
#   * exact ops     + - neg, * int, // and % (Python floor semantics on the represented numbers), comparisons
#   * read back     val() == repr / 2^r
#   * or the operation raises (counted; a minimum number of non-raising cases is required)
# where A is the integer representation of the fixed-point operand and B = int(f * 2^r) the representation
# of the float constant, for many resolutions, bitlengths, operand sources (private / public fixed-point
# values, scaled integer secrets, booleans, linear combinations, results of earlier gadgets), operand
# orders, negative and fractional values, zero, dyadic and non-dyadic constants.
# On top of the values it checks, on the snarkjs backend (which records wires and constraints), that
#   * every constraint emitted by the operation holds on the recorded witness (mod p),
#   * the linear combination carried by the result evaluates to the claimed value on the witness,
#   * when an operation emitted no constraint and no wire, its result is the right *linear function* of the
#     operand under arbitrary wire assignments (so the constraint-free paths are sound, not just complete),
#   * the same under a true guard, a false guard (lazy if_then_else branches) and ignore_errors.

import os, sys, random, warnings, itertools
os.environ["PYSNARK_BACKEND"] = "snarkjs"
warnings.simplefilter("ignore")

from fractions import Fraction

import pysnark.runtime as rt
rt.autoprove = False
import pysnark.snarkjsbackend as be
import pysnark.fixedpoint as fx
from pysnark.runtime import PrivVal, PubVal, LinComb
from pysnark.fixedpoint import LinCombFxp, PrivValFxp, PubValFxp
from pysnark.boolean import PrivValBool, LinCombBool
from pysnark.branching import if_then_else

import pysnark
print("checking", os.path.dirname(pysnark.__file__))
P = be.get_modulus()
rnd = random.Random(14)

failures = []
stats = {}

def bump(k, n=1): stats[k] = stats.get(k, 0) + n

def fail(*msg):
    failures.append(" ".join(str(m) for m in msg))
    if len(failures) <= 25: print("FAIL:", *msg)

# ---------------------------------------------------------------- witness / constraint evaluation

def wire(k, assignment=None):
    if k == 0: return 1
    if assignment is not None: return assignment(k)
    return be.pubvals[k-1] if k > 0 else be.privvals[-k-1]

def ev(lc, assignment=None):
    return sum(c * wire(k, assignment) for (k, c) in lc.lc.items()) % P

def mark(): return (len(be.constraints), len(be.privvals), len(be.pubvals))

def constraints_hold(m, what):
    ok = True
    for (v, w, y) in be.constraints[m[0]:]:
        if (ev(v) * ev(w) - ev(y)) % P != 0:
            fail("constraint violated on the witness:", what); ok = False; break
    return ok

def wire_consistent(res, what):
    if ev(res.lc.lc) != res.lc.value % P:
        fail("result wire does not carry the claimed value:", what, res.lc.value)

def random_assignment():
    cache = {}
    def a(k):
        if k not in cache: cache[k] = rnd.randrange(P)
        return cache[k]
    return a

def scaled(f, r):
    """ representation of the float constant f at resolution r (add_scaling truncates inexact ones) """
    return int(f * (1 << r))

# ---------------------------------------------------------------- operand factories

def operands(A, r):
    """ different LinCombFxp objects whose representation is the integer A """
    yield "priv", PrivValFxp(A, False)
    yield "pub", PubValFxp(A, False)
    yield "lin", LinCombFxp(PrivVal(A - 3) + PubVal(5) - 2, False)
    if A % 2 == 0:
        yield "dbl", PrivValFxp(A // 2, False) * 2
    if A % (1 << r) == 0:
        yield "intsecret", LinCombFxp(PrivVal(A >> r))          # scaled integer secret
    if A in (0, 1 << r):
        yield "bool", LinCombFxp._ensurefxp(PrivValBool(A >> r))
    if A % (1 << r) == 0 and abs(A) < (1 << (rt.bitlength - 2)):
        try:
            g = PrivValFxp(A, False) * PrivValFxp(1 << r, False)          # output of the fxp*fxp gadget
        except (ValueError, AssertionError):
            g = None                                                       # 2^r does not fit the bitlength
        if g is not None and g.lc.value == A: yield "gadget", g

# ---------------------------------------------------------------- the core checks

def run(op, what):
    """ runs op(); returns (result or None, mark) ; None means it raised (allowed by the property) """
    m = mark()
    try:
        res = op()
    except (ValueError, AssertionError, ZeroDivisionError) as e:
        bump("raised")
        return None, m
    return res, m

def check_value(res, m, expect, what, check_constraints=True):
    if not isinstance(res, LinCombFxp):
        fail("result is not fixed-point:", what, type(res)); return
    if res.lc.value != expect:
        fail("wrong representation:", what, "got", res.lc.value, "expected", expect); return
    if check_constraints:
        constraints_hold(m, what)
        wire_consistent(res, what)

def check_linear(x, res, m, lhs_coef, rhs_coef, what):
    """ if the operation emitted nothing, res must be the linear function  lhs_coef*res == rhs_coef*x  of x """
    if mark() != m: return
    bump("constraint-free")
    for _ in range(3):
        a = random_assignment()
        if (lhs_coef * ev(res.lc.lc, a) - rhs_coef * ev(x.lc.lc, a)) % P != 0:
            fail("constraint-free result is not the right linear function of its operand:", what); return

def check_mul(x, A, f, r, what, order):
    B = scaled(f, r)
    expect = (A * B) >> r                       # floor(A*B/2^r), also for negative A*B
    assert expect == (Fraction(A * B, 1 << r)).__floor__()
    res, m = run((lambda: x * f) if order == 0 else (lambda: f * x), what)
    if res is None: return False
    check_value(res, m, expect, what)
    if (A * B) % (1 << r) == 0:
        check_linear(x, res, m, 1 << r, B, what)
        # exact case: agrees with plain Python float arithmetic when f is exactly representable
        if Fraction(f) * (1 << r) == B and abs(A * B) < (1 << 60):
            if res.lc.value / (1 << r) != (A / (1 << r)) * f:
                fail("exact product differs from float arithmetic:", what)
    return True

def check_div(x, A, f, r, what):
    B = scaled(f, r)
    res, m = run(lambda: x / f, what)
    if B == 0:
        if res is not None: fail("division by a zero constant did not raise:", what)
        return False
    if res is None: return False
    expect = (A << r) // B
    assert expect == (Fraction(A << r, B)).__floor__()
    check_value(res, m, expect, what)
    if (A << r) % B == 0:
        check_linear(x, res, m, B, 1 << r, what)
    return True

def check_rdiv(x, A, f, r, what):
    B = scaled(f, r)
    res, m = run(lambda: f / x, what)
    if A == 0:
        if res is not None: fail("division by zero did not raise:", what)
        return False
    if res is None: return False
    check_value(res, m, (B << r) // A, what)
    return True

def check_val(res, r, what):
    m = mark()
    v = res.val()
    if v != res.lc.value / (1 << r): fail("val() is not representation/2^r:", what)
    constraints_hold(m, what + " .val()")
    if be.pubvals[-1] != res.lc.value: fail("val() output wire differs:", what)

# ---------------------------------------------------------------- sweeps

def float_constants(r):
    cs = [0.0, -0.0, 1.0, -1.0, 2.0, -2.0, 3.0, 4.0, 8.0, 16.0, 5.0, -6.0, 12.0, 100.0, 256.0, 1024.0, 4096.0,
          0.5, -0.5, 0.25, 0.125, 0.75, -0.75, 1.5, -1.5, 2.5, 3.125, 0.375, 10.25, 0.0625, 0.03125,
          0.00390625, 0.001953125, 1.00390625, 7.99609375, -3.5,
          0.1, -0.1, 0.3, 3.14, 2.718281828, 1e-9, 33.333, 0.999]
    cs += [k / (1 << r) for k in (1, 2, 3, 5, 6, 7, 12, 24, 96, 255, 257, -1, -3, -10)]
    cs += [float(1 << k) / (1 << r) for k in range(0, 2 * r + 3, max(1, r // 3))]
    return cs

def operand_reprs(r, bl):
    top = 1 << (bl - 1)
    vals = {0, 1, -1, 2, 3, -3, 1 << r, -(1 << r), 3 << r, (1 << r) + 1, (1 << r) - 1, 5 << max(r - 1, 0),
            -(5 << max(r - 1, 0)), 77, -77, 1000, -1000, top - 1, -top, top // 2, top // 4 + 1, -(top // 4) - 1,
            (1 << r) * 10 + 3, 12 << r}
    return sorted(v for v in vals if -top <= v < top)

def reset_backend():
    del be.constraints[:]

def sweep_mul_div():
    for r in (0, 1, 4, 8, 12):
        for bl in ((8, 16, 24) if r == 8 else (8, 16) if r < 4 else (16,)):
            fx.resolution = r
            rt.bitlength = bl
            for A in operand_reprs(r, bl):
                for f in float_constants(r):
                    reset_backend()
                    for (src, x) in operands(A, r):
                        what = "r=%d bl=%d A=%d f=%r src=%s" % (r, bl, A, f, src)
                        if check_mul(x, A, f, r, what + " x*f", 0): bump("mul ok")
                        if check_mul(x, A, f, r, what + " f*x", 1): bump("mul ok")
                        if check_div(x, A, f, r, what + " x/f"): bump("div ok")
                        if src in ("priv", "lin") and check_rdiv(x, A, f, r, what + " f/x"): bump("rdiv ok")
                    # read back + chaining (result of a changed operation feeds the next one)
                    x = PrivValFxp(A, False)
                    res, m = run(lambda: (x * f) / 0.5 * 2.0 / 4.0, "chain")
                    if res is not None:
                        B = scaled(f, r)
                        t = (A * B) >> r
                        t = (t << r) // scaled(0.5, r) if scaled(0.5, r) else None
                        if t is not None:
                            t = (t * scaled(2.0, r)) >> r
                            t = (t << r) // scaled(4.0, r)
                            check_value(res, m, t, "r=%d bl=%d A=%d f=%r chain" % (r, bl, A, f))
                            check_val(res, r, "r=%d bl=%d A=%d f=%r chain" % (r, bl, A, f))
                            bump("chain ok")

def sweep_guards():
    """ changed code inside lazy if_then_else branches (true and false guards) and under ignore_errors """
    for r in (0, 3, 8):
        for bl in (12, 16):
            fx.resolution = r
            rt.bitlength = bl
            for A in (0, 1, -5, 3 << r, (1 << r) + 1, -(7 << r) - 1, 300, -301):
                if not -(1 << (bl - 1)) <= A < (1 << (bl - 1)): continue
                for (f, g) in itertools.product((0.5, 2.0, 0.75, 3.0, 0.1 if r else 1.0, -1.5, 0.0),
                                                (0.5, 0.25, 1.0, 2.0, 3.0, 1.5, 64.0)):
                    reset_backend()
                    Bf, Bg = scaled(f, r), scaled(g, r)
                    if Bg == 0: continue
                    em, ed = (A * Bf) >> r, (A << r) // Bg
                    for c in (0, 1):
                        x = PrivValFxp(A, False)
                        cond = PrivValBool(c)
                        what = "guard r=%d bl=%d A=%d f=%r g=%r c=%d" % (r, bl, A, f, g, c)
                        res, m = run(lambda: if_then_else(cond, lambda: x * f, lambda: x / g), what)
                        if res is None: continue
                        check_value(res, m, em if c else ed, what)
                        check_val(res, r, what)
                        bump("guard ok")
                    # ignore_errors: same constraints are generated; where the plain run did not raise, they hold
                    x = PrivValFxp(A, False)
                    plain, _ = run(lambda: (x * f, x / g), "plain")
                    rt.ignore_errors(True)
                    try:
                        m = mark()
                        rm, rd = x * f, x / g
                        what = "ignore_errors r=%d bl=%d A=%d f=%r g=%r" % (r, bl, A, f, g)
                        check_value(rm, m, em, what, check_constraints=plain is not None)
                        check_value(rd, m, ed, what, check_constraints=plain is not None)
                        bump("ignore_errors ok")
                    finally:
                        rt.ignore_errors(False)

def sweep_other_clauses():
    """ the remaining clauses of the property, over operand type combinations (unchanged code, same oracle) """
    for r in (0, 4, 8):
        fx.resolution = r
        rt.bitlength = 16
        S = 1 << r
        for (a, b) in itertools.product((0.0, 1.0, -1.0, 2.5, -2.5, 3.0, 7.75, -7.75, 0.5, 12.0), repeat=2):
            A, Bv = scaled(a, r), scaled(b, r)
            reset_backend()
            def others():
                yield "fxp", PrivValFxp(Bv, False), Bv
                yield "float", b, Bv
                if b == int(b):
                    yield "int", int(b), Bv
                    yield "lincomb", PrivVal(int(b)), Bv
                if b in (0.0, 1.0):
                    yield "bool", PrivValBool(int(b)), Bv
            for (kind, o, Bo) in others():
                x = PrivValFxp(A, False)
                what = "r=%d a=%r b=%r other=%s" % (r, a, b, kind)
                exact = [("+", lambda: x + o, A + Bo), ("r+", lambda: o + x, A + Bo),
                         ("-", lambda: x - o, A - Bo), ("r-", lambda: o - x, Bo - A),
                         ("neg", lambda: -x, -A)]
                if kind in ("int", "lincomb", "bool"):
                    k = Bo >> r
                    exact += [("*i", lambda: x * o, A * k), ("r*i", lambda: o * x, A * k)]
                if kind == "fxp":
                    exact += [("*", lambda: x * o, (A * Bo) >> r)]
                    if Bo: exact += [("/", lambda: x / o, (A << r) // Bo)]
                if kind == "int" and Bo:
                    exact += [("/i", lambda: x / o, A // (Bo >> r))]
                if Bo and kind != "bool":
                    exact += [("//", lambda: x // o, (A // Bo) << r), ("%", lambda: x % o, A % Bo)]
                for (nm, op, expect) in exact:
                    res, m = run(op, what + " " + nm)
                    if res is None: continue
                    check_value(res, m, expect, what + " " + nm)
                    bump("other ok")
                if kind == "bool": continue
                for (nm, op, expect) in [("<", lambda: x < o, A < Bo), ("<=", lambda: x <= o, A <= Bo),
                                         (">", lambda: x > o, A > Bo), (">=", lambda: x >= o, A >= Bo),
                                         ("==", lambda: x == o, A == Bo), ("!=", lambda: x != o, A != Bo)]:
                    m = mark()
                    try: res = op()
                    except (ValueError, AssertionError): bump("raised"); continue
                    if not isinstance(res, LinCombBool) or res.lc.value != int(expect):
                        fail("comparison wrong:", what, nm, res)
                    constraints_hold(m, what + " " + nm)
                    bump("cmp ok")

sweep_mul_div()
sweep_guards()
sweep_other_clauses()

print("statistics:", dict(sorted(stats.items())))
need = {"mul ok": 5000, "div ok": 2000, "rdiv ok": 300, "chain ok": 200, "guard ok": 500,
        "ignore_errors ok": 300, "other ok": 1000, "cmp ok": 1000}
for (k, n) in need.items():
    if stats.get(k, 0) < n: fail("too few non-raising cases for", k, stats.get(k, 0))

if failures:
    print("%d FAILURES" % len(failures))
    sys.exit(1)
print("property C14 held in all cases")
sys.exit(0)
