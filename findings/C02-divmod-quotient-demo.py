"""C02 known finding: the quotient witness of LinComb.__divmod__ is never range-checked, so (quo, rem) is not
unique over the field: 5 % 2 == 0 has a satisfying assignment."""
import sys
sys.argv = [sys.argv[0]]
import pysnark.runtime as rt
from pysnark.runtime import PrivVal
import pysnark.snarkjsbackend as be
rt.autoprove = False
p = be.get_modulus()
x = PrivVal(5); d = PrivVal(2)
a = len(be.privvals)
q, r = divmod(x, d)
b = len(be.privvals)
ncons = len(be.constraints)
x2 = PrivVal(4); d2 = PrivVal(2)
a2 = len(be.privvals)
q2, r2 = divmod(x2, d2)          # honest run with remainder 0: its range-check bits are reused below
def ev(lc, priv, pub):
    s = 0
    for k, v in lc.lc.items():
        s += v if k == 0 else (v * pub[k - 1] if k > 0 else v * priv[-k - 1])
    return s % p
def violated(priv):
    return [i for i, c in enumerate(be.constraints[:ncons])
            if (ev(c[0], priv, be.pubvals) * ev(c[1], priv, be.pubvals) - ev(c[2], priv, be.pubvals)) % p]
honest = list(be.privvals)
assert violated(honest) == []
forged = list(honest)
quo = 5 * pow(2, -1, p) % p
forged[a] = quo                   # quotient: 5/2 in the field
forged[a + 1] = 5                 # quo * divisor
forged[a + 2] = 0                 # remainder claimed to be 0
forged[a + 3:b] = honest[a2 + 3:a2 + 3 + (b - a - 3)]
bad = violated(forged)
print("honest: 5 %% 2 = %d; forged witness with remainder 0 violates constraints %s" % (r.value, bad))
if not bad:
    print("C02 VIOLATED: the constraints of divmod(5, 2) are satisfied with remainder 0 and quotient 5*inv(2)")
    sys.exit(1)
