"""Power domain: which power of its argument does a helper return?

`power_of(fnode, consts)` abstractly evaluates a one-argument function whose parameter stands for a wire x.  Abstract values:
    ("pow", k)   the wire x^k  (k a concrete non-negative integer; LinComb.ONE is x^0)
    int / bool   concrete numbers (exponent bookkeeping: `exponent = a`, `exponent >>= 1`, `exponent & 1`)
    None         Python's None
    UNK          anything else (a modulus read from the backend, ...); may only flow into statements without effect on wires
Loops run on the concrete numbers (constant propagation; at most 4096 steps), tests must be decidable from them.  Statements
that only touch the plain value carried next to a wire (`w.value %= modulus`) do not change which power the wire is.
Raises Undecided when the function leaves this fragment - the caller reports *undecided*, never a violation.
"""
import ast

from .loader import norm


class Undecided(Exception):
    pass


class _Unk:
    def __repr__(self):
        return "UNK"


UNK = _Unk()


class _Return(Exception):
    def __init__(self, v):
        self.v = v


def _is_pow(v):
    return isinstance(v, tuple) and v and v[0] == "pow"


def power_of(fnode, consts, unit_names=("LinComb.ONE", "LinComb.ONE_SAFE", "runtime.LinComb.ONE")):
    """exponent k such that fnode(x) returns the wire x^k, given the module constants `consts` (name -> int)"""
    params = [a.arg for a in fnode.args.args]
    if len(params) != 1 or fnode.args.vararg or fnode.args.kwarg or fnode.args.kwonlyargs:
        raise Undecided("not a one-argument function")
    env = {params[0]: ("pow", 1)}
    steps = [0]

    def ev(n):
        t = norm(n)
        if t in unit_names:
            return ("pow", 0)
        if isinstance(n, ast.Constant):
            if n.value is None or isinstance(n.value, (int, bool)):
                return n.value
            return UNK
        if isinstance(n, ast.Name):
            if n.id in env:
                return env[n.id]
            if n.id in consts:
                return consts[n.id]
            return UNK
        if isinstance(n, ast.BinOp):
            l, r = ev(n.left), ev(n.right)
            if _is_pow(l) or _is_pow(r):
                if isinstance(n.op, ast.Mult) and _is_pow(l) and _is_pow(r):
                    return ("pow", l[1] + r[1])
                if isinstance(n.op, ast.Pow) and _is_pow(l) and isinstance(r, int) and not isinstance(r, bool) and r >= 0:
                    return ("pow", l[1] * r)
                if isinstance(n.op, ast.Mult) and (l == 1 or r == 1):
                    return l if _is_pow(l) else r
                raise Undecided("wire arithmetic other than products and constant powers: %s" % t[:60])
            if l is UNK or r is UNK or l is None or r is None:
                return UNK
            ops = {ast.Add: lambda: l + r, ast.Sub: lambda: l - r, ast.Mult: lambda: l * r, ast.BitAnd: lambda: l & r,
                   ast.BitOr: lambda: l | r, ast.BitXor: lambda: l ^ r, ast.FloorDiv: lambda: l // r, ast.Mod: lambda: l % r,
                   ast.RShift: lambda: l >> r, ast.LShift: lambda: l << r if r < 4096 else UNK}
            if type(n.op) in ops:
                try:
                    return ops[type(n.op)]()
                except Exception:
                    return UNK
            return UNK
        if isinstance(n, ast.UnaryOp):
            v = ev(n.operand)
            if isinstance(n.op, ast.Not):
                return not truth(v, n.operand)
            if v is UNK or v is None or _is_pow(v):
                return UNK
            return -v if isinstance(n.op, ast.USub) else (~v if isinstance(n.op, ast.Invert) else v)
        if isinstance(n, ast.Compare) and len(n.ops) == 1:
            l, r = ev(n.left), ev(n.comparators[0])
            op = n.ops[0]
            if isinstance(op, (ast.Is, ast.IsNot)):
                if l is UNK or r is UNK:
                    raise Undecided("identity test on an unknown: %s" % t[:60])
                same = (l is None and r is None) or (l is r)
                return same if isinstance(op, ast.Is) else not same
            if any(x is UNK or x is None or _is_pow(x) for x in (l, r)):
                raise Undecided("comparison not decidable from the constants: %s" % t[:60])
            return {ast.Eq: l == r, ast.NotEq: l != r, ast.Lt: l < r, ast.LtE: l <= r, ast.Gt: l > r, ast.GtE: l >= r}.get(type(op), UNK)
        if isinstance(n, ast.BoolOp):
            res = None
            for v in n.values:
                res = ev(v)
                tv = truth(res, v)
                if isinstance(n.op, ast.And) and not tv:
                    return res
                if isinstance(n.op, ast.Or) and tv:
                    return res
            return res
        if isinstance(n, ast.IfExp):
            return ev(n.body) if truth(ev(n.test), n.test) else ev(n.orelse)
        if isinstance(n, ast.Call):
            f = norm(n.func)
            if f.endswith(".bit_length") and not n.args:
                v = ev(n.func.value)
                if isinstance(v, int):
                    return v.bit_length()
            if any(_is_pow(ev(a)) for a in n.args):
                raise Undecided("a wire is passed to `%s`" % f[:40])
            return UNK
        if isinstance(n, ast.Attribute):
            return UNK
        return UNK

    def truth(v, node):
        if v is UNK:
            raise Undecided("test not decidable from the constants: %s" % norm(node)[:60])
        if _is_pow(v):
            raise Undecided("truth value of a wire: %s" % norm(node)[:60])
        return bool(v)

    def run(stmts):
        for s in stmts:
            steps[0] += 1
            if steps[0] > 4096:
                raise Undecided("loop does not terminate within 4096 steps on the constants")
            if isinstance(s, ast.Expr):
                if isinstance(s.value, ast.Constant):
                    continue
                ev(s.value)
            elif isinstance(s, ast.Assign) and len(s.targets) == 1 and isinstance(s.targets[0], ast.Name):
                env[s.targets[0].id] = ev(s.value)
            elif isinstance(s, ast.AugAssign) and isinstance(s.target, ast.Name):
                env[s.target.id] = ev(ast.BinOp(left=ast.Name(id=s.target.id, ctx=ast.Load()), op=s.op, right=s.value))
            elif isinstance(s, (ast.Assign, ast.AugAssign)) and all(
                    isinstance(tg, ast.Attribute) and tg.attr == "value" for tg in (s.targets if isinstance(s, ast.Assign) else [s.target])):
                # the plain value carried next to the wire (w.value %= modulus): which power the WIRE is does not change
                if _is_pow(ev(s.value)):
                    raise Undecided("a wire stored into .value")
            elif isinstance(s, ast.If):
                run(s.body if truth(ev(s.test), s.test) else s.orelse)
            elif isinstance(s, ast.While):
                while truth(ev(s.test), s.test):
                    steps[0] += 1
                    if steps[0] > 4096:
                        raise Undecided("loop does not terminate within 4096 steps on the constants")
                    run(s.body)
                run(s.orelse)
            elif isinstance(s, ast.For) and isinstance(s.target, ast.Name) and isinstance(s.iter, ast.Call) and norm(s.iter.func) == "range":
                args = [ev(a) for a in s.iter.args]
                if not all(isinstance(a, int) for a in args):
                    raise Undecided("range over a non-constant")
                for i in range(*args):
                    steps[0] += 1
                    if steps[0] > 4096:
                        raise Undecided("loop does not terminate within 4096 steps on the constants")
                    env[s.target.id] = i
                    run(s.body)
            elif isinstance(s, ast.Return):
                raise _Return(ev(s.value) if s.value is not None else None)
            elif isinstance(s, (ast.Pass, ast.Global, ast.Nonlocal, ast.Assert)):
                continue
            else:
                raise Undecided("statement outside the fragment: %s" % norm(s)[:60])

    try:
        run(fnode.body)
    except _Return as r:
        if _is_pow(r.v):
            return r.v[1]
        raise Undecided("returns %r, not a power of its argument" % (r.v,))
    raise Undecided("falls off the end")
