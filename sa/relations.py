"""Canonical integer relations:  (kind, polynomial)  with kind in {'>=0', '==0', '!=0'}.

a <  b  <=>  b - a - 1 >= 0        a <= b  <=>  b - a >= 0
a >  b  <=>  a - b - 1 >= 0        a >= b  <=>  a - b >= 0
a == b  <=>  a - b == 0            a != b  <=>  a - b != 0     (sign-normalised)
"""
import ast

from .poly import P, poly_of


def _signnorm(p):
    if not p.t:
        return p
    lead = sorted(p.t.items(), key=lambda kv: (str(kv[0])))[0][1]
    return -p if lead < 0 else p


def rel(op, a, b, negate=False):
    """Relation  a <op> b  (or its negation) in canonical form."""
    name = type(op).__name__
    if negate:
        name = {"Lt": "GtE", "LtE": "Gt", "Gt": "LtE", "GtE": "Lt", "Eq": "NotEq", "NotEq": "Eq"}.get(name)
    if name == "Lt":
        return (">=0", b - a - 1)
    if name == "LtE":
        return (">=0", b - a)
    if name == "Gt":
        return (">=0", a - b - 1)
    if name == "GtE":
        return (">=0", a - b)
    if name == "Eq":
        return ("==0", _signnorm(a - b))
    if name == "NotEq":
        return ("!=0", _signnorm(a - b))
    return None


def relations_when_false(test, env):
    """The relations that hold when boolean expression `test` is FALSE (i.e. no raise),
    as a list (conjunction); None when not expressible."""
    if isinstance(test, ast.BoolOp) and isinstance(test.op, ast.Or):
        out = []
        for v in test.values:
            r = relations_when_false(v, env)
            if r is None:
                return None
            out += r
        return out
    if isinstance(test, ast.UnaryOp) and isinstance(test.op, ast.Not):
        return relations_when_true(test.operand, env)
    if isinstance(test, ast.Compare) and len(test.ops) == 1:
        a, b = poly_of(test.left, env, strict=True), poly_of(test.comparators[0], env, strict=True)
        if a is None or b is None:
            return None
        r = rel(test.ops[0], a, b, negate=True)
        return [r] if r else None
    return None


def relations_when_true(test, env):
    if isinstance(test, ast.BoolOp) and isinstance(test.op, ast.And):
        out = []
        for v in test.values:
            r = relations_when_true(v, env)
            if r is None:
                return None
            out += r
        return out
    if isinstance(test, ast.UnaryOp) and isinstance(test.op, ast.Not):
        return relations_when_false(test.operand, env)
    if isinstance(test, ast.Compare) and len(test.ops) == 1:
        a, b = poly_of(test.left, env, strict=True), poly_of(test.comparators[0], env, strict=True)
        if a is None or b is None:
            return None
        r = rel(test.ops[0], a, b)
        return [r] if r else None
    return None


GADGET_REL = {"assert_positive": ">=0", "check_positive": ">=0", "assert_zero": "==0", "check_zero": "==0",
              "assert_nonzero": "!=0", "check_nonzero": "!=0"}


def gadget_relation(call, env):
    """`E.assert_positive(...)` -> ('>=0', poly(E))"""
    if not (isinstance(call, ast.Call) and isinstance(call.func, ast.Attribute) and call.func.attr in GADGET_REL):
        return None
    p = poly_of(call.func.value, env, strict=True)
    if p is None:
        return None
    k = GADGET_REL[call.func.attr]
    return (k, p if k == ">=0" else _signnorm(p))


def show(r):
    return "%s %s" % (r[1], r[0].replace("0", " 0"))
